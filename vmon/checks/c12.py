"""C12 — script integers, data pushes and script text encode canonically and losslessly."""
from vmon.probe import shard_rng, observe
from vmon.refs import scriptnum as R

PROPERTY = "C12"
PRELOAD_NETWORK_ORDERS = [["btc", "xtn", "ltc", "bch", "grs", "doge", "dash", "btg"], ["btg", "grs", "bch", "doge", "ltc", "xtn", "btc"]]
LEVEL = "exploration"
TECHNIQUE = ("differential runtime monitor vs a Core-semantics reference (CScriptNum, GetOp, CheckMinimalPush); exhaustive "
             "small integers / short byte strings / every push length across the opcode boundaries")
RULE = ("cases: (i) integers - every |v| <= 2^18 (thorough 2^22), +-2^k+d for k <= 72 (thorough 130), random by bit length; "
        "(ii) candidate encodings - every byte string of length <= 2 (thorough <= 3), boundary-biased strings of 3..11 bytes and of "
        "12..521 bytes; "
        "(iii) pushes - every one- and two-byte value, every data length 0..600, 65,400..65,600, 69,990..70,000 and, in between, "
        "2^k-1 / 2^k / 2^k+1 for k = 10..15, round lengths and a few random ones, with "
        "zero / 0xff / 0x01.. / 0x81.. / random contents, lists of pushes; (iv) truncations - every push form (direct, "
        "PUSHDATA1/2/4, minimal or not) cut at every point of the length field and at start / middle / last byte of the "
        "data, at pc 0 and after a prefix; (v) scripts - every known opcode alone and in pairs, random sequences of 0..200 "
        "known opcodes and minimal pushes; get_opcodes started at every class of instruction boundary (pc argument); "
        "(vi) call histories on the shared ScriptTools / ScriptStreamer objects - every query class re-checked right after a "
        "call that failed part-way (script text with a bad token after k good ones, non-minimal push under "
        "verify_minimal_data, truncated script, wrong argument type, non-minimal number), after an abandoned or exhausted "
        "get_opcodes iterator, after another ScriptStreamer/ScriptTools pair with other tables was built and used, and with two "
        "iterators advanced alternately; (vii) truncation x minimal-push rule matrix - every direct opcode 1..75 and "
        "PUSHDATA1/2/4 (length field cut at every point, announced lengths of every class up to 2^32-1) with the surviving data "
        "bytes drawn from each class (none / one byte with its own opcode 01..10,81 / one other byte / several), behind several "
        "prefixes, asked through get_opcode (flag by keyword and positionally), get_opcodes (pc argument in both spellings, and "
        "from 0), decoders built through the public constructor with our own non_minimal_data_handler, opcode_list, and the "
        "interpreter (push in the locking script, in the unlocking script, in an unexecuted branch) - each with and without "
        "minimal-push verification; pycoin's own pushes are asked about through the same entry points; compile_push_data_list "
        "with None entries and write_push_data into a non-empty stream; (viii) caller-owned mutable objects - the list opcode_list "
        "returns (asked of a script for the first time in the process, and again) edited in place by each of append / slice "
        "assignment / reverse / clear / del / insert / item assignment / extend / pop / sort / *=, then the same script bytes asked "
        "about again through disassemble, opcode_list, a copy of the bytes and another network's script tools; every other value "
        "the entry points return edited where it is editable and the query repeated; scripts given as bytearray to "
        "disassemble / opcode_list / get_opcodes / get_opcode, data lists (with None entries, and with an item the call refuses "
        "after the good ones) to compile_push_data_list / write_push_data, number encodings as bytearray / list to "
        "int_from_script_bytes - each twice with the same object; ScriptStreamer / ScriptTools built twice from the same lists, "
        "which are then emptied; (ix) one long run - more than 2^16 + 100 (thorough 2^17 + 100) distinct scripts with distinct "
        "pushes through disassemble / compile on the one shared ScriptTools in one process, re-querying the first scripts and "
        "those asked 1, 2, 511..513, 1023, 1024, 65,535..65,537 scripts ago. Non-trivial: v != 0, non-empty string, any push, "
        "script with >= 1 instruction; distinct by (kind, value).")
ASSUMPTIONS = [
    "vmon/refs/scriptnum.py is a faithful port of Core's CScriptNum::serialize/set_vch/minimality test, GetScriptOp, "
    "minimal push encoder and CheckMinimalPush (self-tested on every run: hand-derived boundary encodings, the "
    "non-minimal operands and pushes of Core's script_tests.json, bijection laws exhaustively on |v| <= 70,000 and all "
    "strings of <= 2 bytes, uniqueness of the accepted push form for every length 0..299 and the 64k boundary)",
    "'known opcodes' are the opcodes Core names: 0x4f..0xb9 and 0xff (OP_INVALIDOPCODE), plus the push forms",
    "'the consensus minimal-push rule accepts' is read as: reference CheckMinimalPush accepts the emitted opcode AND "
    "pycoin's own implementation of that rule (get_opcode / get_opcodes with verify_minimal_data=True) does not reject it",
    "'reported as malformed' is read as get_opcode returning a false is_ok (any falsy value; for a complete push any truthy "
    "one) / get_opcodes yielding data None for the push opcode / the interpreter refusing the script; an unrelated exception is "
    "tolerated as a report too, but NOT an iterator that just ends in front of the truncated push (nothing reported), and NOT the report "
    "pycoin gives for a complete push that is not in the shortest form (learned at run time from pycoin itself on complete "
    "non-shortest pushes: exception type + error_code(), or a call of the non_minimal_data_handler passed to the "
    "ScriptStreamer constructor): the reference classifies a truncated push as malformed whether or not minimal pushes are "
    "demanded (Core: GetOp fails -> BAD_OPCODE before CheckMinimalPush is reached)",
    "opcode_list/disassemble of a script ending in a truncated push: only that the truncated push is not shown as a [data] "
    "token and, when the list is instruction-wise (one token per complete instruction, at most one more), that the tokens of "
    "the complete instructions before it are those of that prefix alone",
    "decoding of NON-minimal number encodings without require_minimal, rejection of non-minimal pushes under "
    "verify_minimal_data, and the text form of scripts outside 'known opcodes and minimal pushes' are not judged "
    "(the statement is silent; C03 covers the interpreter side)",
    "caller-owned objects: a bytearray script / list of data / bytearray number is a byte string (list) like any other, so when "
    "the call accepts it the answer is judged as for the same bytes, the object must be unchanged after the call (also after a "
    "call that refused one of the items) and the same object passed again must get the same answer; a refusal of such an "
    "argument is not judged. A list pycoin returned belongs to the caller: editing it must not change any later answer",
    "in history shards the call that is made to fail is only observed (the statement does not say which texts compile() must "
    "reject); what is judged is the next well-formed query, whose expected result does not depend on earlier calls",
]
EXPLANATION = ("every IntStreamer / ScriptStreamer / ScriptTools call is compared with the reference: exact bytes for encoders, "
               "exact value and accept/reject for decoders, is_ok for truncated pushes, byte identity for "
               "compile(disassemble(s))")
TIMEOUT = {"quick": 600, "thorough": 3 * 3600}


MID_LENGTHS = [601, 1000, 1023, 1024, 1025, 2047, 2048, 2049, 4095, 4096, 4097, 8191, 8192, 10000, 16383, 16384, 16385, 20000,
               32767, 32768, 32769, 40000, 49151, 49152, 50000, 60000, 65000, 65399]


def exhaustive(tier):
    return False


def plan(tier, seed):
    q = tier == "quick"
    shards = []
    n_int = 1 << 18 if q else 1 << 22
    parts = 4 if q else 10
    for p in range(parts):
        shards.append({"kind": "ints", "N": n_int, "part": p, "parts": parts, "label": "ints%d" % p})
    shards.append({"kind": "int_edges", "kmax": 72 if q else 130, "n": 60000 if q else 1500000, "label": "int_edges"})
    if q:
        shards.append({"kind": "numbytes", "maxlen": 2, "part": 0, "parts": 1, "n": 120000, "label": "numbytes"})
    else:
        for p in range(16):
            shards.append({"kind": "numbytes", "maxlen": 3, "part": p, "parts": 16, "n": 150000, "label": "numbytes%d" % p})
    shards.append({"kind": "push_small", "two": 1, "n": 3000 if q else 200000, "label": "push_small"})
    for lo, hi in ((0, 200), (200, 400), (400, 601), (65400, 65601), (69990, 70001)):
        shards.append({"kind": "push_len", "lo": lo, "hi": hi, "reps": 1 if q else 12, "label": "push%d" % lo})
    # the stretch between the boundary sweeps (601..65,399): powers of two and their neighbours, round numbers, a few random
    shards.append({"kind": "push_len", "lo": 601, "hi": 65400, "lens": MID_LENGTHS, "extra": 6 if q else 400,
                   "reps": 1 if q else 2, "label": "push_mid"})
    shards.append({"kind": "trunc", "n": 4000 if q else 200000, "label": "trunc"})
    for p in range(2 if q else 4):
        shards.append({"kind": "truncm", "n": 1500 if q else 60000, "part": p, "parts": 2 if q else 4, "label": "truncm%d" % p})
    shards.append({"kind": "script_enum", "label": "script_enum"})
    for p in range(2 if q else 6):
        shards.append({"kind": "hist", "n": 4000 if q else 60000, "label": "hist%d" % p})
    ns = 10 if q else 16
    for p in range(ns):
        shards.append({"kind": "scripts", "n": 3500 if q else 100000, "label": "scripts%d" % p})
    shards.append({"kind": "mut", "n": 2000 if q else 40000, "label": "mut"})
    # ONE process, one shared ScriptTools: more than 2^16 + 100 distinct scripts (2^17 + 100 in thorough) plus re-queries
    shards.append({"kind": "long", "n": ((1 << 16) if q else (1 << 17)) + 300, "label": "long"})
    return shards


def selftest(rec):
    return {"scriptnum_reference_checks": R.selftest()}


# ---------------------------------------------------------------------------------------------

class _M(object):
    pass


def _imports():
    from pycoin.satoshi.IntStreamer import IntStreamer
    from pycoin.symbols.btc import network
    m = _M()
    m.network = network
    m.tools = network.script
    m.streamer = network.script.scriptStreamer
    m.ints = [IntStreamer]
    if getattr(network.script, "intStreamer", IntStreamer) is not IntStreamer:
        m.ints.append(network.script.intStreamer)
    return m


# -- integers ---------------------------------------------------------------------------------

def check_int(v, rec, M):
    rec.case(("int", v), nontrivial=v != 0)
    exp = R.serialize(v)
    for IS in M.ints:
        rec.ev("int_to_script_bytes")
        st, got = observe(IS.int_to_script_bytes, v)
        if st != "ok" or bytes(got) != exp:
            top = (abs(v) >> (8 * ((abs(v).bit_length() - 1) // 8))) if v else 0
            mech = "scriptnum.encode_mismatch" + (".sign_bit_boundary" if top >= 0x80 else "")
            rec.violation(mech, {"kind": "int", "v": v}, got, exp)
            continue
        for rm in (False, True):
            rec.ev("int_from_script_bytes")
            st, back = observe(IS.int_from_script_bytes, got, require_minimal=rm)
            if st != "ok":
                rec.violation("scriptnum.rejects_own_encoding" if rm else "scriptnum.decode_raises",
                              {"kind": "int", "v": v}, back, v)
            elif back != v:
                rec.violation("scriptnum.decode_not_inverse", {"kind": "int", "v": v}, back, v)


def check_numbytes(s, rec, M):
    """`s` as a candidate encoding: minimal-required decoding accepts iff minimal, with the right value."""
    rec.case(("numbytes", s), nontrivial=len(s) > 0)
    minimal = R.is_minimal(s)
    val = R.set_vch(s)
    for IS in M.ints:
        rec.ev("int_from_script_bytes.require_minimal")
        st, got = observe(IS.int_from_script_bytes, s, require_minimal=True)
        stp, gotp = observe(IS.int_from_script_bytes, s, True)
        if (stp == "ok") != (st == "ok") or (st == "ok" and gotp != got):
            rec.violation("scriptnum.require_minimal_positional_differs", {"kind": "numbytes", "s": s}, gotp, got)
        if minimal:
            rec.ev("numbytes.minimal")
            if st != "ok":
                rec.violation("scriptnum.rejects_minimal", {"kind": "numbytes", "s": s}, got, val)
            elif got != val:
                rec.violation("scriptnum.minimal_decode_wrong_value", {"kind": "numbytes", "s": s}, got, val)
            rec.ev("int_from_script_bytes")
            st2, got2 = observe(IS.int_from_script_bytes, s)
            if st2 != "ok" or got2 != val:
                rec.violation("scriptnum.minimal_decode_wrong_value", {"kind": "numbytes", "s": s}, got2, val)
            # a minimal form is the encoding of its value
            rec.ev("int_to_script_bytes")
            st3, enc = observe(IS.int_to_script_bytes, val)
            if st3 != "ok" or bytes(enc) != s:
                rec.violation("scriptnum.encode_mismatch", {"kind": "int", "v": val}, enc, s)
        else:
            rec.ev("numbytes.nonminimal")
            if st == "ok":
                if len(s) == 1:
                    why = "single_byte_zero"
                elif (s[-1] & 0x7f) == 0:
                    why = "padded"
                else:
                    why = "other"
                rec.violation("scriptnum.accepts_non_minimal." + why, {"kind": "numbytes", "s": s}, got, "rejected")
            # lenient decoding of a non-minimal form is observed, not judged
            rec.ev("int_from_script_bytes.lenient_nonminimal(unjudged)")
            observe(IS.int_from_script_bytes, s)


def run_ints(spec, rec, M):
    N, part, parts = spec["N"], spec["part"], spec["parts"]
    total = 2 * N + 1
    lo = -N + total * part // parts
    hi = -N + total * (part + 1) // parts
    for v in range(lo, hi):
        check_int(v, rec, M)
    if part == 0:
        v = lo + 1
        rec.sample({"op": "int_to_script_bytes", "v": v, "encoding": observe(M.ints[0].int_to_script_bytes, v)[1]})


def run_int_edges(spec, rec, M):
    rng = shard_rng(spec["seed"], PROPERTY, spec["tier"], spec["shard"])
    for k in range(0, spec["kmax"] + 1):
        for d in (-2, -1, 0, 1, 2):
            for sgn in (1, -1):
                check_int(sgn * ((1 << k) + d), rec, M)
        # all-ones / alternating patterns of k bits
        for pat in ((1 << k) - 1, int("55" * ((k + 7) // 8 or 1), 16) & ((1 << k) - 1), 0x80 << (8 * (k // 8)), 0x7f << (8 * (k // 8))):
            check_int(pat, rec, M)
            check_int(-pat, rec, M)
    bits_max = spec["kmax"] + 8
    for i in range(spec["n"]):
        bits = rng.randrange(1, bits_max)
        v = rng.getrandbits(bits) | (1 << (bits - 1))
        if i % 3 == 0:      # force the top byte to a sign-boundary value
            nb = (v.bit_length() + 7) // 8
            v = (v & ((1 << (8 * (nb - 1))) - 1)) | (rng.choice([0x7f, 0x80, 0x81, 0xff, 0x01]) << (8 * (nb - 1)))
        check_int(v if rng.random() < 0.5 else -v, rec, M)
    rec.sample({"op": "int_to_script_bytes", "v": -(1 << 71), "encoding": observe(M.ints[0].int_to_script_bytes, -(1 << 71))[1]})


def run_numbytes(spec, rec, M):
    rng = shard_rng(spec["seed"], PROPERTY, spec["tier"], spec["shard"])
    maxlen, part, parts = spec["maxlen"], spec["part"], spec["parts"]
    if part == 0:
        for L in range(0, min(maxlen, 2) + 1):
            for x in range(256 ** L):
                check_numbytes(x.to_bytes(L, "little"), rec, M)
    if maxlen >= 3:
        # all 3-byte strings whose last byte is in this part
        for last in range(256):
            if last % parts != part:
                continue
            for x in range(65536):
                check_numbytes(x.to_bytes(2, "little") + bytes([last]), rec, M)
    top = [0x00, 0x80, 0x01, 0x81, 0x7f, 0xff]
    below = [0x00, 0x7f, 0x80, 0xff, 0x01]
    for i in range(spec["n"]):
        L = rng.choice([3, 3, 4, 4, 5, 5, 6, 7, 8, 9, rng.randrange(3, 12), rng.choice([12, 13, 16, 17, 32, 33, 64, 65, 75, 76, 255, 256, 520, 521])])
        b = bytearray(rng.getrandbits(8) for _ in range(L))
        rec.ev("numbytes.len_3..8" if L <= 8 else "numbytes.len_9..11" if L <= 11 else "numbytes.len_12..")
        mode = rng.random()
        if mode < 0.7:
            b[-1] = rng.choice(top)
        if mode < 0.5:
            b[-2] = rng.choice(below)
        if mode < 0.15:
            for j in range(rng.randrange(1, L)):
                b[-1 - j] = 0
            b[-1] = rng.choice([0, 0x80])
        check_numbytes(bytes(b), rec, M)
    rec.sample({"op": "int_from_script_bytes(require_minimal=True)", "s": b"\xff\x7f\x80", "reference_minimal": False})


# -- pushes -----------------------------------------------------------------------------------

def _data(case):
    pat = case["pattern"]
    L = case["len"]
    if L == 0:
        return b""
    return (pat * (L // len(pat) + 1))[:L]


def _reject_mech(d, p):
    """Mechanism key when pycoin's minimal-push rule rejects the push `p` of `d` that pycoin itself emitted."""
    if p == R.push_encode(d) and ((p[0] == R.OP_PUSHDATA2 and len(d) == 256) or (p[0] == R.OP_PUSHDATA4 and len(d) == 65536)):
        return "push.minimal_rule_rejects_shortest_push.len_256_or_65536"
    return "push.minimal_rule_rejects_shortest_push"


def check_push(case, rec, M):
    d = _data(case)
    rec.case(("push", d if len(d) <= 64 else (len(d), case["pattern"])))
    exp = R.push_encode(d)
    rec.ev("compile_push_data")
    st, p = observe(M.streamer.compile_push_data, d)
    if st != "ok" or not isinstance(p, (bytes, bytearray)):
        rec.violation("push.compile_raises", case, p, exp[:8])
        return
    p = bytes(p)
    if p != exp:
        ok, op, data, npc = R.get_op(p, 0)
        if ok and npc == len(p) and R.stack_value(op, data) == d:
            rec.violation("push.not_shortest.expected_" + R.minimal_form(d), case, p[:8], exp[:8])
        else:
            rec.violation("push.encode_wrong.expected_" + R.minimal_form(d), case, p[:8], exp[:8])
    else:
        rec.ev("push.form." + R.minimal_form(d))
        if not R.check_minimal_push(d, p[0]):     # cannot happen when p == exp; kept as the statement's second half
            rec.violation("oracle.reference_inconsistent", case, p[:8], None)
    # the decoder reads it back
    rec.ev("get_opcode")
    st, r = observe(M.streamer.get_opcode, p, 0)
    if st != "ok" or r[1] is None or bytes(r[1]) != d or r[2] != len(p) or not r[3] or r[0] != p[0]:
        rec.violation("push.decode_mismatch." + R.minimal_form(d), case,
                      r if st != "ok" else [r[0], None if r[1] is None else len(r[1]), r[2], r[3]], [p[0], len(d), len(p), True])
    # and the minimal-push rule accepts it
    rec.ev("get_opcode.verify_minimal_data")
    st, r = observe(M.streamer.get_opcode, p, 0, verify_minimal_data=True)
    if st != "ok":
        rec.violation(_reject_mech(d, p), case, r, "accepted")
    elif r[1] is None or bytes(r[1]) != d or r[2] != len(p) or not r[3]:
        rec.violation("push.decode_mismatch_under_minimal." + R.minimal_form(d), case, [r[0], r[2], r[3]], [p[0], len(p), True])
    if case.get("wide"):
        check_push_wide(case, d, p, rec, M)
    return p


def check_push_wide(case, d, p, rec, M):
    """The push pycoin emitted, asked about in the less travelled ways: flag given positionally, a decoder built with our own
    non_minimal_data_handler (must not be called), the iterator with the flag, the interpreter with VERIFY_MINIMALDATA."""
    rec.ev("get_opcode.verify_minimal_data.positional")
    st, r = observe(M.streamer.get_opcode, p, 0, True)
    if st != "ok":
        rec.violation(_reject_mech(d, p), case, r, "accepted")
    elif r[1] is None or bytes(r[1]) != d or r[2] != len(p) or not r[3]:
        rec.violation("push.decode_mismatch_under_minimal." + R.minimal_form(d), case, [r[0], r[2], r[3]], [p[0], len(p), True])
    for raising in (0, 1):
        pst, ptools, log = _private(M, raising)
        for vmd in (True, False):
            del log[:]
            rec.ev("private_handler.own_push")
            st, r = observe(pst.get_opcode, b"\x51" + p, 1, verify_minimal_data=vmd)
            if log or (st != "ok" and isinstance(r, _NonMinimalReport)):
                rec.violation(_reject_mech(d, p) + ".handler_called", case, list(log[:2]), "handler not called")
            elif st != "ok" or r[1] is None or bytes(r[1]) != d or r[2] != len(p) + 1 or not r[3] or r[0] != p[0]:
                rec.violation("push.decode_mismatch." + R.minimal_form(d), case,
                              r if st != "ok" else [r[0], None if r[1] is None else len(r[1]), r[2], r[3]], [p[0], len(d), len(p) + 1, True])
        del log[:]
        st, got = observe(lambda: list(ptools.get_opcodes(p + b"\x51" + p, True)))
        if log or st != "ok" or len(got) != 3:
            rec.violation(_reject_mech(d, p) + ".handler_called", case, list(log[:2]) or got, "handler not called, 3 instructions")
    if len(d) <= 520:
        F = M.network.validator.flags.VERIFY_MINIMALDATA
        for role, sig, pub in (("pubkey", b"", p + b"\x75\x51"), ("sig", p, b"\x75\x51")):
            rec.ev("vm.own_push." + role)
            plain, e0 = _vm_run(M, sig, pub, 0)
            strict, e1 = _vm_run(M, sig, pub, F)
            if plain == "ok" and strict != "ok":
                rec.violation("vm." + _reject_mech(d, p), dict(case, role=role), e1, "accepted under VERIFY_MINIMALDATA as without it")


def check_push_list(datas, rec, M, case):
    """compile_push_data_list + get_opcodes over several pushes."""
    rec.case(("pushlist", tuple(d if len(d) <= 32 else (len(d), d[:8]) for d in datas)), nontrivial=len(datas) > 0)
    exp = b"".join(R.push_encode(d) for d in datas)
    rec.ev("compile_push_data_list")
    st, s = observe(M.tools.compile_push_data_list, list(datas))
    if st != "ok" or bytes(s) != exp:
        rec.violation("pushlist.encode_mismatch", case, s if st != "ok" else bytes(s)[:16], exp[:16])
        return
    # the same list with None entries (skipped by contract of compile_push_data_list; a refusal is tolerated)
    k = len(exp) % (len(datas) + 1)
    holed = [None] * (k == 0) + list(datas[:k]) + [None] + list(datas[k:]) + [None] * (len(exp) & 1)
    rec.ev("compile_push_data_list.none_entries")
    st, s = observe(M.tools.compile_push_data_list, holed)
    if st == "ok" and bytes(s) != exp:
        rec.violation("pushlist.none_entries_encode_mismatch", case, bytes(s)[:16], exp[:16])
    # the stream-writing entry point, appending to a stream that already holds something
    import io
    f = io.BytesIO()
    f.write(b"\xfe\xfd")
    rec.ev("write_push_data")
    st, r = observe(M.tools.write_push_data, list(datas), f)
    if st != "ok" or f.getvalue() != b"\xfe\xfd" + exp:
        rec.violation("pushlist.write_push_data_mismatch", case, r if st != "ok" else f.getvalue()[2:18], exp[:16])
    check_decode_sequence(exp, rec, M, case)


def check_decode_sequence(script, rec, M, case):
    """get_opcodes over a script of known opcodes and minimal pushes: same instruction boundaries, same pushed data;
    with verify_minimal_data nothing is rejected."""
    ref = R.parse(script)
    rec.ev("get_opcodes")
    st, got = observe(lambda: list(M.tools.get_opcodes(script)))
    if st != "ok" or len(got) != len(ref):
        rec.violation("get_opcodes.sequence_mismatch", case, got if st != "ok" else len(got), len(ref))
        return
    for (op, data, pc, npc), g in zip(ref, got):
        want = R.stack_value(op, data)
        gd = None if g[1] is None else bytes(g[1])
        if g[0] != op or g[2] != pc or g[3] != npc or (want is not None and gd != want):
            rec.violation("get_opcodes.instruction_mismatch." + _instr_class(op, data), case,
                          [g[0], None if gd is None else gd[:8], g[2], g[3]], [op, None if want is None else want[:8], pc, npc])
            return
    # decoding started at an instruction boundary other than 0 yields the tail of the same sequence
    if len(ref) >= 2:
        for k, kw in ((len(ref) // 2, True), (1 if len(script) & 1 else len(ref) - 1, False)):
            start = ref[k][2]
            rec.ev("get_opcodes.start_pc")
            for call in ((lambda: list(M.tools.get_opcodes(script, pc=start))) if kw else
                         (lambda: list(M.tools.get_opcodes(script, False, start))),
                         (lambda: list(M.tools.get_opcodes(script, pc=start, verify_minimal_data=True))) if not kw else
                         (lambda: list(M.tools.get_opcodes(script, True, start)))):
                st, got = observe(call)
                tail = None if st != "ok" else [(g[0], None if g[1] is None else bytes(g[1]), g[2], g[3]) for g in got]
                want = [(op, R.stack_value(op, data), pc, npc) for op, data, pc, npc in ref[k:]]
                if tail is None and _exc_sig(got) in _nonmin_sigs(M):
                    break           # the minimal-push rule refused something: located and reported below
                if tail is None or len(tail) != len(want) or any(
                        (t[0], t[2], t[3]) != (w[0], w[2], w[3]) or (w[1] is not None and t[1] != w[1]) for t, w in zip(tail, want)):
                    rec.violation("get_opcodes.start_pc_mismatch", dict(case, start_pc=start),
                                  got if st != "ok" else [list(t[:1] + t[2:]) for t in tail[:3]], [list(w[:1] + w[2:]) for w in want[:3]])
                    return
    rec.ev("get_opcodes.verify_minimal_data")
    st, got = observe(lambda: list(M.tools.get_opcodes(script, verify_minimal_data=True)))
    if st != "ok":
        # locate the instruction
        mech = "push.minimal_rule_rejects_shortest_push"
        for op, data, pc, npc in ref:
            st1, _ = observe(M.streamer.get_opcode, script, pc, verify_minimal_data=True)
            if st1 != "ok":
                d = R.stack_value(op, data) or b""
                mech = _reject_mech(d, script[pc:npc])
                # shrink the witness to that one push when it fails on its own
                small = {"kind": "push", "len": len(d), "pattern": d[:600] or b"\x00"}
                if _data(small) == d and observe(M.streamer.get_opcode, script[pc:npc], 0, verify_minimal_data=True)[0] != "ok":
                    case = small
                break
        rec.violation(mech, case, got, "accepted")


def _instr_class(op, data):
    if op == 0:
        return "op_0"
    if op < R.OP_PUSHDATA1:
        return "direct"
    if op <= R.OP_PUSHDATA4:
        return {R.OP_PUSHDATA1: "pushdata1", R.OP_PUSHDATA2: "pushdata2", R.OP_PUSHDATA4: "pushdata4"}[op]
    if op == R.OP_1NEGATE or R.OP_1 <= op <= R.OP_16:
        return "op_n"
    return "opcode"


def _length_class(L):
    for name, top in (("0..75", 75), ("76..255", 255), ("256..600", 600), ("601..65399", 65399), ("65400..65535", 65535)):
        if L <= top:
            return name
    return "65536.."


def _patterns(rng, L):
    pats = [b"\x00", b"\xff", b"\x01", b"\x81", b"\x4c", bytes(rng.getrandbits(8) for _ in range(min(max(L, 1), 600)))]
    return pats


def run_push_small(spec, rec, M):
    rng = shard_rng(spec["seed"], PROPERTY, spec["tier"], spec["shard"])
    check_push({"kind": "push", "len": 0, "pattern": b"\x00", "wide": 1}, rec, M)
    for b in range(256):
        check_push({"kind": "push", "len": 1, "pattern": bytes([b]), "wide": 1}, rec, M)
    if spec.get("two"):
        for x in range(65536):
            check_push({"kind": "push", "len": 2, "pattern": x.to_bytes(2, "big"), "wide": int(x % 61 == 0)}, rec, M)
    # lists of pushes
    for i in range(spec["n"]):
        k = rng.choice([0, 1, 2, 3, 5, 8, 20])
        datas = []
        for _ in range(k):
            L = rng.choice([0, 1, 1, 1, 2, 20, 32, 33, 65, 72, 75, 76, 77, 255, 256, 520, rng.randrange(0, 300)])
            if L == 1:
                datas.append(bytes([rng.choice([0, 1, 2, 15, 16, 17, 0x4b, 0x4c, 0x4f, 0x50, 0x51, 0x60, 0x61, 0x80, 0x81, 0xff, rng.getrandbits(8)])]))
            else:
                datas.append(bytes(rng.getrandbits(8) for _ in range(L)))
        check_push_list(datas, rec, M, {"kind": "pushlist", "datas": datas})


def run_push_len(spec, rec, M):
    rng = shard_rng(spec["seed"], PROPERTY, spec["tier"], spec["shard"])
    lens = range(spec["lo"], spec["hi"])
    if spec.get("lens"):
        lens = sorted(set(list(spec["lens"]) + [rng.randrange(spec["lo"], spec["hi"]) for _ in range(spec.get("extra", 0))]))
    for rep in range(spec["reps"]):
        for L in lens:
            rec.ev("push.length_class." + _length_class(L))
            for pat in _patterns(rng, L):
                if rep and len(pat) == 1:
                    continue
                case = {"kind": "push", "len": L, "pattern": pat if len(pat) <= 600 else pat[:600], "wide": int(len(pat) > 1 or pat == b"\x01")}
                p = check_push(case, rec, M)
                if p is not None and len(pat) > 1 and L < 3000:
                    # the same push after other instructions (pc != 0), and inside a list
                    d = _data(case)
                    other = bytes(rng.getrandbits(8) for _ in range(rng.choice([0, 1, 3, 76])))
                    check_push_list([other, d, b"\x07"], rec, M, {"kind": "pushlist", "datas": [other, d, b"\x07"]})
            if L >= 3000:
                d = b"\xa5" * L
                check_push_list([b"\x01", d, d[:300]], rec, M, {"kind": "pushlist_long", "len": L})
    if spec["lo"] == 0:
        L = 256
        st, p = observe(M.streamer.compile_push_data, b"\0" * L)
        rec.sample({"op": "compile_push_data", "len": L, "push_head": p[:6] if st == "ok" else p})


# -- truncation -------------------------------------------------------------------------------

def check_trunc(case, rec, M):
    """case: prefix (complete instructions), form, len, pattern, cut -> script = prefix + push[:cut]."""
    d = _data(case)
    if case["form"] == "claimed":
        full = bytes([case["opcode"]]) + case["lenfield"] + d       # length field claims more than is there
        cut = len(full)
    else:
        full = R.push_raw(d, case["form"])
        cut = case["cut"]
    prefix = case.get("prefix", b"")
    script = prefix + full[:cut]
    pc = len(prefix)
    ok = R.get_op(script, pc)[0]
    assert not ok, "generator error: not a truncated push"
    rec.case(("trunc", case["form"], case["len"], cut, len(prefix), case.get("lenfield")))
    rec.ev("get_opcode.truncated")
    st, r = observe(M.streamer.get_opcode, script, pc)
    width = {R.OP_PUSHDATA1: 1, R.OP_PUSHDATA2: 2, R.OP_PUSHDATA4: 4}.get(full[0], 0)
    where = "length_field" if cut - 1 < width else "data"
    rec.ev("trunc." + where)
    if st == "ok":
        if r[3]:
            rec.violation("push.truncated_reported_ok." + where, case,
                          [r[0], None if r[1] is None else bytes(r[1])[:8], r[2], r[3]], "is_ok False")
    else:
        rec.ev("trunc.reported_by_exception")
        rec.note("get_opcode raised %s on a truncated push (tolerated as a report)" % type(r).__name__)


FORMS = ("direct", "pushdata1", "pushdata2", "pushdata4")


def run_trunc(spec, rec, M):
    rng = shard_rng(spec["seed"], PROPERTY, spec["tier"], spec["shard"])
    prefixes = [b"", b"\x51", b"\x02\xaa\xbb\x76", R.push_encode(b"\x33" * 80) + b"\xac"]
    # every cut of every direct push and of every PUSHDATA1 up to 80; sparser above
    for n in range(1, 76):
        for cut in range(1, n + 1):
            check_trunc({"kind": "trunc", "form": "direct", "len": n, "pattern": b"\x5a", "cut": cut,
                         "prefix": prefixes[(n + cut) % 4]}, rec, M)
    for form, width, lens in (("pushdata1", 1, list(range(0, 81)) + [100, 200, 254, 255]),
                              ("pushdata2", 2, [0, 1, 2, 3, 75, 76, 255, 256, 257, 520, 1000, 65535]),
                              ("pushdata4", 4, [0, 1, 2, 5, 76, 255, 256, 65535, 65536, 70000])):
        for n in lens:
            total = 1 + width + n
            cuts = set(range(1, min(total, 1 + width + 6)))
            cuts.update(c for c in (total // 2, total - 2, total - 1) if 1 <= c < total)
            if n <= 80:
                cuts.update(range(1, total))
            for cut in sorted(cuts):
                for prefix in (prefixes if cut <= 1 + width + 1 else prefixes[:1 + (cut % 2)]):
                    check_trunc({"kind": "trunc", "form": form, "len": n, "pattern": b"\x00" if cut % 2 else b"\xee",
                                 "cut": cut, "prefix": prefix}, rec, M)
    # length fields that claim more than the script holds (incl. 2^31, 2^32-1)
    for opcode, width in ((R.OP_PUSHDATA1, 1), (R.OP_PUSHDATA2, 2), (R.OP_PUSHDATA4, 4)):
        for have in (0, 1, 5, 100):
            for claim in (have + 1, have + 2, 255, 256, 65535, 65536, (1 << 31), (1 << 32) - 1):
                if claim >= 1 << (8 * width) or claim <= have:
                    continue
                check_trunc({"kind": "trunc", "form": "claimed", "opcode": opcode, "lenfield": claim.to_bytes(width, "little"),
                             "len": have, "pattern": b"\x11", "prefix": prefixes[have % 4]}, rec, M)
    for i in range(spec["n"]):
        form = rng.choice(FORMS)
        n = rng.randrange(1, 76) if form == "direct" else rng.choice([0, 1, 75, 76, 255, rng.randrange(0, 256)]) if form == "pushdata1" \
            else rng.choice([0, 76, 256, 520, rng.randrange(0, 3000)])
        total = len(R.push_raw(b"\0" * n, form))
        if total < 2:
            continue
        cut = rng.choice([1, 2, 3, 4, 5, total - 1, rng.randrange(1, total)])
        if not 1 <= cut < total:
            continue
        prefix = b"".join(rng.choice([b"\x00", b"\x51", b"\x76", b"\x01\x4c", b"\x4c\x01\x4d", b"\xff"]) for _ in range(rng.randrange(0, 4)))
        check_trunc({"kind": "trunc", "form": form, "len": n, "pattern": bytes([rng.getrandbits(8)]), "cut": cut, "prefix": prefix}, rec, M)
    rec.sample({"op": "get_opcode", "script": bytes.fromhex("4d51"), "reference": "unreadable (length field short)"})


# -- truncation x minimal-push rule, through every entry point ----------------------------------------
# The reference decoder puts the instruction at pc into one of three classes: "malformed" (GetOp fails), "nonminimal"
# (readable, minimal pushes demanded, CheckMinimalPush refuses) or "ok". A truncated push is malformed in BOTH modes, whatever
# the few surviving bytes look like; pycoin must say so through every way of asking.

CONST_BYTES = tuple(range(1, 17)) + (0x81,)            # one-byte data that has its own opcode (OP_1..OP_16, OP_1NEGATE)
OTHER_BYTES = (0x00, 0x11, 0x4b, 0x4c, 0x7f, 0x80, 0x82, 0xff)


class _NonMinimalReport(Exception):
    pass


def _ref_class(script, pc, minimal):
    ok, op, data, npc = R.get_op(script, pc)
    if not ok:
        return "malformed"
    if minimal and op <= R.OP_PUSHDATA4 and not R.check_minimal_push(data, op):
        return "nonminimal"
    return "ok"


def _exc_sig(e):
    code = None
    f = getattr(e, "error_code", None)
    if callable(f):
        st, code = observe(f)
        if st != "ok":
            code = None
    return (type(e).__name__, code)


def _nonmin_sigs(M):
    """How pycoin's shared decoder words its 'this complete push is not in the shortest form' report (learned from pycoin
    itself on complete, readable, non-shortest pushes; nothing is assumed about codes or messages)."""
    if getattr(M, "nonmin_sigs", None) is None:
        sigs = set()
        for s in (b"\x01\x05", b"\x01\x81", b"\x4c\x01\x20", b"\x4c\x02ab", b"\x4d\x02\x00ab", b"\x4e\x03\x00\x00\x00abc"):
            st, e = observe(M.streamer.get_opcode, s, 0, verify_minimal_data=True)
            if st != "ok":
                sigs.add(_exc_sig(e))
        M.nonmin_sigs = sigs
    return M.nonmin_sigs


def _private(M, raising):
    """A ScriptStreamer / ScriptTools pair built through the public constructors with OUR non_minimal_data_handler, so that
    'classified as non-minimal' is observed as a call of the handler."""
    key = "private_%d" % raising
    if getattr(M, key, None) is None:
        from pycoin.vm.ScriptStreamer import ScriptStreamer
        from pycoin.vm.ScriptTools import ScriptTools
        from pycoin.coins.bitcoin import ScriptStreamer as B
        from pycoin.satoshi import opcodes
        from pycoin.satoshi.IntStreamer import IntStreamer
        log = []

        def handler(msg):
            log.append(msg)
            if raising:
                raise _NonMinimalReport(msg)

        st = ScriptStreamer(B.make_opcode_const_list(), B.make_opcode_sized_list(), B.make_opcode_variable_list(),
                            dict(o for o in opcodes.OPCODE_LIST), handler)
        setattr(M, key, (st, ScriptTools(opcodes.OPCODE_LIST, IntStreamer, st), log))
    return getattr(M, key)


def _pycoin_class(M, call):
    """-> (class, detail): 'ok' / 'malformed' (is_ok False) / 'nonminimal' (worded as for a complete non-shortest push) /
    'exception' (anything else raised)."""
    st, r = observe(call)
    if st == "ok":
        return ("ok" if r[3] else "malformed"), [r[0], None if r[1] is None else bytes(r[1])[:8], r[2], r[3]]
    if isinstance(r, _NonMinimalReport) or _exc_sig(r) in _nonmin_sigs(M):
        return "nonminimal", r
    return "exception", r


def _vm_run(M, script_sig, script_pubkey, flags):
    net = M.network
    credit = net.tx(1, [net.tx.TxIn(b"\0" * 32, 4294967295, b"\0\0")], [net.tx.TxOut(0, script_pubkey)])
    spend = net.tx(1, [net.tx.TxIn(credit.hash(), 0, script_sig)], [net.tx.TxOut(0, b"")],
                   unspents=credit.tx_outs_as_spendable())
    st, e = observe(lambda: spend.check_solution(tx_in_idx=0, flags=flags))
    return ("ok", None) if st == "ok" else (_exc_sig(e), e)


def _vm_nonmin_sigs(M):
    """The interpreter's wording for a complete non-shortest push under VERIFY_MINIMALDATA (learned from pycoin itself)."""
    if getattr(M, "vm_nonmin_sigs", None) is None:
        sigs = set()
        F = M.network.validator.flags.VERIFY_MINIMALDATA
        for s in (b"\x01\x05", b"\x4c\x02ab", b"\x4d\x02\x00ab"):
            plain, _ = _vm_run(M, b"", s + b"\x75\x51", 0)
            strict, _ = _vm_run(M, b"", s + b"\x75\x51", F)
            if plain == "ok" and strict != "ok":
                sigs.add(strict)
        M.vm_nonmin_sigs = sigs
    return M.vm_nonmin_sigs


def _form_of(head):
    return "direct" if head[0] < R.OP_PUSHDATA1 else "pushdata"


def check_truncm(case, rec, M):
    """case: prefix (complete minimal pushes), head (push opcode + what is left of its length field), tail (surviving data
    bytes), vm (also run the interpreter) -> the instruction at len(prefix) is a truncated push."""
    prefix, head, tail = case["prefix"], case["head"], case["tail"]
    script = prefix + head + tail
    pc = len(prefix)
    assert _ref_class(script, pc, False) == "malformed" and _ref_class(script, pc, True) == "malformed", "generator error"
    assert R.parse(prefix) is not None
    form = _form_of(head)
    width = {R.OP_PUSHDATA1: 1, R.OP_PUSHDATA2: 2, R.OP_PUSHDATA4: 4}.get(head[0], 0)
    where = "length_field" if len(head) - 1 < width else "data"
    if len(tail) == 0:
        tclass = "none"
    elif len(tail) == 1:
        tclass = "one_const" if tail[0] in CONST_BYTES else "one_other"
    else:
        tclass = "several"
    rec.case(("truncm", prefix, head, tail))
    rec.ev("truncm.%s.%s.%s" % (form, where, tclass))
    nprefix = len(R.parse(prefix))
    for vmd in (False, True):
        tag = "minimal_on" if vmd else "minimal_off"
        # 1. the shared decoder, flag spelled both ways
        calls = [lambda: M.streamer.get_opcode(script, pc, verify_minimal_data=vmd), lambda: M.streamer.get_opcode(script, pc, vmd)]
        if not vmd:
            calls.append(lambda: M.streamer.get_opcode(script, pc))
        for call in calls:
            rec.ev("get_opcode.truncated." + tag)
            cls, detail = _pycoin_class(M, call)
            if cls == "ok":
                rec.violation("push.truncated_reported_ok." + where, case, detail, "is_ok False")
            elif cls == "nonminimal":
                rec.violation("push.truncated_reported_non_minimal." + form, case, detail, "is_ok False (malformed)")
            elif cls == "exception":
                rec.ev("trunc.reported_by_exception")
                rec.note("get_opcode raised %s on a truncated push (tolerated as a report)" % type(detail).__name__)
        # 2. the iterator: from the truncated push itself (pc argument) and from 0 through the prefix
        for spelled, start, skip in (("kw", pc, 0), ("pos", pc, 0), ("from0", 0, nprefix)):
            rec.ev("get_opcodes.truncated." + tag)

            def walk():
                if spelled == "kw":
                    it = M.tools.get_opcodes(script, pc=start, verify_minimal_data=vmd)
                elif spelled == "pos":
                    it = M.tools.get_opcodes(script, vmd, start)
                else:
                    it = M.tools.get_opcodes(script, vmd)
                out = []
                for _ in range(skip):
                    out.append(next(it))
                reached.append(1)
                out.append(next(it))
                return out
            reached = []
            st, got = observe(walk)
            if not reached:
                rec.ev("truncm.prefix_not_walked(unjudged here)")       # a fault in a complete push: reported by the other shards
            elif st == "ok":
                g = got[-1]
                if g[2] != pc or g[0] != head[0]:
                    rec.violation("get_opcodes.truncated_wrong_instruction", case, [g[0], g[2], g[3]], [head[0], pc])
                elif g[1] is not None:
                    rec.violation("get_opcodes.truncated_yields_data." + where, case, [g[0], bytes(g[1])[:8], g[2], g[3]], "data None")
            elif isinstance(got, StopIteration):
                # the iterator simply ended in front of the truncated push: nothing was reported about it at all
                rec.violation("get_opcodes.truncated_silently_dropped." + where, case, "iterator exhausted at pc %d" % pc,
                              "the push opcode with data None, or an exception")
            elif _exc_sig(got) in _nonmin_sigs(M):
                rec.violation("get_opcodes.truncated_reported_non_minimal." + form, case, got, "data None (malformed)")
            else:
                rec.ev("trunc.reported_by_exception")
                rec.note("get_opcodes raised %s on a truncated push (tolerated as a report)" % type(got).__name__)
        # 3. decoders built with our own non_minimal_data_handler: it must not be called for a truncated push
        for raising in (0, 1):
            pst, ptools, log = _private(M, raising)
            for who in ("get_opcode", "get_opcodes"):
                del log[:]
                rec.ev("private_handler.truncated." + tag)
                if who == "get_opcode":
                    cls, detail = _pycoin_class(M, lambda: pst.get_opcode(script, pc, verify_minimal_data=vmd))
                else:
                    st, g = observe(lambda: next(ptools.get_opcodes(script, vmd, pc)))
                    if st != "ok":
                        cls, detail = ("nonminimal" if isinstance(g, _NonMinimalReport) else
                                       "dropped" if isinstance(g, StopIteration) else "exception"), g
                    else:
                        cls, detail = ("malformed" if g[1] is None else "ok"), [g[0], None if g[1] is None else bytes(g[1])[:8], g[2], g[3]]
                if log or cls == "nonminimal":
                    rec.violation("push.truncated_calls_non_minimal_handler." + form, case, list(log[:2]) or detail, "handler not called")
                elif cls == "ok":
                    rec.violation("push.truncated_reported_ok." + where, case, detail, "is_ok False")
                elif cls == "dropped":
                    rec.violation("get_opcodes.truncated_silently_dropped." + where, case, "iterator exhausted at pc %d" % pc,
                                  "the push opcode with data None, or an exception")
    # 4. the text side: a truncated push is not shown as a data push, and what precedes it is shown as it is alone
    rec.ev("opcode_list.truncated")
    st, lst = observe(M.tools.opcode_list, script)
    st0, lst0 = observe(M.tools.opcode_list, prefix)
    if st == "ok" and st0 == "ok" and isinstance(lst, list) and len(lst0) == nprefix:
        if lst[:nprefix] != lst0:
            if nprefix <= len(lst) <= nprefix + 1:      # another shape for a malformed script is not ours to judge
                rec.violation("opcode_list.truncated_changes_preceding_instructions", case, lst[:4], lst0[:4])
        elif len(lst) > nprefix and str(lst[nprefix]).startswith("["):
            rec.violation("opcode_list.truncated_shown_as_data", case, lst[nprefix], "not a [data] token")
    # 5. the interpreter, with and without VERIFY_MINIMALDATA, push in the locking script / in the unlocking script / in a
    #    branch that is not executed
    if case.get("vm"):
        F = M.network.validator.flags.VERIFY_MINIMALDATA
        for role, sig, pub in (("pubkey", b"\x51", script), ("sig", script, b"\x51"), ("unexecuted", b"", prefix + b"\x51\x00\x63" + head + tail)):
            res = {}
            for flags in (0, F):
                rec.ev("vm.truncated.%s.%s" % (role, "minimaldata" if flags else "plain"))
                res[flags] = _vm_run(M, sig, pub, flags)
                if res[flags][0] == "ok":
                    rec.violation("vm.truncated_push_script_accepted." + role, dict(case, role=role), "accepted, flags=%d" % flags, "rejected")
            if res[F][0] != "ok" and res[0][0] != "ok" and res[F][0] != res[0][0] and res[F][0] in _vm_nonmin_sigs(M):
                rec.violation("vm.truncated_push_reported_non_minimal." + form, dict(case, role=role), res[F][1], res[0][1])


def _tails(n, rng, full):
    """Surviving-data classes for a push announcing n bytes: none, one byte of the constant set, one byte outside it, several."""
    out = [b""]
    if n >= 2:
        cb = CONST_BYTES if full else (1, 16, 0x81, rng.choice(CONST_BYTES))
        ob = OTHER_BYTES if full else (0x00, 0x11, rng.choice(OTHER_BYTES))
        out += [bytes([b]) for b in cb] + [bytes([b]) for b in ob]
    if n >= 3:
        for k in sorted(set([2, (n + 1) // 2, n - 1])):
            if 2 <= k < n:
                out.append(bytes([rng.choice(CONST_BYTES)]) + bytes(rng.getrandbits(8) for _ in range(min(k, 600) - 1)) + b"\x00" * max(0, k - 600))
                out.append(bytes([rng.choice(OTHER_BYTES)]) * k)
    return out


def run_truncm(spec, rec, M):
    rng = shard_rng(spec["seed"], PROPERTY, spec["tier"], spec["shard"])
    part, parts = spec.get("part", 0), spec.get("parts", 1)
    prefixes = [b"", b"\x51", R.push_encode(b"\x22" * 5) + b"\x00", b"\x4f\x60" + R.push_encode(b"\x07" * 76)]
    cases = []
    # direct pushes: every opcode 1..75
    for n in range(1, 76):
        full = n <= 4 or n in (20, 32, 33, 75)
        for tail in _tails(n, rng, full):
            cases.append((bytes([n]), tail, full or len(tail) <= 1))
    # PUSHDATA1/2/4: the length field cut at every point, then announced lengths of every class with every tail class
    for op, width, lens in ((R.OP_PUSHDATA1, 1, [1, 2, 3, 16, 75, 76, 255]),
                            (R.OP_PUSHDATA2, 2, [1, 2, 3, 75, 76, 255, 256, 520, 65535]),
                            (R.OP_PUSHDATA4, 4, [1, 2, 3, 75, 76, 255, 256, 65535, 65536, 1 << 31, (1 << 32) - 1])):
        for have in range(width):
            for b in (0x00, 0x01, 0x02, 0x10, 0x81, 0x4b, 0xff):
                for fill in (b, 0x00):
                    if have or (b == 0 and fill == 0):
                        cases.append((bytes([op]) + (bytes([b]) + bytes([fill]) * (have - 1) if have else b""), b"", True))
        for n in lens:
            for tail in _tails(min(n, 70000), rng, n <= 3 or n in (75, 76, 256)):
                cases.append((bytes([op]) + n.to_bytes(width, "little"), tail, len(tail) <= 1 or n <= 3))
    for i, (head, tail, vm) in enumerate(cases):
        if i % parts != part:
            continue
        for j in ((0, 1 + i % 3) if vm else (i % 4,)):
            check_truncm({"kind": "truncm", "prefix": prefixes[j], "head": head, "tail": tail, "vm": vm}, rec, M)
    # random: any opcode, any announced length, surviving bytes biased to the four classes
    for i in range(spec["n"]):
        op = rng.choice([rng.randrange(1, 76), rng.randrange(1, 76), R.OP_PUSHDATA1, R.OP_PUSHDATA2, R.OP_PUSHDATA4])
        width = {R.OP_PUSHDATA1: 1, R.OP_PUSHDATA2: 2, R.OP_PUSHDATA4: 4}.get(op, 0)
        if width and rng.random() < 0.2:
            head = bytes([op]) + bytes(rng.choice([0, 1, 5, 0x81, rng.getrandbits(8)]) for _ in range(rng.randrange(0, width)))
            tail = b""
        else:
            n = op if not width else rng.choice([1, 2, 75, 76, 255, 256, rng.randrange(1, 1 << (8 * width))])
            n = min(n, (1 << (8 * width)) - 1) if width else n
            head = bytes([op]) + (n.to_bytes(width, "little") if width else b"")
            k = rng.choice([0, 0, 1, 1, 1, 2, n - 1, rng.randrange(0, min(n, 700))])
            k = max(0, min(k, n - 1, 700))
            first = rng.choice([rng.choice(CONST_BYTES), rng.choice(OTHER_BYTES), rng.getrandbits(8)])
            tail = (bytes([first]) + bytes(rng.getrandbits(8) for _ in range(k - 1))) if k else b""
        prefix = b"".join(R.push_encode(rng.choice([b"", b"\x01", b"\x81", b"\x11", b"ab", b"\x4c" * 76, bytes(rng.getrandbits(8) for _ in range(rng.randrange(0, 40)))]))
                          for _ in range(rng.choice([0, 0, 1, 2, 5])))
        check_truncm({"kind": "truncm", "prefix": prefix, "head": head, "tail": tail, "vm": i % 2 == 0}, rec, M)
    rec.sample({"op": "get_opcode(verify_minimal_data=True) / get_opcodes / interpreter with MINIMALDATA", "script": bytes.fromhex("510205"),
                "reference": "malformed in both modes (the surviving byte 05 is not judged by the minimal-push rule)"})


# -- script text ------------------------------------------------------------------------------

def _roundtrip(script, M):
    st, text = observe(M.tools.disassemble, script)
    if st != "ok":
        return "disassemble_raises", text
    st, back = observe(M.tools.compile, text)
    if st != "ok":
        return "compile_raises", (text[:200], back)
    if bytes(back) != script:
        return "mismatch", (text[:200], bytes(back)[:40])
    return None, text


def check_script(script, rec, M, use_list=False):
    ref = R.parse(script)
    assert ref is not None
    rec.case(("script", script), nontrivial=len(script) > 0)
    rec.ev("disassemble")
    rec.ev("compile")
    bad, info = _roundtrip(script, M)
    if bad:
        # shrink to the first instruction that fails on its own, keeping its class as the mechanism
        for op, data, pc, npc in ref:
            one = script[pc:npc]
            b1, i1 = _roundtrip(one, M)
            if b1:
                rec.violation("script.roundtrip_%s.%s" % (b1, _instr_class(op, data)), {"kind": "script", "script": one}, i1, one[:40])
                break
        else:
            rec.violation("script.roundtrip_%s.context" % bad, {"kind": "script", "script": script}, info, script[:40])
        return
    if use_list:
        rec.ev("opcode_list")
        st, lst = observe(M.tools.opcode_list, script)
        if st != "ok":
            rec.violation("script.opcode_list_raises", {"kind": "script", "script": script}, lst, None)
        else:
            st, back = observe(M.tools.compile, " ".join(lst))
            if st != "ok" or bytes(back) != script:
                rec.violation("script.opcode_list_roundtrip_mismatch", {"kind": "script", "script": script},
                              back if st != "ok" else bytes(back)[:40], script[:40])
    check_decode_sequence(script, rec, M, {"kind": "script", "script": script})


def run_script_enum(spec, rec, M):
    ops = R.KNOWN_NONPUSH_OPCODES
    check_script(b"", rec, M, True)
    for a in ops:
        check_script(bytes([a]), rec, M, True)
    for a in ops:
        for b in ops:
            check_script(bytes([a, b]), rec, M)
    # each opcode between pushes of every class
    pushes = [R.push_encode(d) for d in (b"", b"\x00", b"\x05", b"\x81", b"\x11", b"\x4c" * 2, b"a" * 75, b"a" * 76, b"a" * 255,
                                          b"a" * 256, b"a" * 520)]
    for a in ops:
        for i, p in enumerate(pushes):
            check_script(p + bytes([a]) + pushes[(i + 3) % len(pushes)], rec, M)
    # every minimal push of one byte and every direct length alone
    for b in range(256):
        check_script(R.push_encode(bytes([b])), rec, M, True)
    for L in list(range(2, 300)) + [519, 520, 521, 65535, 65536]:
        check_script(R.push_encode(bytes([L & 0xff]) * L), rec, M, L < 80)
    s = bytes.fromhex("76a914") + b"\x11" * 20 + bytes.fromhex("88ac")
    rec.sample({"op": "compile(disassemble(s))", "script": s, "text": observe(M.tools.disassemble, s)[1]})


def _rand_script(rng, small=False):
    ops = R.KNOWN_NONPUSH_OPCODES
    n = rng.choice([0, 1, 2, 3, 5, 8, 13, 25, 50, 100, 200, rng.randrange(0, 201)])
    if small:
        n = min(n, rng.choice([3, 8, 30]))
    out = []
    for _ in range(n):
        r = rng.random()
        if r < 0.45:
            out.append(bytes([rng.choice(ops)]))
        elif r < 0.5:
            out.append(bytes([rng.choice([0xb1, 0xb2, 0xb0, 0xb9, 0xff, 0x4f, 0x50, 0x62, 0x65, 0x66, 0x89, 0x8a])]))
        else:
            L = rng.choice([0, 1, 1, 2, 2, 3, 4, 5, 8, 20, 32, 33, 65, 71, 72, 73, 75, 76, 77, 80, 255, 256, 520,
                            rng.randrange(0, 80), rng.randrange(0, 600)])
            if rng.random() < 0.004 and not small:
                L = rng.choice([65535, 65536, 65537])
            m = rng.random()
            if L == 1:
                d = bytes([rng.choice([0, 1, 2, 9, 10, 16, 17, 0x4c, 0x4f, 0x51, 0x80, 0x81, 0x82, 0xff, rng.getrandbits(8)])])
            elif m < 0.25:
                # bytes that look like decimal digits in hex, or like opcode bytes
                d = bytes(rng.choice([0x11, 0x12, 0x23, 0x45, 0x99, 0x10, 0x01]) for _ in range(L))
            elif m < 0.35:
                d = bytes([rng.choice([0x00, 0xff, 0x4c, 0x4d, 0x4e])]) * L
            elif L > 4000:
                d = bytes(rng.getrandbits(8) for _ in range(64)) * (L // 64 + 1)
                d = d[:L]
            else:
                d = bytes(rng.getrandbits(8) for _ in range(L))
            out.append(R.push_encode(d))
    return b"".join(out)


def run_scripts(spec, rec, M):
    rng = shard_rng(spec["seed"], PROPERTY, spec["tier"], spec["shard"])
    for i in range(spec["n"]):
        s = _rand_script(rng)
        check_script(s, rec, M, use_list=(i % 4 == 0))
        if i == 1:
            rec.sample({"op": "compile(disassemble(s))", "script": s[:60], "text": str(M.tools.disassemble(s[:60]))[:200]
                        if R.parse(s[:60]) is not None else None})


# -- call histories ---------------------------------------------------------------------------
# network.script / its scriptStreamer are process-wide objects. A well-formed query must give the reference's answer whatever
# was asked before: after a call that failed part-way, after an iterator was left half-consumed, with two iterators in flight.

BAD_TOKENS = ["not-a-token", "[abc]", "[zz]", "[", "]", "0xzz", "0x1", "op_dup", "dup", "'open", "OP_NOTANOP", "OP_PUSHDATA9",
              "1e5", "--1", "[0x12]", "\u00e9", "0x", "[]", "99999999999999999999999", "OP_", "''"]


N_BAD_ARG = 32


def _hist_probes(M, s, d, v):
    """One well-formed query of every class the property names -> [(tag, observed, expected)] for those that are wrong."""
    out = []
    bad, info = _roundtrip(s, M)
    if bad:
        out.append(("roundtrip_" + bad, info, s[:40]))
    st, e = observe(M.tools.compile, "")
    if st != "ok" or bytes(e) != b"":
        out.append(("compile_empty_text", e, b""))
    ref = R.parse(s)
    want = [(op, pc, npc) for op, data, pc, npc in ref]
    st, got = observe(lambda: [(g[0], g[2], g[3]) for g in M.tools.get_opcodes(s)])
    if st != "ok" or got != want:
        out.append(("get_opcodes", got if st != "ok" else got[:4], want[:4]))
    exp = R.push_encode(d)
    st, p = observe(M.streamer.compile_push_data, d)
    if st != "ok" or bytes(p) != exp:
        out.append(("compile_push_data", p if st != "ok" else bytes(p)[:8], exp[:8]))
    exp2 = exp + R.push_encode(b"") + R.push_encode(d[:1])
    st, p = observe(M.tools.compile_push_data_list, [d, b"", d[:1]])
    if st != "ok" or bytes(p) != exp2:
        out.append(("compile_push_data_list", p if st != "ok" else bytes(p)[:8], exp2[:8]))
    for vm in (False, True):
        st, r = observe(M.streamer.get_opcode, exp, 0, verify_minimal_data=vm)
        if st != "ok" or r[1] is None or bytes(r[1]) != d or r[2] != len(exp) or not r[3] or r[0] != exp[0]:
            out.append(("get_opcode", r if st != "ok" else [r[0], r[2], r[3]], [exp[0], len(exp), True]))
    enc = R.serialize(v)
    for IS in M.ints:
        st, got = observe(IS.int_to_script_bytes, v)
        if st != "ok" or bytes(got) != enc:
            out.append(("int_to_script_bytes", got, enc))
        for rm in (False, True):
            st, back = observe(IS.int_from_script_bytes, enc, require_minimal=rm)
            if st != "ok" or back != v:
                out.append(("int_from_script_bytes", back, v))
    return out


def _hist_disturb(dist, M, keep):
    """A call (or two) that fails or is abandoned part-way. Only observed. -> 'raised' / 'returned'."""
    k = dist["d"]
    if k == "bad_text":
        return "raised" if observe(M.tools.compile, dist["text"])[0] != "ok" else "returned"
    if k == "bad_expression":
        return "raised" if observe(M.tools.compile_expression, dist["text"])[0] != "ok" else "returned"
    if k == "nonminimal_decode":
        a = observe(lambda: list(M.tools.get_opcodes(dist["script"], verify_minimal_data=True)))[0]
        observe(M.streamer.get_opcode, dist["script"], 0, verify_minimal_data=True)
        return "raised" if a != "ok" else "returned"
    if k == "truncated":
        observe(M.tools.disassemble, dist["script"])
        observe(M.tools.opcode_list, dist["script"])
        a = observe(lambda: list(M.tools.get_opcodes(dist["script"], verify_minimal_data=True)))[0]
        return "raised" if a != "ok" else "returned"
    if k == "bad_arg":
        calls = [lambda: M.streamer.compile_push_data(None), lambda: M.streamer.compile_push_data("ab"),
                 lambda: M.tools.compile_push_data_list([b"abc", 5]), lambda: M.ints[0].int_to_script_bytes("x"),
                 lambda: M.ints[0].int_from_script_bytes(b"\x05\x00", require_minimal=True), lambda: M.tools.compile(None),
                 lambda: M.tools.disassemble(None), lambda: M.streamer.get_opcode(b"", 0),
                 lambda: M.streamer.get_opcode(b"\x51", 5), lambda: M.tools.compile_push_data_list([b"abc" * 30, None, "x"]),
                 lambda: M.tools.write_push_data([b"abc", b"de"], None),
                 # refused part-way through / wrong scalar types, every entry point
                 lambda: M.ints[-1].int_to_script_bytes(None), lambda: M.ints[-1].int_to_script_bytes(300.5),
                 lambda: M.ints[-1].int_from_script_bytes(None), lambda: M.ints[-1].int_from_script_bytes("ab", require_minimal=True),
                 lambda: M.ints[-1].int_from_script_bytes([1, 300, 2]), lambda: M.tools.compile_push_data_list(None),
                 lambda: M.tools.compile_push_data_list([b"ab", bytearray(b"cd"), b"ef"]),
                 lambda: M.tools.write_push_data([b"abc", None, b"de"], __import__("io").BytesIO()),
                 lambda: list(M.tools.get_opcodes(None)), lambda: list(M.tools.get_opcodes(b"\x51\x02\xaa\xbb\x52", pc="0")),
                 lambda: list(M.tools.get_opcodes(b"\x51\x02\xaa\xbb\x52", verify_minimal_data=True, pc=1 << 32)),
                 lambda: M.tools.opcode_list(5), lambda: M.tools.disassemble("OP_DUP"), lambda: M.tools.compile(b"OP_DUP OP_1"),
                 lambda: M.tools.compile_expression(""), lambda: M.tools.compile("OP_1 [ab] 0x4c 0xzz"),
                 lambda: M.streamer.get_opcode(b"\x4d\x01", 0, verify_minimal_data=True), lambda: M.streamer.get_opcode(None, 0),
                 lambda: M.streamer.get_opcode(b"\x01\x05", "0", verify_minimal_data=True),
                 lambda: M.streamer.compile_push_data(1 << 64), lambda: M.streamer.compile_push_data([b"ab"])]
        assert len(calls) == N_BAD_ARG
        return "raised" if observe(calls[dist["which"] % len(calls)])[0] != "ok" else "returned"
    if k == "private_instance":
        # another ScriptStreamer / ScriptTools pair with different tables and another handler is built and used
        from pycoin.vm.ScriptStreamer import ScriptStreamer
        from pycoin.vm.ScriptTools import ScriptTools
        from pycoin.coins.bitcoin import ScriptStreamer as B
        from pycoin.satoshi import opcodes
        table = [(n, v) for n, v in opcodes.OPCODE_LIST if v != 0x61] + [("OP_QUIET", 0x61), ("OP_PUSH_1", 0xfe)]
        which = dist["which"]
        st = ScriptStreamer(B.make_opcode_const_list()[:9 + which % 3], B.make_opcode_sized_list()[:20 + which % 50],
                            B.make_opcode_variable_list()[:1 + which % 3], dict(table), lambda msg: None)
        tools = ScriptTools(table, M.ints[0], st)
        observe(st.compile_push_data, dist["script"][:30])
        observe(st.get_opcode, dist["script"], 0, verify_minimal_data=True)
        observe(tools.compile, "OP_QUIET OP_1 [abcd] OP_16")
        observe(tools.disassemble, dist["script"])
        return "raised" if observe(tools.compile, "OP_NOP")[0] != "ok" else "returned"
    if k == "iterator":
        g = M.tools.get_opcodes(dist["script"], dist.get("vm", False))
        for _ in range(dist["steps"]):
            if observe(next, g)[0] != "ok":
                break
        if dist.get("close"):
            g.close()
        else:
            keep.append(g)          # stays suspended while the next queries are made
        return "returned"
    raise ValueError(k)


def check_hist(case, rec, M, keep, in_replay=False):
    s, d, v, dist = case["script"], case["data"], int(case["v"]), case["disturb"]
    rec.case(("hist", s, d, v, dist["d"], dist.get("text"), dist.get("script"), dist.get("which"), dist.get("steps")))
    before = _hist_probes(M, s, d, v)
    if before:
        for tag, got, exp in before[:2]:
            rec.violation("hist.unprovoked." + tag, case, got, exp)
        return
    rec.ev("hist.disturbance." + dist["d"])
    rec.ev("hist.disturbance_" + _hist_disturb(dist, M, keep))
    rec.ev("hist.query_after_disturbance")
    for tag, got, exp in _hist_probes(M, s, d, v)[:3]:
        rec.violation("hist.after_%s.%s" % (dist["d"], tag), case, got, exp)


def check_interleave(case, rec, M):
    """Two get_opcodes iterators advanced alternately: each yields its own script's instruction sequence."""
    scripts = [case["a"], case["b"]]
    rec.case(("interleave", scripts[0], scripts[1], tuple(case["order"])))
    rec.ev("get_opcodes.interleaved")
    refs = [[(op, pc, npc) for op, data, pc, npc in R.parse(x)] for x in scripts]
    for w in (0, 1):        # each script alone first: a plain decoding fault is reported by the other shards, not here
        st, alone = observe(lambda: [(g[0], g[2], g[3]) for g in M.tools.get_opcodes(scripts[w], bool(w and case.get("vm", False)))])
        if st != "ok" or alone != refs[w]:
            return
    its = [M.tools.get_opcodes(scripts[0]), M.tools.get_opcodes(scripts[1], case.get("vm", False))]
    got = [[], []]
    done = [False, False]
    order = list(case["order"]) + [0, 1] * (len(refs[0]) + len(refs[1]) + 2)
    for w in order:
        if done[w]:
            continue
        st, g = observe(next, its[w])
        if st != "ok":
            done[w] = True
            if not isinstance(g, StopIteration):
                got[w].append(("raised", type(g).__name__, None))
        else:
            got[w].append((g[0], g[2], g[3]))
        if all(done):
            break
    for w in (0, 1):
        if got[w] != refs[w]:
            rec.violation("hist.interleaved_get_opcodes", case, got[w][:4], refs[w][:4])
            return


def _small_script(rng):
    return _rand_script(rng, small=True)


def _nonminimal_script(rng):
    d = bytes(rng.getrandbits(8) for _ in range(rng.choice([1, 2, 5, 75])))
    form = rng.choice(["pushdata1", "pushdata2", "pushdata4"])
    pre = rng.choice([b"", b"\x51\x76", R.push_encode(b"\x22" * 30)])
    if rng.random() < 0.3:
        return pre + b"\x01" + bytes([rng.choice([0, 1, 5, 16, 0x81])]) + b"\xac"
    return pre + R.push_raw(d, form) + b"\x87"


def run_hist(spec, rec, M):
    rng = shard_rng(spec["seed"], PROPERTY, spec["tier"], spec["shard"])
    keep = []
    for i in range(spec["n"]):
        s = _small_script(rng)
        L = rng.choice([0, 1, 1, 2, 20, 33, 75, 76, 255, 256, 300])
        d = bytes([rng.choice([0, 1, 16, 17, 0x81, 0x80, rng.getrandbits(8)])]) if L == 1 else bytes(rng.getrandbits(8) for _ in range(L))
        v = rng.choice([0, 1, -1, 127, 128, -128, 255, 256, 32767, 32768, -32768, rng.randrange(-(1 << 40), 1 << 40)])
        k = i % 8
        if i % 16 == 2:
            dist = {"d": "private_instance", "which": rng.randrange(150), "script": _nonminimal_script(rng)}
        elif k in (0, 1, 2):
            toks = str(observe(M.tools.disassemble, _small_script(rng))[1]).split()[:60]
            pos = rng.choice([len(toks), len(toks), rng.randrange(0, len(toks) + 1), min(1, len(toks))])
            bad = rng.choice(BAD_TOKENS)
            toks = toks[:pos] + [bad] + (toks[pos:] if rng.random() < 0.5 else [])
            dist = {"d": "bad_text", "text": " ".join(toks)}
        elif k == 3:
            dist = {"d": "bad_expression", "text": rng.choice(BAD_TOKENS)}
        elif k == 4:
            dist = {"d": "nonminimal_decode", "script": _nonminimal_script(rng)}
        elif k == 5:
            t = _small_script(rng) + R.push_encode(bytes(rng.getrandbits(8) for _ in range(rng.choice([2, 40, 80, 300]))))
            dist = {"d": "truncated", "script": t[:len(t) - rng.choice([1, 1, 2, rng.randrange(1, 3)])]}
        elif k == 6:
            dist = {"d": "bad_arg", "which": rng.randrange(N_BAD_ARG)}
        else:
            t = _small_script(rng)
            dist = {"d": "iterator", "script": t, "steps": rng.choice([0, 1, 2, 3, 1000]), "close": rng.random() < 0.3,
                    "vm": rng.random() < 0.3}
        check_hist({"kind": "hist", "script": s, "data": d, "v": v, "disturb": dist}, rec, M, keep)
        del keep[:-4]
        if i % 4 == 0:
            a, b = _small_script(rng), _small_script(rng)
            check_interleave({"kind": "interleave", "a": a, "b": b, "vm": rng.random() < 0.3,
                              "order": [rng.randrange(2) for _ in range(rng.choice([2, 6, 20]))]}, rec, M)
        if i == 0:
            rec.sample({"op": "query after a failed call", "failed_call": dist, "then": "compile(disassemble(s)), get_opcodes, pushes, ints"})


# -- caller-owned mutable objects ----------------------------------------------------------------
# (a) containers pycoin hands back (the list of opcode_list, anything else that turns out to be a list / bytearray / dict) are the
#     caller's: editing them in place must not change what the next query of the same script / data / number answers;
# (b) bytearray / list arguments (where the call accepts them) are not modified by the call, and the same object passed again
#     gets the same (right) answer.

EDITS = ("append", "slice_assign", "reverse", "clear", "del_first", "insert", "setitem", "extend", "pop", "sort", "imul")


def _edit_list(lst, how):
    if how == "append":
        lst.append("OP_NOT")
    elif how == "slice_assign":
        lst[0:2] = ["OP_SIZE", "OP_DROP", "OP_SHA256"]
    elif how == "reverse":
        lst.reverse()
        lst.append("OP_1")          # a palindromic list is edited too
    elif how == "clear":
        del lst[:]
    elif how == "del_first":
        if lst:
            del lst[0]
        else:
            lst.append("OP_DUP")
    elif how == "insert":
        lst.insert(len(lst) // 2, "[beef]")
    elif how == "setitem":
        if lst:
            lst[-1] = "OP_RETURN" if lst[-1] != "OP_RETURN" else "OP_DUP"
        else:
            lst.append("OP_RETURN")
    elif how == "extend":
        lst.extend(["OP_2DROP", "[00]"])
    elif how == "pop":
        if lst:
            lst.pop()
        else:
            lst.append("OP_0")
    elif how == "sort":
        lst.sort()
        lst.insert(0, "OP_VERIFY")
    elif how == "imul":
        lst *= 2
        lst.append("OP_NOP")
    else:
        raise ValueError(how)


def _scribble(x, depth=0):
    """Edit in place whatever is editable in a value pycoin returned -> number of containers edited."""
    if isinstance(x, bytearray):
        x.reverse()
        x.append(0xff)
        x[0:1] = b"\x4c\x4c"
        return 1
    if isinstance(x, list):
        n = sum(_scribble(e, depth + 1) for e in x) if depth < 3 else 0
        x.reverse()
        x.append(None)
        return n + 1
    if isinstance(x, dict):
        x.clear()
        x["OP_0"] = 0x51
        return 1
    if isinstance(x, set):
        x.clear()
        return 1
    if isinstance(x, tuple) and depth < 3:
        return sum(_scribble(e, depth + 1) for e in x)
    return 0


def _other_tools(M):
    """network.script of the other registered networks (today one shared object; asked through each name all the same)."""
    if getattr(M, "others", None) is None:
        import importlib
        M.others = []
        for name in ("ltc", "xtn", "bch"):
            st, mod = observe(importlib.import_module, "pycoin.symbols." + name)
            if st == "ok" and getattr(getattr(mod, "network", None), "script", None) is not None:
                M.others.append((name, mod.network.script))
    return M.others


def _text_back(M, tools, entry, s):
    """-> None when compile(text of s) == s, else what came instead."""
    if entry == "disassemble":
        st, text = observe(tools.disassemble, s)
    else:
        st, text = observe(tools.opcode_list, s)
        if st == "ok":
            st, text = observe(" ".join, text)
    if st != "ok":
        return ["%s raised" % entry, text]
    st, back = observe(M.tools.compile, text)
    if st != "ok":
        return [str(text)[:160], back]
    if bytes(back) != s:
        return [str(text)[:160], bytes(back)[:40]]
    return None


def check_returned(case, rec, M, seen):
    """case: script (known opcodes, minimal pushes), edit, first ('opcode_list' / 'disassemble': what is asked of a script
    first), rounds. The list opcode_list returns is edited in place; the script is then asked about again by every spelling."""
    s, how = case["script"], case["edit"]
    assert R.parse(s) is not None
    rec.case(("returned", s, how, case["first"], case["rounds"]), nontrivial=len(s) > 0)
    fresh = s not in seen
    seen.add(s)
    if case["first"] == "disassemble":
        if _text_back(M, M.tools, "disassemble", s) is not None:
            rec.ev("mut.unprovoked(reported by the script shards)")
            return
        fresh = False
    for rnd in range(case["rounds"]):
        st, lst = observe(M.tools.opcode_list, s)
        if st != "ok" or not isinstance(lst, list) or observe(M.tools.compile, " ".join(map(str, lst))) != ("ok", s):
            rec.ev("mut.unprovoked(reported by the script shards)")
            return
        _edit_list(lst, how)
        rec.ev("mut.opcode_list.%s_query_edited" % ("first" if fresh and rnd == 0 else "repeat"))
        rec.ev("mut.edit." + how)
        asks = [("disassemble", M.tools, s), ("opcode_list", M.tools, s), ("disassemble", M.tools, bytes(bytearray(s)))]
        asks += [("disassemble", t, s) for name, t in _other_tools(M)[rnd % 3:][:1]]
        for entry, tools, arg in asks:
            rec.ev("mut.requery_after_edit")
            bad = _text_back(M, tools, entry, arg)
            if bad is not None:
                rec.violation("mutable.opcode_list_result_edit_changes_later_%s" % entry, case, bad, s[:40])
                return
    # everything else these entry points hand back: edited where editable, then asked again
    d, v = case.get("data", b"\x07" * 3), int(case.get("v", 300))
    exp, enc = R.push_encode(d), R.serialize(v)
    ref = [(op, R.stack_value(op, data), pc, npc) for op, data, pc, npc in R.parse(s)]
    edited = 0
    for rnd in (0, 1):
        n = 0
        got = []
        for call in (lambda: M.tools.compile(" ".join(M.tools.opcode_list(s))), lambda: M.streamer.compile_push_data(d),
                     lambda: M.tools.compile_push_data_list([d, None, d[:1]]), lambda: M.ints[-1].int_to_script_bytes(v),
                     lambda: M.streamer.get_opcode(exp, 0), lambda: M.streamer.get_opcode(exp, 0, verify_minimal_data=True),
                     lambda: tuple(M.tools.get_opcodes(s))):
            st, r = observe(call)
            got.append(jx_norm(r) if st == "ok" else ("raised", type(r).__name__))
            if st == "ok":
                n += _scribble(r)
        want = [s, exp, exp + R.push_encode(d[:1]), enc, (exp[0], d, len(exp), True), (exp[0], d, len(exp), True)]
        rec.ev("mut.returned_values_requeried")
        if n:
            rec.ev("mut.returned_value_was_editable")
        why = "mutable.returned_value_edit_changes_later_" if edited else "hist.repeated_query_differs."
        edited += n
        seq = got[6]
        seq_ok = isinstance(seq, tuple) and len(seq) == len(ref) and all(
            isinstance(g, tuple) and len(g) == 4 and (g[0], g[2], g[3]) == (w[0], w[2], w[3]) and (w[1] is None or g[1] == w[1])
            for g, w in zip(seq, ref))
        names = ("compile", "compile_push_data", "compile_push_data_list", "int_to_script_bytes", "get_opcode", "get_opcode")
        for name, g, w in zip(names, got, want):
            if g != w and not (name == "get_opcode" and isinstance(g, tuple) and len(g) == 4 and g[:3] == w[:3] and g[3]):
                if rnd:
                    rec.violation(why + name, case, g, w)
                else:
                    rec.ev("mut.unprovoked(reported by the other shards)")
                return
        if not seq_ok:
            if rnd:
                rec.violation(why + "get_opcodes", case, seq[:4] if isinstance(seq, tuple) else seq,
                              [list(w) for w in ref[:4]])
            else:
                rec.ev("mut.unprovoked(reported by the other shards)")
            return


def jx_norm(r):
    """A returned value as plain immutable data (bytes subclasses -> bytes, lists -> tuples)."""
    if isinstance(r, (bytes, bytearray)):
        return bytes(r)
    if isinstance(r, (list, tuple)):
        return tuple(jx_norm(e) for e in r)
    return r


def _same_items(lst, snap):
    return len(lst) == len(snap) and all(a is b for a, b in zip(lst, snap))


def check_args(case, rec, M):
    """case: script (parsable), datas (list of bytes / None), s (candidate number encoding). Every entry point that takes a
    byte string or a list is given a caller-owned mutable object, twice."""
    s, datas, enc = case["script"], case["datas"], case["s"]
    ref = R.parse(s)
    assert ref is not None
    rec.case(("args", s, tuple(datas), enc), nontrivial=True)
    want_seq = tuple((op, R.stack_value(op, data), pc, npc) for op, data, pc, npc in ref)
    mid = ref[len(ref) // 2][2] if ref else 0

    def seq_ok(got, want):
        return isinstance(got, tuple) and len(got) == len(want) and all(
            isinstance(g, tuple) and len(g) == 4 and (g[0], g[2], g[3]) == (w[0], w[2], w[3]) and (w[1] is None or g[1] == w[1])
            for g, w in zip(got, want))

    def one_ok(got):
        w = [x for x in want_seq if x[2] == mid]
        return bool(w) and isinstance(got, tuple) and len(got) == 4 and (got[0], got[2]) == (w[0][0], w[0][3]) and got[3] \
            and (w[0][1] is None or got[1] == w[0][1])

    # 1. the script as a bytearray
    entries = [("disassemble", lambda a: M.tools.disassemble(a), lambda g: observe(M.tools.compile, g) == ("ok", s)),
               ("opcode_list", lambda a: M.tools.opcode_list(a), lambda g: observe(lambda: M.tools.compile(" ".join(g))) == ("ok", s)),
               ("get_opcodes", lambda a: list(M.tools.get_opcodes(a)), lambda g: seq_ok(g, want_seq)),
               ("get_opcodes.verify_minimal_data", lambda a: list(M.tools.get_opcodes(a, True)), lambda g: seq_ok(g, want_seq)),
               ("get_opcodes.pc", lambda a: list(M.tools.get_opcodes(a, pc=mid)), lambda g: seq_ok(g, tuple(x for x in want_seq if x[2] >= mid)))]
    if ref:
        entries += [("get_opcode", lambda a: M.streamer.get_opcode(a, mid), one_ok),
                    ("get_opcode.verify_minimal_data", lambda a: M.streamer.get_opcode(a, mid, verify_minimal_data=True), one_ok)]
    for name, call, good in entries:
        arg = bytearray(s)
        st, r = observe(call, s)
        if st != "ok" or not good(r if isinstance(r, str) else jx_norm(r)):
            rec.ev("mut.unprovoked(reported by the other shards)")
            continue
        for nth in (0, 1):
            st, r = observe(call, arg)
            if bytes(arg) != s:
                rec.violation("mutable.script_argument_modified." + name, dict(case, entry=name), bytes(arg)[:40], s[:40])
                break
            if st != "ok":
                rec.ev("mut.bytearray_script_refused(unjudged)")
                break
            rec.ev("mut.bytearray_script." + name)
            r = r if isinstance(r, str) else jx_norm(r)
            if not good(r):
                rec.violation("mutable.bytearray_script_wrong_answer.%s.%s" % (name, "second_call" if nth else "first_call"),
                              dict(case, entry=name), r if isinstance(r, str) else list(r)[:4], "as for the same bytes")
                break
    # 2. the list of data items: not edited by the call (also when the call refuses an item half-way), same answer twice
    exp = b"".join(R.push_encode(d) for d in datas if d is not None)
    import io
    for name, call in (("compile_push_data_list", lambda a: M.tools.compile_push_data_list(a)),
                       ("write_push_data", lambda a: _written(M, a))):
        arg = [d for d in datas if d is not None] if name == "write_push_data" else list(datas)
        snap = list(arg)
        for nth in (0, 1):
            st, r = observe(call, arg)
            if not _same_items(arg, snap):
                rec.violation("mutable.list_argument_modified." + name, dict(case, entry=name), arg[:6], snap[:6])
                break
            if st != "ok":
                rec.ev("mut.list_refused(unjudged)")
                break
            rec.ev("mut.list_argument." + name)
            if bytes(r) != exp:
                rec.violation("mutable.list_argument_wrong_answer.%s.%s" % (name, "second_call" if nth else "first_call"),
                              dict(case, entry=name), bytes(r)[:24], exp[:24])
                break
        # the same list with an item the call must refuse after the good ones: the caller's list stays as it was
        bad = snap + [case.get("bad_item", 5)] + snap[:1]
        snap2 = list(bad)
        st, r = observe(call, bad)
        rec.ev("mut.list_argument.refused_item" if st != "ok" else "mut.list_argument.odd_item_accepted(unjudged)")
        if not _same_items(bad, snap2):
            rec.violation("mutable.list_argument_modified.%s.refused_call" % name, dict(case, entry=name), bad[:6], snap2[:6])
        st, r = observe(call, list(snap))
        if st != "ok" or bytes(r) != exp:
            rec.violation("mutable.answer_after_refused_list." + name, dict(case, entry=name), r if st != "ok" else bytes(r)[:24], exp[:24])
    # bytearray items: refused today (unhashable); when accepted, right and untouched
    for d in datas:
        if d:
            arg = bytearray(d)
            st, r = observe(M.streamer.compile_push_data, arg)
            if bytes(arg) != d:
                rec.violation("mutable.data_argument_modified.compile_push_data", case, bytes(arg)[:24], d[:24])
            elif st == "ok":
                rec.ev("mut.bytearray_data_accepted")
                if bytes(r) != R.push_encode(d):
                    rec.violation("mutable.bytearray_data_wrong_answer.compile_push_data", case, bytes(r)[:24], R.push_encode(d)[:24])
            else:
                rec.ev("mut.bytearray_data_refused(unjudged)")
            break
    # 3. a number encoding as a bytearray / list of byte values
    minimal, val = R.is_minimal(enc), R.set_vch(enc)
    for IS in M.ints:
        for kind, make in (("bytearray", bytearray), ("list", list)):
            for rm in (False, True):
                arg = make(enc)
                for nth in (0, 1):
                    st, r = observe(IS.int_from_script_bytes, arg, require_minimal=rm)
                    if _as_bytes(arg) != enc:
                        rec.violation("mutable.number_argument_modified.int_from_script_bytes", dict(case, arg=kind), repr(arg)[:80], enc)
                        break
                    if st != "ok":
                        if minimal and kind == "bytearray":
                            rec.ev("mut.number_argument_refused(unjudged)")
                        break
                    rec.ev("mut.number_argument." + kind)
                    if minimal and r != val:
                        rec.violation("mutable.number_argument_wrong_answer.%s" % ("second_call" if nth else "first_call"),
                                      dict(case, arg=kind), r, val)
                        break
                    if not minimal and rm:
                        why = "single_byte_zero" if len(enc) == 1 else "padded" if (enc[-1] & 0x7f) == 0 else "other"
                        rec.violation("scriptnum.accepts_non_minimal." + why, dict(case, arg=kind), r, "rejected")
                        break


def _as_bytes(arg):
    st, b = observe(lambda: bytes(bytearray(arg)))
    return b if st == "ok" else None


def _written(M, datas):
    import io
    f = io.BytesIO()
    M.tools.write_push_data(datas, f)
    return f.getvalue()


def check_ctor_args(rec, M, which):
    """ScriptStreamer / ScriptTools built twice from the SAME caller-owned lists and dict, which are emptied afterwards: both
    pairs (and the shared one) still answer as the reference does. Judged by answers only."""
    from pycoin.vm.ScriptStreamer import ScriptStreamer
    from pycoin.vm.ScriptTools import ScriptTools
    from pycoin.coins.bitcoin import ScriptStreamer as B
    from pycoin.satoshi import opcodes
    from pycoin.satoshi.IntStreamer import IntStreamer
    rec.case(("ctor_args", which))
    consts, sized, var = B.make_opcode_const_list(), B.make_opcode_sized_list(), B.make_opcode_variable_list()
    names = list(opcodes.OPCODE_LIST)
    lookup = dict(names)
    pairs = []
    for _ in (0, 1):
        st, pst = observe(ScriptStreamer, consts, sized, var, lookup, lambda msg: None)
        if st != "ok":
            rec.ev("mut.ctor_refused(unjudged)")
            return
        st, pt = observe(ScriptTools, names, IntStreamer, pst)
        if st != "ok":
            rec.ev("mut.ctor_refused(unjudged)")
            return
        pairs.append((pst, pt))
    if which & 1:
        del consts[:], sized[:], var[:], names[:]
        lookup.clear()
        rec.ev("mut.ctor_args_emptied")
    rec.ev("mut.ctor_same_args_twice")
    datas = [b"", b"\x01", b"\x81", b"\x10", b"\x11", b"ab", b"c" * 75, b"d" * 76, b"e" * 255, b"f" * 256]
    s = b"\x76\xa9" + b"".join(R.push_encode(d) for d in datas) + b"\x88\xac"
    for n, (pst, pt) in enumerate(pairs + [(M.streamer, M.tools)]):
        who = ("first", "second", "shared")[n]
        for d in datas:
            st, p = observe(pst.compile_push_data, d)
            if st != "ok" or bytes(p) != R.push_encode(d):
                rec.violation("mutable.ctor_args_reuse.compile_push_data." + who, {"kind": "ctor_args", "which": which}, p, R.push_encode(d))
                return
        st, back = observe(lambda: pt.compile(pt.disassemble(s)))
        if st != "ok" or bytes(back) != s:
            rec.violation("mutable.ctor_args_reuse.roundtrip." + who, {"kind": "ctor_args", "which": which}, back, s[:40])
            return
        st, got = observe(lambda: [(g[0], g[2], g[3]) for g in pt.get_opcodes(s, True)])
        want = [(op, pc, npc) for op, data, pc, npc in R.parse(s)]
        if st != "ok" or got != want:
            rec.violation("mutable.ctor_args_reuse.get_opcodes." + who, {"kind": "ctor_args", "which": which}, got if st != "ok" else got[:4], want[:4])
            return


def run_mut(spec, rec, M):
    rng = shard_rng(spec["seed"], PROPERTY, spec["tier"], spec["shard"])
    seen = set()
    ops = R.KNOWN_NONPUSH_OPCODES
    # scripts nobody has asked about in this process yet: the well-known templates and every single opcode come first
    h20, h32, pk = b"\xa7" * 20, b"\x5c" * 32, b"\x02" + b"\x9b" * 32
    templates = [b"\x76\xa9" + R.push_encode(h20) + b"\x88\xac", b"\xa9" + R.push_encode(h20) + b"\x87", b"\x00" + R.push_encode(h20),
                 b"\x00" + R.push_encode(h32), R.push_encode(pk) + b"\xac", b"\x51" + R.push_encode(pk) * 2 + b"\x52\xae",
                 b"\x6a" + R.push_encode(b"hello"), b"", b"\x00", b"\x51",
                 b"".join(R.push_encode(d) for d in (b"", b"\x07", b"\x55" * 75, b"\x66" * 76, b"\x77" * 256)) + b"\x6d\x6d\x75\x51"]
    i = 0
    for s in templates + [bytes([a]) for a in ops]:
        for first in ("opcode_list", "disassemble"):
            # the same bytes under both orders need two scripts: the second one gets a trailing OP_NOP
            t = s if first == "opcode_list" else s + b"\x61"
            check_returned({"kind": "returned", "script": t, "edit": EDITS[i % len(EDITS)], "first": first, "rounds": 2 + i % 2}, rec, M, seen)
            i += 1
    for k in range(spec["n"]):
        s = _rand_script(rng, small=True)
        if k % 3:
            s += R.push_encode(k.to_bytes(3, "big") + bytes(rng.getrandbits(8) for _ in range(rng.choice([0, 5, 17, 72, 73, 253]))))   # fresh for sure
        if k % 5 == 0:
            s += bytes([rng.choice(ops)])
        L = rng.choice([0, 1, 1, 2, 20, 75, 76, 255, 256])
        d = bytes([rng.choice([0, 1, 16, 17, 0x81, 0x80, rng.getrandbits(8)])]) if L == 1 else bytes(rng.getrandbits(8) for _ in range(L))
        v = rng.choice([0, 1, -1, 127, 128, -128, 255, 256, 32767, 32768, rng.randrange(-(1 << 40), 1 << 40)])
        check_returned({"kind": "returned", "script": s, "edit": EDITS[(k + k // len(EDITS)) % len(EDITS)],
                        "first": "disassemble" if k % 4 == 1 else "opcode_list", "rounds": rng.choice([1, 2, 3]), "data": d, "v": v}, rec, M, seen)
        if k % 2 == 0:
            datas = [rng.choice([None, b"", d, d[:1], bytes(rng.getrandbits(8) for _ in range(rng.choice([1, 2, 33, 76])))])
                     for _ in range(rng.choice([0, 1, 2, 3, 6]))]
            m = rng.random()
            enc = R.serialize(v) if m < 0.5 else bytes(rng.getrandbits(8) for _ in range(rng.choice([1, 2, 4, 9]))) if m < 0.8 \
                else R.serialize(v) + rng.choice([b"\x00", b"\x80"])
            check_args({"kind": "args", "script": s, "datas": datas, "s": enc,
                        "bad_item": rng.choice([5, "ab", 1.5, ("x",)])}, rec, M)
        if k % 64 == 0:
            check_ctor_args(rec, M, (k // 64) % 2)
        if k == 0:
            rec.sample({"op": "opcode_list(s) edited in place, then s asked about again", "script": s, "edit": EDITS[0]})


# -- the 65,536th operation ----------------------------------------------------------------------
# One process, the one shared ScriptTools / ScriptStreamer: more than 2^16 + 100 text round trips of distinct scripts (each
# holding a distinct push), interleaved with re-queries of the very first scripts, of the scripts asked 1 / 511..513 / 65,535..
# 65,537 operations ago. Oracle: byte identity of compile(disassemble(s)) with the script the generator built from the
# reference push encoder; every 16th also through opcode_list and get_opcodes against the reference parse.

def run_long(spec, rec, M):
    """spec n = number of DISTINCT scripts; every third distinct script is followed by a re-query of an earlier one."""
    rng = shard_rng(spec["seed"], PROPERTY, spec["tier"], spec["shard"])
    ops = R.KNOWN_NONPUSH_OPCODES
    hist = []
    tools = M.tools
    lens = [0, 1, 2, 5, 17, 29, 72]
    done = 0
    case = {"kind": "long", "n": spec["n"], "seed": spec["seed"], "tier": spec["tier"], "shard": spec["shard"]}
    for i in range(spec["n"]):
        d = i.to_bytes(3, "big") + bytes(rng.getrandbits(8) for _ in range(lens[i % 7]))
        s = bytes([ops[i % len(ops)]]) + R.push_encode(d) + (bytes([rng.choice(ops)]) if i & 8 else R.push_encode(d[2:3]))
        hist.append(s)
        todo = [s]
        if i % 3 == 2:
            ago = rng.choice([1, 2, 511, 512, 513, 1023, 1024, 65535, 65536, 65537, len(hist), len(hist) - 1, rng.randrange(1, len(hist) + 1)])
            todo.append(hist[-ago] if 1 <= ago <= len(hist) else hist[rng.randrange(min(8, len(hist)))])
            rec.ev("long.requery")
        for s in todo:
            st, text = observe(tools.disassemble, s)
            st2, got = observe(tools.compile, text) if st == "ok" else (st, text)
            done += 1
            if st2 != "ok" or bytes(got) != s:
                rec.case(("long", done, s))
                rec.violation("long_run.roundtrip_mismatch", dict(case, n=i + 1, operation=done),
                              [str(text)[:120], got if st2 != "ok" else bytes(got)[:40]], s[:40])
                return
        if i % 16 == 0:
            rec.case(("long", s))
            st, lst = observe(tools.opcode_list, s)
            st2, got = observe(lambda: tools.compile(" ".join(lst)))
            ref = [(op, pc, npc) for op, data, pc, npc in R.parse(s)]
            st3, seq = observe(lambda: [(g[0], g[2], g[3]) for g in tools.get_opcodes(s, True)])
            if st != "ok" or st2 != "ok" or bytes(got) != s or st3 != "ok" or seq != ref:
                rec.violation("long_run.decode_mismatch", dict(case, n=i + 1, operation=done), [lst, seq], [s[:40], ref])
                return
    rec.ev("long.distinct_scripts", len(hist))
    rec.ev("long.operations_on_one_object", done)
    rec.case(("long", "total", done))
    if len(hist) > (1 << 16) + 100:
        rec.ev("long.beyond_65536_distinct_scripts")
    rec.sample({"op": "compile(disassemble(s)) on the shared ScriptTools", "operations_in_one_process": done, "distinct_scripts": len(hist)})


# ---------------------------------------------------------------------------------------------

_RUN = {"ints": run_ints, "int_edges": run_int_edges, "numbytes": run_numbytes, "push_small": run_push_small,
        "push_len": run_push_len, "trunc": run_trunc, "truncm": run_truncm, "script_enum": run_script_enum, "scripts": run_scripts, "hist": run_hist,
        "mut": run_mut, "long": run_long}
_REQ = {"ints": ["int_to_script_bytes", "int_from_script_bytes"], "int_edges": ["int_to_script_bytes", "int_from_script_bytes"],
        "numbytes": ["int_from_script_bytes.require_minimal", "int_from_script_bytes", "int_to_script_bytes", "numbytes.minimal",
                     "numbytes.nonminimal", "numbytes.len_3..8", "numbytes.len_9..11", "numbytes.len_12.."],
        "push_small": ["compile_push_data", "get_opcode", "get_opcode.verify_minimal_data", "compile_push_data_list", "get_opcodes",
                       "get_opcodes.verify_minimal_data", "get_opcodes.start_pc", "compile_push_data_list.none_entries", "write_push_data",
                       "get_opcode.verify_minimal_data.positional", "private_handler.own_push", "vm.own_push.pubkey", "vm.own_push.sig",
                       "push.form.op_0", "push.form.op_n", "push.form.op_1negate", "push.form.direct"],
        "push_len": ["compile_push_data", "get_opcode", "get_opcode.verify_minimal_data", "get_opcode.verify_minimal_data.positional",
                     "private_handler.own_push", "compile_push_data_list", "write_push_data", "get_opcodes",
                     "get_opcodes.verify_minimal_data"],
        "trunc": ["get_opcode.truncated", "trunc.length_field", "trunc.data"],
        "truncm": ["get_opcode.truncated.minimal_on", "get_opcode.truncated.minimal_off", "get_opcodes.truncated.minimal_on",
                   "get_opcodes.truncated.minimal_off", "private_handler.truncated.minimal_on", "private_handler.truncated.minimal_off",
                   "opcode_list.truncated", "vm.truncated.pubkey.minimaldata", "vm.truncated.sig.minimaldata",
                   "vm.truncated.unexecuted.minimaldata", "vm.truncated.pubkey.plain", "vm.truncated.sig.plain", "vm.truncated.unexecuted.plain",
                   "truncm.direct.data.none", "truncm.direct.data.one_const", "truncm.direct.data.one_other",
                   "truncm.direct.data.several", "truncm.pushdata.length_field.none", "truncm.pushdata.data.none",
                   "truncm.pushdata.data.one_const", "truncm.pushdata.data.one_other", "truncm.pushdata.data.several"],
        "script_enum": ["compile", "disassemble", "opcode_list", "get_opcodes"],
        "scripts": ["compile", "disassemble", "opcode_list", "get_opcodes", "get_opcodes.verify_minimal_data", "get_opcodes.start_pc"],
        "hist": ["hist.query_after_disturbance", "hist.disturbance_raised", "hist.disturbance.bad_text", "hist.disturbance.iterator", "hist.disturbance.private_instance",
                 "hist.disturbance.bad_expression", "hist.disturbance.nonminimal_decode", "hist.disturbance.truncated",
                 "hist.disturbance.bad_arg", "get_opcodes.interleaved"],
        "mut": ["mut.opcode_list.first_query_edited", "mut.opcode_list.repeat_query_edited", "mut.requery_after_edit",
                "mut.returned_values_requeried", "mut.bytearray_script.disassemble", "mut.bytearray_script.opcode_list",
                "mut.bytearray_script.get_opcodes", "mut.bytearray_script.get_opcode", "mut.list_argument.compile_push_data_list",
                "mut.list_argument.write_push_data", "mut.list_argument.refused_item", "mut.number_argument.bytearray",
                "mut.ctor_same_args_twice", "mut.ctor_args_emptied"] + ["mut.edit." + e for e in EDITS],
        "long": ["long.beyond_65536_distinct_scripts", "long.requery"]}

# push forms / length classes each push_len shard must have reached (by its first length)
_REQ_PUSH_LEN = {0: ["push.form.op_0", "push.form.op_n", "push.form.op_1negate", "push.form.direct", "push.form.pushdata1",
                     "push.length_class.0..75", "push.length_class.76..255", "vm.own_push.pubkey", "vm.own_push.sig"],
                 200: ["push.form.pushdata1", "push.form.pushdata2", "push.length_class.76..255", "push.length_class.256..600",
                       "vm.own_push.pubkey", "vm.own_push.sig"],
                 400: ["push.form.pushdata2", "push.length_class.256..600", "vm.own_push.pubkey", "vm.own_push.sig"],
                 601: ["push.form.pushdata2", "push.length_class.601..65399"],
                 65400: ["push.form.pushdata2", "push.form.pushdata4", "push.length_class.65400..65535", "push.length_class.65536.."],
                 69990: ["push.form.pushdata4", "push.length_class.65536.."]}


def run_shard(spec, rec):
    M = _imports()
    rec.require(*_REQ[spec["kind"]])
    if spec["kind"] == "push_len":
        rec.require(*_REQ_PUSH_LEN.get(spec["lo"], []))
    _RUN[spec["kind"]](spec, rec, M)


def replay_case(case, rec):
    M = _imports()
    kind = case.get("kind")
    if kind == "int":
        check_int(int(case["v"]), rec, M)
    elif kind == "numbytes":
        check_numbytes(case["s"] if isinstance(case["s"], bytes) else b"", rec, M)
    elif kind == "push":
        check_push(dict(_fix(case), wide=1), rec, M)
    elif kind == "pushlist":
        datas = [d if isinstance(d, bytes) else b"" for d in case["datas"]]
        check_push_list(datas, rec, M, case)
    elif kind == "pushlist_long":
        d = b"\xa5" * case["len"]
        check_push_list([b"\x01", d, d[:300]], rec, M, case)
    elif kind == "trunc":
        check_trunc(_fix(case), rec, M)
    elif kind == "truncm":
        c = dict(case)
        for k in ("prefix", "head", "tail"):
            if not isinstance(c[k], bytes):
                c[k] = b""
        c["vm"] = True
        check_truncm(c, rec, M)
    elif kind == "script":
        s = case["script"] if isinstance(case["script"], bytes) else b""
        if R.parse(s) is None:
            rec.note("replay: script is not parsable by the reference; outside the property")
            return
        check_script(s, rec, M, True)
    elif kind == "hist":
        c = dict(case)
        for k in ("script", "data"):
            if not isinstance(c[k], bytes):
                c[k] = b""
        c["disturb"] = _fix_script(c["disturb"])
        check_hist(c, rec, M, [])
    elif kind == "returned":
        c = dict(case)
        for k in ("script", "data"):
            if k in c and not isinstance(c[k], bytes):
                c[k] = b""
        check_returned(c, rec, M, set())
    elif kind == "args":
        c = dict(case)
        for k in ("script", "s"):
            if not isinstance(c[k], bytes):
                c[k] = b""
        c["datas"] = [d if isinstance(d, bytes) or d is None else b"" for d in c["datas"]]
        c.pop("entry", None)
        c.pop("arg", None)
        check_args(c, rec, M)
    elif kind == "ctor_args":
        check_ctor_args(rec, M, int(case["which"]))
    elif kind == "long":
        run_long({"n": int(case["n"]), "seed": case["seed"], "tier": case["tier"], "shard": case["shard"]}, rec, M)
    elif kind == "interleave":
        c = dict(case)
        for k in ("a", "b"):
            if not isinstance(c[k], bytes):
                c[k] = b""
        check_interleave(c, rec, M)
    else:
        raise ValueError("unknown case kind %r" % kind)


def _fix_script(d):
    d = dict(d)
    if "script" in d and not isinstance(d["script"], bytes):
        d["script"] = b""
    return d


def _fix(case):
    """jx turns b'' into 'x:' which unjx restores as b''; make sure byte fields are bytes."""
    c = dict(case)
    for k in ("pattern", "prefix", "lenfield"):
        if k in c and not isinstance(c[k], bytes):
            c[k] = b"" if c[k] in ("", "x:") else c[k]
    return c
