"""C04 — signature hashes equal the consensus definition for every hash type."""
import hashlib

from vmon.probe import shard_rng, observe, Wrapped
from vmon.refs import sighash as SH
from vmon.refs import script as RS
from vmon.refs import txser
from vmon.gen import scriptgen as G

PROPERTY = "C04"
PRELOAD_NETWORK_ORDERS = [["btc", "xtn", "ltc", "bch", "grs", "doge", "dash", "btg"], ["btg", "grs", "bch", "doge", "ltc", "xtn", "btc"]]
LEVEL = "exploration"
TECHNIQUE = "differential runtime monitor: _signature_hash / _signature_for_hash_type_segwit and the digest tapped at Generator.verify vs reference legacy/BIP143 digests, all 256 hash types per sampled (tx, input, script code)"
RULE = ("(coin, tx, input index, script code, amount) tuples x every hash-type byte 0..255 x {legacy entry point, segwit entry point}; "
        "transactions with 1-6 inputs, 0-6 outputs (so index >= outputs occurs), some inputs witness-bearing, boundary versions / lock times / "
        "sequences / amounts; per shard two transactions with 253-300 inputs and 0-301 outputs at positions 0 / 251-252 / last (14 hash types); "
        "script codes: empty, standard templates, random opcodes, code separators at start/middle/end/adjacent/inside push data, truncated "
        "final push (every class at least once per shard). Plus signature-bearing spends whose verified digest is tapped at Generator.verify, "
        "and BCH/BTG spends with and without the fork-id bit. Non-trivial ('hard'): hash type base is not ALL, or ANYONECANPAY, or a code "
        "separator / unparsable tail is present; distinct by (coin, algorithm, tx, idx, script, ht). Each clause of the statement has its own "
        "required counter (legacy_algorithm.* / forkid_variant.* / bip143.* / tap.* / fork_coin_spend.*). "
        "Shard 'state': per coin, three live checkers (two of the coin, one of another coin); every kind of request the library refuses "
        "part-way (amount / output value of 2**64, sequence / outpoint index / lock time / version of 2**32, negative / None / float / str "
        "scalars, str / None / list script code or output script, hash type or index out of range or of another type, unknown or missing "
        "unspent, hash type without fork id) x both entry points, each followed by judged requests on the same checker, the other checker "
        "and the other coin's checker; a refused request must leave every field of the transaction as it was. Kept and fresh Solvers: a "
        "sign() that fails, the field corrected, sign() again - the value handed to Generator.sign must be the consensus digest of the "
        "input the signature ends up in. Script codes as bytearray / memoryview and transaction members as bytearray: digest of the "
        "bytes, argument untouched, second request equal, in-place edit by the caller followed. Transactions produced by from_bin / "
        "from_hex / parse / the unspents extension / deepcopy x checker made directly or owned by a Solver, before or after set_unspents. "
        "Shard 'boundary': script-code lengths (as given, after separator removal, with separators), output-script lengths (one or two per "
        "transaction, with a boundary-length script code) at 252/253/254/65534/65535/65536 for every coin; input and output counts of "
        "65534/65535/65536 incl. SIGHASH_SINGLE at index = boundary - 1 (legacy algorithm, one of BTC/LTC/GRS per quick run). "
        "Shard 'longrun': more than 2**16 digests of each entry point from ONE checker (BTC and two other coins in quick; 2**17 per coin "
        "in thorough), all 256 hash types cycling, in-place edits every 2048 operations, each judged.")
ASSUMPTIONS = [
    "reference digests in vmon/refs/sighash.py follow Bitcoin Core's SignatureHash (legacy serializer semantics incl. the SIGHASH_SINGLE "
    "'one' constant) and BIP143; self-tested on BIP143's published example and, through the reference interpreter, on every signature in "
    "tx_valid.json / script_tests.json",
    "removal of the signature being checked (FindAndDelete) happens in the interpreter before the digest is computed; it is exercised through "
    "the Generator.verify tap on signature-bearing spends and by C03",
    "BCH: BIP143 digest with the hash-type byte as is, refusal = any exception when bit 0x40 is clear; BTG: BIP143 with 79<<8 OR-ed into the "
    "4-byte hash type; GRS: same preimages with single SHA-256 throughout (sub-hashes included)",
    "Bitcoin Cash / Gold hash types are bytes 0..255 (the fork id is folded in by the library), as the statement's quantifier says",
    "the refusal of a hash type without the fork-id bit is demanded where the fork digest replaces the legacy algorithm (_signature_hash, and "
    "legacy script validation); at the witness-v0 entry point of BCH / BTG a refusal is tolerated and a returned value must be the fork digest",
    "tap: a digest pycoin verifies must be one consensus defines for some (signature, script code) pair of the input; when the reference "
    "stopped at a signature / key encoding rule before hashing, the pairs behind that rule count too (the order of encoding rules and hashing "
    "is not part of the statement)",
    "for BCH / BTG legacy-style scripts the reference (c05.ForkChecker) removes the checked signature from the script code before the fork "
    "digest, as pycoin does; the statement does not say whether that removal applies to the fork-id variants and no workload decides it",
    "a request the library refuses (any exception) is never judged unless the statement demands the refusal; 'computing a signature hash "
    "never modifies the transaction' is read to cover requests that end in a refusal too; after a refusal the next answers of that "
    "checker, of other checkers and of other coins' checkers must be the consensus digests",
    "the statement does not say which Python types a script code may have: bytearray / memoryview script codes may be refused; where they "
    "are answered the answer must be the digest of their bytes and the object must be left as it was",
    "a checker (made directly or owned by a Solver) answers for the transaction object as it is at the time of the request (fields edited "
    "or unspents supplied after the checker was made)",
    "the value handed to Generator.sign during Solver.sign / Tx.sign is the message the new signature commits to; it is matched to its "
    "input by the signature's r value and judged against the digest for the hash-type byte found in the finished signature blob",
    "the compact-size boundary at 2**32 (a 4 GiB script or 2**32 outputs) cannot be driven; 0xfc/0xfd and 0xffff/0x10000 are",
    "no published vector validates the BCH / BTG / GRS digests of the reference: they are the self-tested BIP143 / legacy preimages with the "
    "documented substitutions (fork id in the hash-type word, single SHA-256)",
]
EXPLANATION = "digest returned by pycoin == reference digest (as a big-endian integer); computing it leaves tx.as_bin() and every field unchanged"
TIMEOUT = {"quick": 900, "thorough": 4 * 3600}

COINS = ["BTC", "LTC", "BCH", "BTG", "GRS"]


def plan(tier, seed):
    q = tier == "quick"
    shards = []
    for i in range(12 if q else 80):
        shards.append({"kind": "direct", "n": 28 if q else 300, "coin": COINS[i % len(COINS)]})
    for i in range(4 if q else 32):
        shards.append({"kind": "tap", "n": 500 if q else 5000})
    shards.append({"kind": "suite", "label": "suite"})
    shards.append({"kind": "forkspend", "n": 250 if q else 6000, "label": "forkspend"})
    # error-path state (refused requests interleaved with judged ones; kept Solvers) and caller-owned mutable arguments
    for i in range(1 if q else 8):
        shards.append({"kind": "state", "n": 10 if q else 60, "label": "state%d" % i})
    # compact-size boundary values of every count and length that is hashed
    for i in range(1 if q else 3):
        shards.append({"kind": "boundary", "label": "boundary%d" % i, "count_coin": None if q else ["BTC", "LTC", "GRS"][i]})
    # more than 2**16 digests of each entry point from ONE checker object in one process
    if q:
        shards.append({"kind": "longrun", "coins": None, "ops": (1 << 16) + 100, "label": "longrun", "timeout": 900})
    else:
        for c in COINS:
            shards.append({"kind": "longrun", "coins": [c], "ops": (1 << 17) + 100, "label": "longrun." + c})
    return shards


def configurations(tier):
    return COINS


def selftest(rec):
    import os
    import pycoin
    from vmon.refs import coretext
    d = os.path.join(os.path.dirname(os.path.dirname(pycoin.__file__)), "tests", "btc", "data")
    r = {"sighash_checks": SH.selftest(), "txser": txser.selftest()}
    # compact size as the protocol documentation gives it: < 0xfd one byte; <= 0xffff fd + 2; <= 0xffffffff fe + 4; else ff + 8
    for v, enc in ((0, "00"), (252, "fc"), (253, "fdfd00"), (254, "fdfe00"), (515, "fd0302"), (65534, "fdfeff"), (65535, "fdffff"), (65536, "fe00000100"),
                   (0xffffffff, "feffffffff"), (0x100000000, "ff0000000001000000")):
        assert txser.csize(v).hex() == enc, ("csize", v)
    r["csize_vectors"] = 10
    r.update(coretext.selftest(d))    # every signature in the Core vectors verifies under the reference digests
    return r


def sha(b):
    return hashlib.sha256(b).digest()


def network_for(coin):
    import importlib
    return importlib.import_module("pycoin.symbols." + coin.lower()).network


def to_pycoin(net, t, amounts, spks):
    Tx = net.tx
    ins = []
    for i in t["ins"]:
        ti = Tx.TxIn(i["prev"], i["index"], i["script"], i["sequence"])
        ti.witness = list(i["witness"])
        ins.append(ti)
    outs = [Tx.TxOut(o["value"], o["script"]) for o in t["outs"]]
    unspents = [Tx.TxOut(a, s) for a, s in zip(amounts, spks)]
    return Tx(t["version"], ins, outs, t["lock_time"], unspents)


def gen_tx(rng, n_in=None, n_out=None):
    n_in = rng.choice([1, 1, 2, 3, 4, 6]) if n_in is None else n_in
    n_out = rng.choice([0, 1, 1, 2, 3, 6]) if n_out is None else n_out
    B32 = [0, 1, 2, 0x7fffffff, 0x80000000, 0xffffffff, 0xfffffffe]
    ins = []
    for _ in range(n_in):
        ins.append({"prev": bytes(rng.randrange(256) for _ in range(32)) if rng.random() < 0.9 else b"\x01" + b"\0" * 31,
                    "index": rng.choice(B32 + [rng.randrange(10)]),
                    "script": rng.choice([b"", b"\x51", bytes(rng.randrange(256) for _ in range(rng.randrange(1, 40)))]),
                    "sequence": rng.choice(B32 + [rng.randrange(1 << 32)]), "witness": []})
    outs = []
    for _ in range(n_out):
        outs.append({"value": rng.choice([0, 1, (1 << 63) - 1, (1 << 64) - 1, 21 * 10 ** 14, rng.randrange(1 << 40)]),
                     "script": rng.choice([b"", b"\x6a", b"\x76\xa9\x14" + bytes(20) + b"\x88\xac", bytes(rng.randrange(256) for _ in range(rng.choice([1, 25, 252, 253, 300])))])})
    if rng.random() < 0.3:
        # witness-bearing inputs: no digest commits to witness data, and as_bin() (compared before / after) carries it
        for i in ins:
            if rng.random() < 0.6:
                i["witness"] = [bytes(rng.randrange(256) for _ in range(rng.choice([0, 1, 33, 72]))) for _ in range(rng.choice([1, 2, 3]))]
    return {"version": rng.choice(B32), "ins": ins, "outs": outs, "lock_time": rng.choice(B32 + [500000000, 499999999])}


_FIXED_PK = [b"\x21\x02" + bytes([7 + j]) * 32 for j in range(3)]


N_SCRIPT_CLASSES = 12


def gen_script_code(rng, k=None):
    k = rng.randrange(N_SCRIPT_CLASSES) if k is None else k
    # a third of the script codes come from a small fixed pool, so that the SAME script code meets many different
    # transactions / inputs / amounts within one process (anything memoised on the script alone would show)
    pk = rng.choice(_FIXED_PK) if rng.random() < 0.35 else b"\x21\x02" + bytes(rng.randrange(256) for _ in range(32))
    if k == 0:
        return b"", "empty"
    if k == 1:
        return b"\x76\xa9\x14" + (bytes([9]) * 20 if rng.random() < 0.4 else bytes(rng.randrange(256) for _ in range(20))) + b"\x88\xac", "p2pkh"
    if k == 2:
        return b"\x52" + pk + pk + b"\x52\xae", "multisig"
    if k == 3:
        return b"\xab" + pk + b"\xac", "codesep.start"
    if k == 4:
        return pk + b"\xac\xab", "codesep.end"
    if k == 5:
        return b"\x51\xab\xab\x75" + pk + b"\xab\xac", "codesep.adjacent"
    if k == 6:
        return b"\x02\xab\xab\x75" + pk + b"\xac" + b"\x4c\x03\xab\x01\xab", "codesep.inside_push"
    if k == 7:
        return pk + b"\xac\xab\x4c", "codesep.then_truncated"
    if k == 8:
        return pk + b"\xab\x05\xab\xab", "codesep.truncated_tail"
    if k == 9:
        return bytes(rng.choice([0x51, 0x61, 0x75, 0x76, 0x87, 0xab, 0xac, 0x00, 0x4f]) for _ in range(rng.randrange(1, 30))), "opsoup"
    if k == 10:
        return bytes(rng.randrange(256) for _ in range(rng.randrange(1, 60))), "random"
    return b"\x4d\x00\x01" + bytes(256) + b"\xab" + pk + b"\xac", "bigpush.codesep"


def is_hard(ht, cls):
    return (ht & 0x1f) != 1 or bool(ht & 0x80) or cls.startswith("codesep") or cls in ("opsoup", "random")


FORK_COINS = ("BCH", "BTG")


def expected(coin, tx, idx, script, amount, ht, algo):
    """-> ('digest', int) | ('refuse', None) | ('digest_or_refuse', int)"""
    kind = "digest"
    if coin in ("BTC", "LTC"):
        d = SH.legacy(tx, idx, script, ht) if algo == "legacy" else SH.bip143(tx, idx, script, amount, ht)
    elif coin == "GRS":
        d = SH.legacy(tx, idx, script, ht, H=sha) if algo == "legacy" else SH.bip143(tx, idx, script, amount, ht, H=sha)
    else:
        if not (ht & 0x40):
            if algo == "legacy":
                return ("refuse", None)
            # the witness-v0 entry point of a fork-id coin, hash type without the fork-id bit: the statement demands the refusal
            # where the fork digest replaces the legacy algorithm (DESIGN 11.2) and does not forbid it here; a value that IS
            # returned must be the fork digest
            kind = "digest_or_refuse"
        d = SH.bip143(tx, idx, script, amount, ht, fork_or=79 << 8 if coin == "BTG" else 0)
    return (kind, int.from_bytes(d, "big"))


def judge(coin, algo, kind, want, st, got):
    """-> None (agrees with the statement) | (mechanism stem, observed, expected)"""
    if kind == "refuse":
        return ("%s.accepts_hashtype_without_forkid" % coin.lower(), got, "refusal") if st == "ok" else None
    if st != "ok":
        if kind == "digest_or_refuse":
            return None
        return ("%s.%s.raises.%s" % (coin.lower(), algo, type(got).__name__), got, want)
    if got != want:
        return ("%s.%s.digest_mismatch" % (coin.lower(), algo), got, want)
    return None


def snapshot(tx):
    return (tx.as_bin(), tx.version, tx.lock_time,
            tuple((i.previous_hash, i.previous_index, bytes(i.script), i.sequence, tuple(i.witness)) for i in tx.txs_in),
            tuple((o.coin_value, bytes(o.script)) for o in tx.txs_out),
            tuple((u.coin_value, bytes(u.script)) for u in tx.unspents))


def script_traits(script):
    """which clauses of the legacy script-code treatment this script code reaches (decided by the reference helpers)"""
    stripped = SH.strip_codeseparators(script)
    pc, ok = 0, True
    while pc < len(script) and ok:
        ok, _, _, pc = SH.get_op(script, pc)
    return {"codesep_stripped": stripped != script,            # an OP_CODESEPARATOR opcode is removed
            "codesep_byte_kept": 0xab in stripped,             # a 0xab byte that is NOT an executed-position opcode stays
            "unparsable_tail": not ok}


def check_one(rec, coin, net, t, idx, script, cls, amounts, spks, hts, algos=("legacy", "segwit"), big=None):
    """big: descriptor of a generated many-input transaction (big_tx) stored in witnesses instead of the transaction itself"""
    tx = to_pycoin(net, t, amounts, spks)
    sc = tx.SolutionChecker(tx)
    before = snapshot(tx)
    traits = script_traits(script)
    legacy_coin = coin not in FORK_COINS
    n_cmp = {"legacy": 0, "segwit": 0}
    n_refused = n_single_no_out = n_tolerated = 0
    for ht in hts:
        for algo, fn, op in (("legacy", sc._signature_hash, "_signature_hash"), ("segwit", sc._signature_for_hash_type_segwit, "_signature_for_hash_type_segwit")):
            if algo not in algos:
                continue
            kind, want = expected(coin, t, idx, script, amounts[idx], ht, algo)
            st, got = observe(fn, script, idx, ht)
            rec.ev(op)
            rec.ev("coin:" + coin)
            rec.case((coin, algo, before[0], idx, script, ht), nontrivial=is_hard(ht, cls))
            if is_hard(ht, cls):
                rec.ev("hard")
            bad = judge(coin, algo, kind, want, st, got)
            if kind == "refuse":
                n_refused += st != "ok"
            elif st == "ok":
                n_cmp[algo] += 1
                if (ht & 0x1f) == 3 and idx >= len(t["outs"]):
                    n_single_no_out += 1
            else:
                n_tolerated += kind == "digest_or_refuse"
            if bad:
                mech = bad[0]
                if mech.endswith("digest_mismatch"):
                    base = {1: "all", 2: "none", 3: "single"}.get(ht & 0x1f, "other")
                    mech += "." + base + ("+acp" if ht & 0x80 else "")
                    if (ht & 0x1f) == 3 and idx >= len(t["outs"]):
                        mech += ".single_no_output"
                    if cls.startswith("codesep") or cls in ("opsoup", "random"):
                        mech += ".codesep_or_odd_script"
                    if len(t["ins"]) >= 253 or len(t["outs"]) >= 253:
                        mech += ".many_ins_or_outs"
                    if cls.startswith("boundary"):
                        mech += ".compact_size_boundary"
                case = {"coin": coin, "algo": algo, "tx": t, "idx": idx, "script": script, "cls": cls, "amounts": amounts, "spks": spks, "ht": ht}
                if big:
                    case.update({"tx": None, "amounts": None, "spks": None, "big": big})
                rec.violation(mech, case, bad[1], bad[2])
    # which clauses of the statement these comparisons reached
    fam = "legacy_algorithm" if legacy_coin else "forkid_variant"
    rec.ev("%s.digests_compared" % fam, n_cmp["legacy"])
    rec.ev("%s.digests_compared.%s" % (fam, coin), n_cmp["legacy"])
    rec.ev("bip143.digests_compared.%s" % coin, n_cmp["segwit"])
    if n_cmp["legacy"]:
        for k, v in traits.items():
            if v:
                rec.ev("%s.script_code.%s" % (fam, k))
        rec.ev("%s.single_without_matching_output" % fam, n_single_no_out)
    if not legacy_coin:
        rec.ev("forkid_variant.refusals_observed.%s" % coin, n_refused)
        rec.ev("forkid_variant.witness_entry_refusal_tolerated", n_tolerated)
    if len(t["ins"]) >= 253 or len(t["outs"]) >= 253:
        rec.ev("many_ins_or_outs.digests_compared", n_cmp["legacy"] + n_cmp["segwit"])
    if any(i["witness"] for i in t["ins"]):
        rec.ev("witness_bearing_tx")
    after = snapshot(tx)
    rec.ev("purity_checks")
    if after != before:
        which = [n for n, (a, b) in zip(("as_bin", "version", "lock_time", "txs_in", "txs_out", "unspents"), zip(before, after)) if a != b]
        case = {"coin": coin, "tx": t, "idx": idx, "script": script, "amounts": amounts, "spks": spks, "cls": cls, "ht": "all"}
        if big:
            case.update({"tx": None, "amounts": None, "spks": None, "big": big, "ht": list(hts), "algos": list(algos)})
        rec.violation("sighash.modifies_tx." + "+".join(which), case, which, "unchanged")
    return n_cmp


def checker_history(rec, rng, coin, net, t, amounts, spks):
    """one SolutionChecker object queried repeatedly for different inputs / hash types / algorithms, with the
    transaction edited in place between queries: every answer must be the digest of the transaction as it is now"""
    import copy
    t = copy.deepcopy(t)
    tx = to_pycoin(net, t, amounts, spks)
    sc = tx.SolutionChecker(tx)
    log = []
    for step in range(30):
        r = rng.random()
        if r < 0.25 and step:
            # in-place edit of the live transaction (and of the reference copy)
            what = rng.choice(["out_value", "out_script", "sequence", "lock_time", "version", "spent_amount", "outpoint"])
            if what == "out_value" and t["outs"]:
                j = rng.randrange(len(t["outs"]))
                v = rng.randrange(1 << 40)
                t["outs"][j]["value"] = v
                tx.txs_out[j].coin_value = v
            elif what == "out_script" and t["outs"]:
                j = rng.randrange(len(t["outs"]))
                sc_ = bytes(rng.randrange(256) for _ in range(rng.randrange(0, 30)))
                t["outs"][j]["script"] = sc_
                tx.txs_out[j].script = sc_
            elif what == "sequence":
                j = rng.randrange(len(t["ins"]))
                v = rng.randrange(1 << 32)
                t["ins"][j]["sequence"] = v
                tx.txs_in[j].sequence = v
            elif what == "lock_time":
                v = rng.randrange(1 << 32)
                t["lock_time"] = v
                tx.lock_time = v
            elif what == "version":
                v = rng.randrange(1 << 32)
                t["version"] = v
                tx.version = v
            elif what == "spent_amount":
                j = rng.randrange(len(t["ins"]))
                v = rng.randrange(1, 1 << 50)
                amounts[j] = v
                tx.unspents[j].coin_value = v
            elif what == "outpoint":
                j = rng.randrange(len(t["ins"]))
                v = rng.randrange(1 << 32)
                t["ins"][j]["index"] = v
                tx.txs_in[j].previous_index = v
            log.append(("edit", what))
            rec.ev("history_edit")
            continue
        idx = rng.randrange(len(t["ins"]))
        ht = rng.choice([1, 2, 3, 3, 0x81, 0x82, 0x83, 0x41, 0x43, 0xc3, rng.randrange(256)])
        algo = rng.choice(["legacy", "segwit"])
        script, cls = gen_script_code(rng) if rng.random() < 0.3 else (b"\x76\xa9\x14" + bytes(20) + b"\x88\xac", "p2pkh")
        kind, want = expected(coin, t, idx, script, amounts[idx], ht, algo)
        fn = sc._signature_hash if algo == "legacy" else sc._signature_for_hash_type_segwit
        st, got = observe(fn, script, idx, ht)
        log.append((algo, idx, ht))
        rec.ev("history_query")
        rec.case((coin, "hist", step, idx, ht, algo, txser.serialize(t)), nontrivial=True)
        case = {"coin": coin, "algo": algo, "tx": t, "idx": idx, "script": script, "cls": cls, "amounts": list(amounts), "spks": spks, "ht": ht,
                "history": log[-12:]}
        bad = judge(coin, algo, kind, want, st, got)
        if bad:
            mech = bad[0]
            if mech.endswith("digest_mismatch"):
                mech = "%s.%s.stateful_digest_mismatch" % (coin.lower(), algo)
            rec.violation(mech, case, bad[1], bad[2])


BIG_HASH_TYPES = [0, 1, 2, 3, 0x41, 0x42, 0x43, 0x81, 0x82, 0x83, 0xc1, 0xc2, 0xc3]


def run_direct(spec, rec):
    rng = shard_rng(spec["seed"], PROPERTY, spec["tier"], spec["shard"])
    coin = spec["coin"]
    net = network_for(coin)
    for k in range(spec["n"]):
        t = gen_tx(rng)
        idx = rng.randrange(len(t["ins"]))
        # the first cases of a shard walk through every script-code class, the rest draw at random
        script, cls = gen_script_code(rng, k if k < N_SCRIPT_CLASSES else None)
        amounts = [rng.choice([0, 1, (1 << 63) - 1, (1 << 64) - 1, 600000000]) for _ in t["ins"]]
        spks = [b"\x51" for _ in t["ins"]]
        check_one(rec, coin, net, t, idx, script, cls, amounts, spks, range(256))
        checker_history(rec, rng, coin, net, t, list(amounts), spks)
        if k < 1:
            rec.sample({"coin": coin, "n_in": len(t["ins"]), "n_out": len(t["outs"]), "idx": idx, "script_class": cls, "script": script[:40],
                        "hash_types": "0..255", "version": t["version"], "lock_time": t["lock_time"]})
    # "any number of inputs / outputs": counts and positions past the one-byte compact-size range, a few hash types each.
    # One transaction sits on the boundary (253 inputs; 0 / 252 / 253 outputs), one lies beyond it with an output for every input
    for _ in range(1 if spec["tier"] == "quick" else 4):
        n_big = rng.choice([254, 300])
        for n_in, n_out in ((253, rng.choice([0, 252, 253])), (n_big, n_big + rng.choice([0, 1]))):
            t = gen_tx(rng, n_in, n_out)
            amounts = [rng.choice([0, 1, (1 << 63) - 1, (1 << 64) - 1, 600000000]) for _ in t["ins"]]
            spks = [b"\x51" for _ in t["ins"]]
            for idx in sorted({0, rng.choice([251, 252]), n_in - 1}):
                script, cls = gen_script_code(rng)
                check_one(rec, coin, net, t, idx, script, cls, amounts, spks, BIG_HASH_TYPES + [rng.randrange(256)])


ENCODING_FLAGS = RS.STRICTENC | RS.DERSIG | RS.LOW_S | RS.WITNESS_PUBKEYTYPE


def reference_digests(case, flags):
    """-> (verdict, log): the reference interpreter's verdict and, for every non-empty signature it reached, the entry
    (sigversion, hash type, script code after FindAndDelete, digest, signature blob)"""
    log = []
    tx, n = case["tx"], case["n_in"]
    chk = RS.TxChecker(tx, n, case["amount"], sighash_log=log)
    i = tx["ins"][n]
    return RS.result_of(RS.verify_script, i["script"], case["spk"], i["witness"], flags, chk), log


def executed_legacy_scripts(case):
    """the scripts a legacy signature operation of this spend can run in: the scriptPubKey and, for P2SH, the redeem script"""
    spk = case["spk"]
    out = [spk]
    if len(spk) == 23 and spk[:2] == b"\xa9\x14" and spk[22:] == b"\x87":
        ssig = case["tx"]["ins"][case["n_in"]]["script"]
        pc, last, ok = 0, None, True
        while pc < len(ssig) and ok:
            ok, _, last, pc = SH.get_op(ssig, pc)
        if ok and last:
            out.append(bytes(last))
    return out


def run_tap(spec, rec):
    """digest handed to Generator.verify during Tx.check_solution == digest the reference interpreter computes"""
    from vmon.checks import c03
    from pycoin.ecdsa.secp256k1 import secp256k1_generator
    rng = shard_rng(spec["seed"], PROPERTY, spec["tier"], spec["shard"])
    py = c03.Py()
    seen = []
    gen_cls = type(secp256k1_generator)
    seen_pairs = []

    def tap(a, kw, r, e):
        val = a[2] if len(a) > 2 else kw.get("val")
        sig = a[3] if len(a) > 3 else kw.get("sig")
        seen.append(val)
        try:
            seen_pairs.append((val, sig[0]))
        except Exception:
            pass
    w = Wrapped(gen_cls, "verify", after=tap, rec=rec, op="Generator.verify")
    rec.require("tap:Generator.verify", "tap.digest_verified.legacy", "tap.digest_verified.witness_v0",
                "tap.signature_removed_from_script_code", "tap.signature_removed_from_script_code.pushdata_form")
    try:
        keys = G.Keys()
        sg = G.SigGen(rng, keys)
        half = spec["n"] // 2
        for gen in (sg.p2pk_like(half), sg.multisig(half // 3), G.two_sigops_cases(rng, keys, half // 4), G.embedded_sig_length_cases(rng, keys)):
            for case in gen:
                del seen[:]
                del seen_pairs[:]
                tx, n = case["tx"], case["n_in"]
                i = tx["ins"][n]
                ref, log = reference_digests(case, case["flags"])
                code, _ = py.spend(case)
                rec.ev("Tx.check_solution")
                ref_digests = {int.from_bytes(e[3], "big") for e in log}
                got = set(seen)
                if not got <= ref_digests:
                    # pycoin verified a signature the reference did not reach. The reference stops at an encoding rule
                    # BEFORE hashing; the order of the encoding rules and the hashing is not part of the statement, so the
                    # digests consensus defines for the pairs behind those rules count too
                    _, log2 = reference_digests(case, case["flags"] & ~ENCODING_FLAGS)
                    log = log + log2
                    ref_digests |= {int.from_bytes(e[3], "big") for e in log2}
                    rec.ev("tap_reference_rerun_without_encoding_rules")
                # the digests consensus defines per signature (keyed by the signature's r value)
                by_r = {}
                for e in log:
                    rs = RS.parse_der_lax(e[4][:-1])
                    if rs:
                        by_r.setdefault(rs[0], set()).add(int.from_bytes(e[3], "big"))
                rec.case(("tap", i["script"], case["spk"], tuple(i["witness"]), case["flags"], tx["version"]), nontrivial=bool(ref_digests))
                if got:
                    rec.ev("tap_cases_with_digest")
                if ref == "OK" and code == "OK":
                    rec.ev("tap_both_ok")
                # which clauses the verified digests belong to
                scripts = None
                for e in log:
                    if int.from_bytes(e[3], "big") not in got:
                        continue
                    if e[0] == RS.SIGVERSION_BASE:
                        rec.ev("tap.digest_verified.legacy")
                        scripts = executed_legacy_scripts(case) if scripts is None else scripts
                        if any(SH.find_and_delete(scr, SH.push_data(e[4]))[1] for scr in scripts):
                            # removal of the signature being checked really changed the script code that was hashed
                            rec.ev("tap.signature_removed_from_script_code")
                            if len(e[4]) >= 76:
                                rec.ev("tap.signature_removed_from_script_code.pushdata_form")
                    else:
                        rec.ev("tap.digest_verified.witness_v0")
                # every digest pycoin verified a signature against must be one the consensus rules define for some
                # (signature, script code) pair of this input; pycoin may verify fewer (it gives up on a pair earlier)
                if not got <= ref_digests:
                    rec.violation("tap.verified_digest_not_a_consensus_digest", case, sorted(got - ref_digests), sorted(ref_digests))
                else:
                    for val, r_ in seen_pairs:
                        if r_ in by_r and val not in by_r[r_]:
                            rec.violation("tap.signature_verified_against_another_operations_digest", case, val, sorted(by_r[r_]))
                            break
        rec.sample({"op": "Generator.verify tap", "digests_seen_last_case": [hex(x) for x in list(seen)[:2]]})
    finally:
        w.restore()


def run_fork_spends(spec, rec):
    """fork-id coins in script validation: a signature without the fork-id bit is refused (the spend fails) even where a
    false signature check would be tolerated; one with the bit is checked against the fork digest"""
    from vmon.checks import c05
    rng = shard_rng(spec["seed"], PROPERTY, spec["tier"], spec["shard"])
    keys = G.Keys()
    for coin in ("BCH", "BTG"):
        net = network_for(coin)
        fork = c05.FORK[coin]
        for k in range(spec["n"]):
            ki = rng.randrange(len(keys.d))
            pub = keys.sec(ki, True)
            tail = rng.choice([b"\xac", b"\xac\x91", b"\xac\x63\x51\x67\x51\x68", b"\xad\x51"])
            script = G.push(pub) + tail
            if rng.random() < 0.3:
                script = b"\x51" + G.push(pub) + b"\x51\xae" + (b"\x91" if rng.random() < 0.6 else b"")
            ht = rng.choice([0x41, 0x41, 0x43, 0xc1, 0x01, 0x03, 0x82, 0x00, 0x81])
            amount = rng.choice([1000, 5 * 10 ** 8])
            t = G.mk_tx(rng, b"", [], amount, 1, 0, 0xffffffff, rng.choice([0, 1]), 1, 0)
            digest = SH.bip143(t, 0, script, amount, ht | 0x40 if rng.random() < 0.5 else ht, fork_or=fork[1])
            sig = G.sig_blob(keys, ki, digest, ht)
            unlock = ([b""] if script[:1] == b"\x51" else []) + [sig]
            wrapper = rng.choice(["bare", "p2sh"])
            if wrapper == "bare":
                spk, t["ins"][0]["script"] = script, b"".join(G.push(u) for u in unlock)
            else:
                spk = b"\xa9\x14" + G.hash160(script) + b"\x87"
                t["ins"][0]["script"] = b"".join(G.push(u) for u in unlock) + SH.push_data(script)
            flags = rng.choice([RS.P2SH, RS.P2SH | RS.WITNESS, 0xffff & ~RS.STRICTENC & ~RS.NULLFAIL, RS.P2SH | RS.NULLFAIL])
            chk = c05.ForkChecker(t, 0, amount, fork)
            ref = RS.result_of(RS.verify_script, t["ins"][0]["script"], spk, [], flags, chk)
            tx = to_pycoin(net, t, [amount], [spk])
            st, got = observe(tx.is_solution_ok, 0, flags=flags)
            rec.ev("fork_coin_spend")
            rec.ev("fork_coin_spend.%s" % ("with_forkid" if ht & 0x40 else "without_forkid"))
            rec.ev("fork_coin_spend.%s.%s" % (coin, "valid_for_reference" if ref == "OK" else "invalid_for_reference"))
            rec.case(("forkspend", coin, txser.serialize(t), spk, flags))
            case = {"coin": coin, "tx": t, "spk": spk, "amount": amount, "flags": flags, "ht": ht, "forkspend": True}
            if st != "ok":
                rec.violation("%s.validation_raises.%s" % (coin.lower(), type(got).__name__), case, got, ref)
            elif bool(got) != (ref == "OK"):
                why = "hashtype_without_forkid_tolerated" if not (ht & 0x40) and got else "verdict_differs"
                rec.violation("%s.spend.%s" % (coin.lower(), why), case, got, ref)


# ---------------------------------------------------------------------------------------------------------------------
# compact-size boundaries (class D): every count and length that a digest serialises, at 252/253/254 and 65534/65535/65536

CS_BOUNDS = [252, 253, 254, 65534, 65535, 65536]
BIG_COUNTS = [65534, 65535, 65536]


def sized_script(rng, n, codeseps=0):
    """a script code of exactly n bytes made of a handful of opcodes (key, OP_CHECKSIG, large pushes of random data) with
    `codeseps` OP_CODESEPARATOR opcodes among them; few opcodes keep pycoin's opcode walk cheap"""
    head = b"\x21\x02" + rng.randbytes(32) + b"\xac"
    r = n - len(head) - codeseps
    body = []
    while r > 0:
        if r <= 2:
            body.append(b"\x61" * r)
            r = 0
        elif r <= 0x4c:
            body.append(bytes([r - 1]) + rng.randbytes(r - 1))
            r = 0
        elif r <= 0x101:
            body.append(b"\x4c" + bytes([r - 2]) + rng.randbytes(r - 2))
            r = 0
        else:
            d = min(r - 3, 0xffff)
            body.append(b"\x4d" + d.to_bytes(2, "little") + rng.randbytes(d))
            r -= d + 3
    seps = [b"\xab"] * codeseps
    parts = [head] + seps[:1] + body + seps[1:]
    return b"".join(parts)


def big_tx(desc):
    """deterministic transaction with desc['n_in'] inputs and desc['n_out'] outputs (a formula of the position and a salt)"""
    salt = desc["salt"]
    base = hashlib.sha256(b"c04-big-%d" % salt).digest()
    ins = [{"prev": base[:28] + i.to_bytes(4, "little"), "index": (i * 7 + salt) & 3, "script": b"", "sequence": 0xffffffff - ((i + salt) % 3), "witness": []}
           for i in range(desc["n_in"])]
    outs = [{"value": 1000 + j, "script": b"\x51" if (j + salt) & 1 else b"\x6a\x01" + bytes([j & 0xff])} for j in range(desc["n_out"])]
    return {"version": 1 + (salt & 1), "ins": ins, "outs": outs, "lock_time": salt & 0xffff}


def hashed_script_len(coin, algo, script):
    """length of the script code as the digest serialises it"""
    if algo == "legacy" and coin not in FORK_COINS:
        return len(SH.strip_codeseparators(script))
    return len(script)


BOUNDARY_HASH_TYPES = [1, 2, 3, 0x41, 0x43, 0x81, 0x83, 0xc1, 0xc2, 0xc3]


def run_boundary(spec, rec):
    rng = shard_rng(spec["seed"], PROPERTY, spec["tier"], spec["shard"])
    q = spec["tier"] == "quick"
    rec.require(*["boundary.script_code_len.%s.%d" % (a, n) for a in ("legacy", "bip143") for n in CS_BOUNDS])
    rec.require(*["boundary.output_script_len.%d" % n for n in CS_BOUNDS])
    rec.require(*["boundary.%s_count.%d" % (w, n) for w in ("input", "output") for n in BIG_COUNTS])
    rec.require("boundary.two_lengths_at_once", "boundary.single_output_count_at_boundary")
    for coin in COINS:
        net = network_for(coin)
        legacy_like = coin not in FORK_COINS
        # 1. script-code lengths: as given (plain), boundary AFTER the separators are removed (legacy), boundary WITH them (BIP143)
        for n in CS_BOUNDS:
            for variant, raw_len, seps in (("plain", n, 0), ("stripped_len_on_boundary", n + 2, 2), ("raw_len_on_boundary", n, 1)):
                script = sized_script(rng, raw_len, seps)
                if len(script) != raw_len or len(SH.strip_codeseparators(script)) != raw_len - seps:
                    rec.ev("inconclusive:sized_script_not_of_promised_shape")
                    rec.note("sized_script(%d, %d) gave %d bytes" % (raw_len, seps, len(script)))
                    continue
                t = gen_tx(rng)
                idx = rng.randrange(len(t["ins"]))
                amounts = [rng.choice([0, 1, (1 << 64) - 1, 600000000]) for _ in t["ins"]]
                hts = rng.sample(BOUNDARY_HASH_TYPES, 4 if q else 8) + [rng.randrange(256)]
                n_cmp = check_one(rec, coin, net, t, idx, script, "boundary.script_code." + variant, amounts, [b"\x51"] * len(t["ins"]), hts)
                for algo in ("legacy", "segwit"):
                    if n_cmp[algo]:
                        name = "bip143" if (algo == "segwit" or not legacy_like) else "legacy"
                        rec.ev("boundary.script_code_len.%s.%d" % (name, hashed_script_len(coin, algo, script)), n_cmp[algo])
        # 2. output-script lengths, at the position SIGHASH_SINGLE commits to and elsewhere; sometimes two boundary lengths in
        #    one transaction and a boundary-length script code as well
        for n in CS_BOUNDS:
            t = gen_tx(rng, rng.choice([1, 2, 3]), rng.choice([1, 2, 3]))
            idx = rng.randrange(len(t["ins"]))
            j = idx if (idx < len(t["outs"]) and rng.random() < 0.6) else rng.randrange(len(t["outs"]))
            t["outs"][j]["script"] = rng.randbytes(n)
            lens = [n]
            if len(t["outs"]) > 1 and rng.random() < 0.5:
                j2 = (j + 1) % len(t["outs"])
                n2 = rng.choice(CS_BOUNDS)
                t["outs"][j2]["script"] = rng.randbytes(n2)
                lens.append(n2)
            script, cls = gen_script_code(rng, 1)
            if rng.random() < 0.4:
                script = sized_script(rng, rng.choice(CS_BOUNDS), rng.choice([0, 1]))
                rec.ev("boundary.two_lengths_at_once")
            if len(lens) > 1:
                rec.ev("boundary.two_lengths_at_once")
            amounts = [rng.choice([0, 1, (1 << 64) - 1, 600000000]) for _ in t["ins"]]
            hts = ([1, 3, 0x41, 0x43] if q else BOUNDARY_HASH_TYPES) + [rng.choice([0x81, 0x83, 0xc1, 0xc3])]
            n_cmp = check_one(rec, coin, net, t, idx, script, "boundary.output_script", amounts, [b"\x51"] * len(t["ins"]), hts)
            if n_cmp["legacy"] + n_cmp["segwit"]:
                for m in lens:
                    rec.ev("boundary.output_script_len.%d" % m)
    # 3. input / output counts of 65534, 65535, 65536 (only the legacy algorithm serialises counts; SIGHASH_SINGLE writes
    #    index + 1 as the output count, ANYONECANPAY writes 1 as the input count)
    coins = [spec.get("count_coin") or rng.choice(["BTC", "LTC", "GRS"])]
    for coin in coins:
        net = network_for(coin)
        P = b"\x76\xa9\x14" + rng.randbytes(20) + b"\x88\xac"
        for n_in, n_out, extra in ((65534, 65536, [0x81]), (65535, 65535, [2]), (65536, 65536, [])):
            desc = {"n_in": n_in, "n_out": n_out, "salt": rng.randrange(1 << 16)}
            run_big(rec, coin, net, desc, n_in - 1, P, [1, 3] + extra + ([] if q else [0x83, 0x82, 0x41, 0xc3]))


def run_big(rec, coin, net, desc, idx, script, hts, algos=("legacy",)):
    t = big_tx(desc)
    n_in, n_out = desc["n_in"], desc["n_out"]
    n_cmp = check_one(rec, coin, net, t, idx, script, "boundary.counts", [1] * n_in, [b"\x51"] * n_in, hts, algos=algos, big=desc)
    if n_cmp.get("legacy"):
        for ht in hts:
            base, acp = ht & 0x1f, ht & 0x80
            rec.ev("boundary.input_count.%d" % (1 if acp else n_in))
            if base == 3 and idx < n_out:
                rec.ev("boundary.output_count.%d" % (idx + 1))
                if idx + 1 in BIG_COUNTS:
                    rec.ev("boundary.single_output_count_at_boundary")
            elif base not in (2, 3):
                rec.ev("boundary.output_count.%d" % n_out)


# ---------------------------------------------------------------------------------------------------------------------
# error-path state (class A): requests the library refuses part-way through, interleaved with judged requests on the same
# checker, on another checker of the same coin and on a checker of another coin, all in one process

FIELD_BITS = {"amount": 64, "out_value": 64, "sequence": 32, "outpoint_index": 32, "lock_time": 32, "version": 32}
REFUSALS = ([(k, b) for k in FIELD_BITS for b in ("over", "neg", "none", "float", "str")]
            + [("out_script", "none"), ("out_script", "str"), ("prev_hash", "none"), ("prev_hash", "str"),
               ("unspent_unknown", "none"), ("unspents_missing", "none"),
               ("script", "str"), ("script", "none"), ("script", "intlist"), ("script", "int"),
               ("hash_type", "over"), ("hash_type", "neg"), ("hash_type", "none"), ("hash_type", "float"), ("hash_type", "str"),
               ("index", "over"), ("index", "none"), ("index", "str"), ("index", "float")])


def bad_value(kind, code):
    if code == "over":
        return 1 << FIELD_BITS[kind]
    return {"neg": -1, "none": None, "float": 1.5, "str": "7"}[code]


def perturb(tx, r):
    """apply the transaction-side part of a refusal; -> undo()"""
    kind, j, code = r["kind"], r.get("j", 0), r["bad"]
    slot = None
    if kind == "amount":
        slot = (tx.unspents[j], "coin_value")
    elif kind == "out_value":
        slot = (tx.txs_out[j], "coin_value")
    elif kind == "sequence":
        slot = (tx.txs_in[j], "sequence")
    elif kind == "outpoint_index":
        slot = (tx.txs_in[j], "previous_index")
    elif kind in ("lock_time", "version"):
        slot = (tx, kind)
    if slot:
        obj, attr = slot
        old = getattr(obj, attr)
        setattr(obj, attr, bad_value(kind, code))
        return lambda: setattr(obj, attr, old)
    if kind in ("out_script", "prev_hash"):
        obj, attr = (tx.txs_out[j], "script") if kind == "out_script" else (tx.txs_in[j], "previous_hash")
        old = getattr(obj, attr)
        setattr(obj, attr, None if code == "none" else "6a")
        return lambda: setattr(obj, attr, old)
    if kind == "unspent_unknown":
        old = tx.unspents[j]
        tx.unspents[j] = None

        def undo():
            tx.unspents[j] = old
        return undo
    if kind == "unspents_missing":
        old_list = tx.unspents
        tx.unspents = []

        def undo2():
            tx.unspents = old_list
        return undo2
    return lambda: None


def refused_args(r, script, idx, ht, n_in):
    kind, code = r["kind"], r["bad"]
    if kind == "script":
        script = {"str": script.hex(), "none": None, "intlist": list(script), "int": 5}[code]
    elif kind == "hash_type":
        ht = {"over": ht | (1 << 32), "neg": -1 - ht, "none": None, "float": float(ht), "str": str(ht)}[code]
    elif kind == "index":
        idx = {"over": n_in, "none": None, "str": str(idx), "float": float(idx)}[code]
    elif kind == "no_forkid":
        ht &= ~0x40
    return script, idx, ht


def field_snapshot(tx):
    """every caller-visible field, without serialising (the fields may hold values no serialiser takes)"""
    return (("version", tx.version), ("lock_time", tx.lock_time),
            ("txs_in", tuple((i.previous_hash, i.previous_index, i.script, i.sequence, tuple(i.witness)) for i in tx.txs_in)),
            ("txs_out", tuple((o.coin_value, o.script) for o in tx.txs_out)),
            ("unspents", tuple(None if u is None else (u.coin_value, u.script) for u in tx.unspents)))


def same_fields(a, b):
    try:
        return [n for (n, x), (_, y) in zip(a, b) if not (x == y and repr(x) == repr(y))]
    except Exception:
        return ["uncomparable"]


def entry(chk, algo):
    return chk._signature_hash if algo == "legacy" else chk._signature_for_hash_type_segwit


def run_state_scenario(rec, S):
    """S = {"coins": [c0, c0, c1], "txs": [t0, t1, t2], "amounts": [...], "steps": [...]}: three live checkers; each step is a
    request that is expected to be refused (not judged) or a judged request"""
    coins, txs_d, amounts = S["coins"], S["txs"], S["amounts"]
    txs = [to_pycoin(network_for(c), t, a, [b"\x51"] * len(t["ins"])) for c, t, a in zip(coins, txs_d, amounts)]
    chks = [tx.SolutionChecker(tx) for tx in txs]
    before = [snapshot(tx) for tx in txs]
    last_refused = None      # (object the refusal was made on, kind) while no judged answer came from each relation yet
    for n, step in enumerate(S["steps"]):
        on = step["on"]
        coin, t, tx = coins[on], txs_d[on], txs[on]
        algo, idx, ht, script = step["algo"], step["idx"], step["ht"], step["script"]
        case = {"coin": coin, "state": dict(S, steps=S["steps"][:n + 1])}
        if step["op"] == "refuse":
            undo = perturb(tx, step)
            a_script, a_idx, a_ht = refused_args(step, script, idx, ht, len(t["ins"]))
            f0 = field_snapshot(tx)
            st, got = observe(entry(chks[on], algo), a_script, a_idx, a_ht)
            f1 = field_snapshot(tx)
            undo()
            rec.ev("refused_call.kind.%s" % step["kind"])
            rec.ev("refused_call.%s" % ("refused" if st != "ok" else "answered"))
            if st != "ok":
                rec.ev("refused_call.refused.%s" % algo)
                rec.ev("refused_call.refused.kind.%s" % step["kind"])
                last_refused = on
            diff = same_fields(f0, f1)
            rec.ev("refused_call.purity_checks")
            if diff:
                rec.violation("sighash.%s_modifies_tx.%s" % ("refused_call" if st != "ok" else "answered_call", "+".join(diff)), case, diff, "unchanged")
            continue
        kind, want = expected(coin, t, idx, script, amounts[on][idx], ht, algo)
        st, got = observe(entry(chks[on], algo), script, idx, ht)
        rel = None
        if last_refused is not None:
            rel = "same_object" if on == last_refused else ("other_object" if coins[on] == coins[last_refused] else "other_network")
            rec.ev("state.judged_after_refusal.%s" % rel)
            rec.ev("state.judged_after_refusal.%s.%s" % (rel, algo))
        rec.ev("state.judged")
        rec.case(("state", coin, algo, idx, ht, script, n, before[on][0]), nontrivial=True)
        bad = judge(coin, algo, kind, want, st, got)
        if bad:
            mech = bad[0]
            if mech.endswith("digest_mismatch"):
                mech += ".after_refused_call." + rel if rel else ".state_scenario"
            else:
                mech += ".after_refused_call" if rel else ".state_scenario"
            rec.violation(mech, case, bad[1], bad[2])
    for k, tx in enumerate(txs):
        st, after = observe(snapshot, tx)
        if st != "ok" or after != before[k]:
            rec.violation("sighash.modifies_tx.state_scenario", {"coin": coins[k], "state": S}, "changed" if st == "ok" else after, "unchanged")


def gen_query(rng, coin, t, on, algo=None):
    algo = algo or rng.choice(["legacy", "segwit"])
    ht = rng.choice([1, 2, 3, 0x81, 0x83, 0x41, 0x42, 0x43, 0xc1, 0xc3, rng.randrange(256)])
    if coin in FORK_COINS and rng.random() < 0.8:
        ht |= 0x40
    script, _ = gen_script_code(rng, rng.choice([1, 1, 2, 3, 6, 9]))
    return {"op": "query", "on": on, "algo": algo, "idx": rng.randrange(len(t["ins"])), "ht": ht, "script": script}


def gen_state_scenarios(rng, coin, other_coin, n_scen):
    todo = [(k, b, algo) for (k, b) in REFUSALS for algo in ("legacy", "segwit")] * 2
    if coin in FORK_COINS:
        todo += [("no_forkid", "none", "legacy")] * 4
    rng.shuffle(todo)
    per = -(-len(todo) // n_scen)
    for s in range(n_scen):
        coins = [coin, coin, other_coin]
        txs = [gen_tx(rng, rng.choice([1, 2, 3, 3]), rng.choice([1, 2, 3, 3])) for _ in coins]
        amounts = [[rng.choice([0, 1, (1 << 63) - 1, (1 << 64) - 1, 600000000]) for _ in t["ins"]] for t in txs]
        steps = []
        for kind, code, algo in todo[s * per:(s + 1) * per]:
            on = rng.choice([0, 0, 0, 1, 2])
            t = txs[on]
            q = gen_query(rng, coins[on], t, on, algo)
            if rng.random() < 0.6:
                # a hash type that commits to every input and output, so that the offending field IS reached, and mostly at
                # a later position of its list, so that something was written before it
                q["ht"] = rng.choice([1, 1, 0x41, 0x41, 0x21, 0xff & ~0x9f | 1])
            n_slots = len(t["outs"]) if kind in ("out_value", "out_script") else len(t["ins"])
            if kind in ("amount", "unspent_unknown") and rng.random() < 0.8:
                j = q["idx"]
            else:
                j = n_slots - 1 if rng.random() < 0.6 else rng.randrange(n_slots)
            steps.append(dict(q, op="refuse", kind=kind, bad=code, j=j))
            if rng.random() < 0.2:
                steps.append(dict(steps[-1]))            # the same refusal twice in a row
            order = [on] + rng.sample([x for x in (0, 1, 2) if x != on], 2)
            for m, target in enumerate(order):
                # the first judged request after the refusal: mostly on the same object through the same entry point
                steps.append(gen_query(rng, coins[target], txs[target], target, algo if (m == 0 and rng.random() < 0.7) else None))
            if rng.random() < 0.5:
                steps.append(gen_query(rng, coins[on], t, on))
        yield {"coins": coins, "txs": txs, "amounts": amounts, "steps": steps}


# ------------------------------------------------------------------------------------------------------------------
# a Solver (and the checker it owns) that is kept: a sign() that fails, the mistake corrected, sign() again. The message
# each new signature commits to (the value handed to Generator.sign) must be the consensus digest of its input

def p2pkh(h):
    return b"\x76\xa9\x14" + h + b"\x88\xac"


def first_blob(tx_in):
    """the signature blob of a P2PKH scriptSig / P2WPKH witness"""
    if tx_in.witness:
        return bytes(tx_in.witness[0])
    s = bytes(tx_in.script)
    ok, _, data, _ = SH.get_op(s, 0) if s else (False, 0, b"", 0)
    return bytes(data) if ok else b""


def run_solver_reuse(rec, S):
    """S = {"coin", "kind": p2pkh|p2wpkh, "tx", "amounts", "key", "refusal": {...}, "ht1", "ht2", "fresh": bool, "clear": bool}"""
    from pycoin.solve.utils import build_hash160_lookup
    from pycoin.ecdsa.secp256k1 import secp256k1_generator
    coin, t, amounts = S["coin"], S["tx"], S["amounts"]
    keys = G.Keys()
    ki = S["key"]
    P = p2pkh(G.hash160(keys.sec(ki)))
    spk = P if S["kind"] == "p2pkh" else b"\x00\x14" + P[3:23]
    algo = "legacy" if S["kind"] == "p2pkh" else "segwit"
    tx = to_pycoin(network_for(coin), t, amounts, [spk] * len(t["ins"]))
    lookup = build_hash160_lookup([keys.d[ki]], [secp256k1_generator])
    solver = tx.Solver(tx)
    signer = (lambda **kw: tx.sign(lookup, **kw)) if S["fresh"] else (lambda **kw: solver.sign(lookup, **kw))
    undo = perturb(tx, S["refusal"])
    f0 = field_snapshot(tx)
    st, got = observe(signer, hash_type=S["ht1"])
    refused = st != "ok"
    rec.ev("solver_reuse.first_sign.%s" % ("refused" if refused else "answered"))
    if refused and same_fields(f0, field_snapshot(tx)):
        rec.ev("solver_reuse.refused_sign_left_partial_signatures")     # sign() fills inputs one by one: not judged
    undo()
    if S["clear"]:
        for i in tx.txs_in:
            i.script = b""
            i.witness = []
    signed = []
    w = Wrapped(type(secp256k1_generator), "sign", after=lambda a, kw, r, e: signed.append((a[2] if len(a) > 2 else kw.get("val"), r)))
    try:
        st, got = observe(signer, hash_type=S["ht2"])
    finally:
        w.restore()
    rec.ev("solver_reuse.second_sign.%s" % ("answered" if st == "ok" else "refused"))
    if st != "ok":
        return
    blobs = {}
    for i, tx_in in enumerate(tx.txs_in):
        b = first_blob(tx_in)
        rs = RS.parse_der_lax(b[:-1]) if len(b) > 8 else None
        if rs:
            blobs[rs[0]] = (i, b[-1])
    for val, r in signed:
        if not r or r[0] not in blobs:
            rec.ev("solver_reuse.signature_not_located")
            continue
        i, ht = blobs[r[0]]
        kind, want = expected(coin, t, i, P, amounts[i], ht, algo)
        if kind == "refuse":
            rec.ev("solver_reuse.signature_without_forkid")
            continue
        rec.ev("solver_reuse.signature_judged")
        if refused:
            rec.ev("solver_reuse.signature_judged_after_refused_sign")
            rec.ev("solver_reuse.signature_judged_after_refused_sign.%s" % ("fresh_solver" if S["fresh"] else "kept_solver"))
        rec.case(("solver", coin, S["kind"], i, ht, txser.serialize(t)), nontrivial=True)
        if val != want:
            rec.violation("%s.signature_commits_to_non_consensus_digest.%s%s" % (coin.lower(), S["kind"], ".after_refused_sign" if refused else ""),
                          {"coin": coin, "solver": S}, val, want)


def gen_solver_reuse(rng, coin):
    kind = "p2pkh" if coin == "BCH" else rng.choice(["p2pkh", "p2wpkh"])
    t = gen_tx(rng, rng.choice([1, 2, 3]), rng.choice([1, 2, 3]))
    for i in t["ins"]:
        i["script"], i["witness"] = b"", []
    amounts = [rng.choice([1, 1000, (1 << 63) - 1, 600000000]) for _ in t["ins"]]
    # a refusal the digest of this kind of input runs into
    kinds = ["sequence", "outpoint_index", "lock_time", "version", "out_value", "out_script"]
    if kind == "p2wpkh" or coin in FORK_COINS:
        kinds += ["amount"] * 4
    k = rng.choice(kinds)
    code = rng.choice(["none", "str"]) if k == "out_script" else rng.choice(["over", "over", "neg", "none", "float", "str"])
    j = rng.randrange(len(t["outs"]) if k in ("out_value", "out_script") else len(t["ins"]))
    hts = [None, 1, 2, 3, 0x81, 0x82, 0x83]
    ht = rng.choice(hts)
    return {"coin": coin, "kind": kind, "tx": t, "amounts": amounts, "key": rng.randrange(6), "refusal": {"kind": k, "bad": code, "j": j},
            "ht1": ht, "ht2": ht if rng.random() < 0.7 else rng.choice(hts), "fresh": rng.random() < 0.3, "clear": rng.random() < 0.5}


# ------------------------------------------------------------------------------------------------------------------
# caller-owned mutable arguments (class C): a script code handed over as bytearray / memoryview, transaction members held as
# bytearray. Where the library answers, the answer is the digest of the bytes, the argument is left as it was, a second
# request with the same object gives the same answer, and after the caller edits the object in place the answer follows.
# (the statement does not say which Python types a script code may have: a refusal of these is tolerated)

def run_mutable_args(rec, M):
    """M = {"coin", "tx", "amounts", "queries": [{"algo", "idx", "ht", "script", "form", "edit": (pos, xor) | None}], "members": bool}"""
    coin, t, amounts = M["coin"], M["tx"], M["amounts"]
    import copy
    t = copy.deepcopy(t)
    tx = to_pycoin(network_for(coin), t, amounts, [b"\x51"] * len(t["ins"]))
    if M["members"]:
        # the transaction's own byte strings are mutable objects of the caller
        for o in tx.txs_out:
            o.script = bytearray(o.script)
        for i in tx.txs_in:
            i.script = bytearray(i.script)
    chk = tx.SolutionChecker(tx)
    for n, q in enumerate(M["queries"]):
        algo, idx, ht, script = q["algo"], q["idx"], q["ht"], q["script"]
        case = {"coin": coin, "mutable": dict(M, queries=M["queries"][:n + 1])}
        fn = entry(chk, algo)
        arg = bytearray(script) if q["form"] == "bytearray" else (memoryview(script) if q["form"] == "memoryview" else script)
        members0 = [bytes(o.script) for o in tx.txs_out] + [bytes(i.script) for i in tx.txs_in]
        ids0 = [id(o.script) for o in tx.txs_out]
        rounds = [("first", None), ("second", None)] + ([("edited", q["edit"])] if q.get("edit") else [])
        for label, edit in rounds:
            if edit:
                pos, x = edit
                if q["form"] == "bytearray" and len(arg):
                    arg[pos % len(arg)] ^= x                              # the caller edits its own script-code object
                    script = bytes(arg)
                elif M["members"] and t["outs"]:
                    j = pos % len(t["outs"])
                    ba = tx.txs_out[j].script
                    if len(ba):
                        ba[pos % len(ba)] ^= x                            # the caller edits an output script in place
                        t["outs"][j]["script"] = bytes(ba)
                members0 = [bytes(o.script) for o in tx.txs_out] + [bytes(i.script) for i in tx.txs_in]
            kind, want = expected(coin, t, idx, script, amounts[idx], ht, algo)
            st, got = observe(fn, arg, idx, ht)
            rec.ev("mutable_arg.request")
            if kind == "refuse" or st != "ok":
                if kind == "refuse" and st == "ok":
                    rec.violation("%s.accepts_hashtype_without_forkid" % coin.lower(), case, got, "refusal")
                rec.ev("mutable_arg.refused")
                continue
            rec.ev("mutable_arg.answered.%s" % (q["form"] + (".tx_members_bytearray" if M["members"] else "")))
            rec.ev("mutable_arg.answered.%s_request" % label)
            rec.case(("mutable", coin, algo, idx, ht, script, q["form"], M["members"], label, txser.serialize(t)), nontrivial=True)
            if got != want:
                rec.violation("%s.%s.digest_mismatch.mutable_argument.%s_request" % (coin.lower(), algo, label), case, got, want)
            if bytes(arg) != script:
                rec.violation("sighash.modifies_caller_script_code", case, bytes(arg), script)
            members1 = [bytes(o.script) for o in tx.txs_out] + [bytes(i.script) for i in tx.txs_in]
            if members1 != members0 or ids0 != [id(o.script) for o in tx.txs_out]:
                rec.violation("sighash.modifies_tx.mutable_members", case, "changed", "unchanged")


def gen_mutable_args(rng, coin):
    t = gen_tx(rng, rng.choice([1, 2, 3]), rng.choice([1, 2, 3]))
    amounts = [rng.choice([0, 1, (1 << 64) - 1, 600000000]) for _ in t["ins"]]
    qs = []
    for _ in range(8):
        script, _ = gen_script_code(rng, rng.choice([1, 2, 3, 4, 5, 6, 7, 8, 9, 10, 11]))
        ht = rng.choice([1, 2, 3, 0x81, 0x83, 0x41, 0x43, 0xc1, 0xc2, rng.randrange(256)])
        if coin in FORK_COINS and rng.random() < 0.9:
            ht |= 0x40
        qs.append({"algo": rng.choice(["legacy", "segwit"]), "idx": rng.randrange(len(t["ins"])), "ht": ht, "script": script,
                   "form": rng.choice(["bytearray", "bytearray", "memoryview", "bytes"]),
                   "edit": (rng.randrange(1 << 16), rng.choice([1, 0x80, 0xab ^ 0x61, 0xff])) if rng.random() < 0.7 else None})
    return {"coin": coin, "tx": t, "amounts": amounts, "queries": qs, "members": rng.random() < 0.5}


# ------------------------------------------------------------------------------------------------------------------
# every producer of a transaction object x every way to get at a checker (class D, "object of feature A handed to feature B")

PRODUCERS = ["from_bin", "from_hex", "parse", "with_unspents_hex", "copy"]
CONSUMERS = ["checker", "solver_checker", "checker_early", "solver_checker_early"]


def run_producer(rec, Q):
    """Q = {"coin", "tx", "amounts", "producer", "consumer", "script", "hts"}"""
    import copy
    import io
    coin, t, amounts = Q["coin"], Q["tx"], Q["amounts"]
    net = network_for(coin)
    Tx = net.tx
    raw = txser.serialize(t)
    spks = [b"\x51"] * len(t["ins"])
    how = Q["producer"]
    if how == "from_bin":
        st, tx = observe(Tx.from_bin, raw)
    elif how == "from_hex":
        st, tx = observe(Tx.from_hex, raw.hex())
    elif how == "parse":
        st, tx = observe(Tx.parse, io.BytesIO(raw))
    elif how == "with_unspents_hex":
        st, tx = observe(lambda: Tx.from_hex(to_pycoin(net, t, amounts, spks).as_hex(include_unspents=True)))
    else:
        st, tx = observe(lambda: copy.deepcopy(to_pycoin(net, t, amounts, spks)))
    if st != "ok":
        rec.ev("producer.refused.%s" % how)        # parsing / serialising is not this property's subject
        return
    get = (lambda: tx.SolutionChecker(tx)) if Q["consumer"].startswith("checker") else (lambda: tx.Solver(tx).solution_checker)
    early = Q["consumer"].endswith("_early")       # the checker / Solver exists before the spent outputs are supplied
    if early:
        st, chk = observe(get)
    if st == "ok" and (early or how in ("from_bin", "from_hex", "parse")):
        st, _ = observe(tx.set_unspents, [Tx.TxOut(a, s_) for a, s_ in zip(amounts, spks)])
        if st != "ok":
            rec.ev("producer.refused.%s" % how)
            return
    if not early:
        st, chk = observe(get)
    if st != "ok":
        rec.ev("producer.no_checker.%s" % Q["consumer"])
        return
    script = Q["script"]
    for ht in Q["hts"]:
        for algo in ("legacy", "segwit"):
            for idx in range(len(t["ins"])):
                kind, want = expected(coin, t, idx, script, amounts[idx], ht, algo)
                st, got = observe(entry(chk, algo), script, idx, ht)
                rec.ev("producer.judged.%s" % how)
                rec.ev("producer.judged.via_%s" % Q["consumer"])
                rec.case(("producer", coin, how, Q["consumer"], algo, idx, ht, script, raw), nontrivial=True)
                bad = judge(coin, algo, kind, want, st, got)
                if bad:
                    rec.violation(bad[0] + ".tx_%s.via_%s" % (how, Q["consumer"]), {"coin": coin, "producer": dict(Q, hts=[ht])}, bad[1], bad[2])


def gen_producer(rng, coin, k):
    t = gen_tx(rng)
    script, _ = gen_script_code(rng)
    # (a spent amount of 0 does not survive pycoin's own unspents extension: it stands for "unknown" there)
    return {"coin": coin, "tx": t, "amounts": [rng.choice([1, 2, (1 << 64) - 1, 600000000]) for _ in t["ins"]],
            "producer": PRODUCERS[k % len(PRODUCERS)], "consumer": CONSUMERS[(k // len(PRODUCERS) + k) % len(CONSUMERS)], "script": script,
            "hts": [1, 2, 3, 0x41, 0x43, 0x81, 0x83, 0xc2, rng.randrange(256), rng.randrange(256)]}


def run_state(spec, rec):
    rng = shard_rng(spec["seed"], PROPERTY, spec["tier"], spec["shard"])
    rec.require("refused_call.refused.legacy", "refused_call.refused.segwit", "refused_call.purity_checks")
    rec.require(*["refused_call.kind.%s" % k for k in sorted({k for k, _ in REFUSALS} | {"no_forkid"})])
    rec.require(*["state.judged_after_refusal.%s" % r for r in ("same_object", "other_object", "other_network")])
    rec.require("solver_reuse.signature_judged_after_refused_sign.kept_solver", "solver_reuse.signature_judged_after_refused_sign.fresh_solver")
    rec.require("mutable_arg.answered.bytearray", "mutable_arg.answered.memoryview", "mutable_arg.answered.bytes.tx_members_bytearray",
                "mutable_arg.answered.second_request", "mutable_arg.answered.edited_request")
    rec.require(*["producer.judged.%s" % h for h in PRODUCERS] + ["producer.judged.via_%s" % c for c in CONSUMERS])
    for ci, coin in enumerate(COINS):
        other = COINS[(ci + 1 + rng.randrange(len(COINS) - 1)) % len(COINS)]
        for S in gen_state_scenarios(rng, coin, other, spec["n"]):
            run_state_scenario(rec, S)
        for _ in range(spec["n"]):
            run_solver_reuse(rec, gen_solver_reuse(rng, coin))
        for _ in range(spec["n"]):
            run_mutable_args(rec, gen_mutable_args(rng, coin))
        for k in range(spec["n"]):
            run_producer(rec, gen_producer(rng, coin, k + ci))


# ------------------------------------------------------------------------------------------------------------------
# the N-th operation (class B): more than 2**16 digests of each entry point from ONE checker object

LONG_SCRIPTS = [b"\x76\xa9\x14" + bytes([3]) * 20 + b"\x88\xac", b"\xab" + _FIXED_PK[0] + b"\xac", _FIXED_PK[1] + b"\xac\xab\x4c", b"\x51"]


def long_edit(t, tx, k):
    """deterministic in-place edit number k of the live transaction and of the reference copy"""
    v = int.from_bytes(hashlib.sha256(b"c04-long-%d" % k).digest()[:4], "little")
    what = k % 3
    if what == 0:
        j = v % len(t["ins"])
        t["ins"][j]["sequence"] = v
        tx.txs_in[j].sequence = v
    elif what == 1:
        t["lock_time"] = v
        tx.lock_time = v
    elif t["outs"]:
        j = v % len(t["outs"])
        t["outs"][j]["value"] = v
        tx.txs_out[j].coin_value = v


def long_run(rec, L, upto=None):
    """L = {"coin", "tx", "amounts", "ops"}: ops digests of each entry point, all from one checker; the schedule is a function
    of the operation number alone, so a witness (operation number) can be replayed"""
    import copy
    coin, amounts, ops = L["coin"], L["amounts"], L["ops"]
    t = copy.deepcopy(L["tx"])
    tx = to_pycoin(network_for(coin), t, amounts, [b"\x51"] * len(t["ins"]))
    chk = tx.SolutionChecker(tx)
    n_in = len(t["ins"])
    fork = coin in FORK_COINS
    total = 0
    for algo in ("segwit", "legacy"):
        fn = entry(chk, algo)
        done = 0
        for k in range(ops):
            if upto is not None and total > upto:
                return
            if k % 2048 == 2047:
                long_edit(t, tx, total)
            idx = k % n_in
            ht = (k * 7 + (k >> 8)) & 0xff
            if fork and algo == "legacy" and k % 16:
                ht |= 0x40
            script = LONG_SCRIPTS[(k >> 3) & 3]
            kind, want = expected(coin, t, idx, script, amounts[idx], ht, algo)
            st, got = observe(fn, script, idx, ht)
            done += 1
            rec.case(("long", coin, algo, k), nontrivial=True)
            bad = judge(coin, algo, kind, want, st, got)
            if bad:
                band = "at_2_16" if 65530 <= k <= 65540 else ("past_2_16" if k > 65540 else "early")
                rec.violation(bad[0] + ".long_run." + band, {"coin": coin, "longrun": dict(L, tx=L["tx"]), "op": total, "algo": algo, "k": k}, bad[1], bad[2])
            total += 1
        rec.ev("long_run.digests_from_one_checker.%s" % algo, done)
        if done > (1 << 16):
            rec.ev("long_run.passed_2_16.%s" % algo)
            rec.ev("long_run.passed_2_16.%s.%s" % (algo, coin))
    st, after = observe(tx.as_bin)
    if st != "ok" or after != txser.serialize(t):
        rec.ev("long_run.final_serialisation_differs")


def run_longrun(spec, rec):
    rng = shard_rng(spec["seed"], PROPERTY, spec["tier"], spec["shard"])
    rec.require("long_run.passed_2_16.legacy", "long_run.passed_2_16.segwit")
    coins = spec.get("coins") or ["BTC"] + rng.sample(["LTC", "BCH", "BTG", "GRS"], 2)
    for coin in coins:
        t = gen_tx(rng, 3, 3)
        for i in t["ins"]:
            i["witness"] = []
        amounts = [rng.choice([1, (1 << 64) - 1, 600000000]) for _ in t["ins"]]
        long_run(rec, {"coin": coin, "tx": t, "amounts": amounts, "ops": spec["ops"]})


def run_shard(spec, rec):
    if spec["kind"] == "state":
        return run_state(spec, rec)
    if spec["kind"] == "boundary":
        return run_boundary(spec, rec)
    if spec["kind"] == "longrun":
        return run_longrun(spec, rec)
    if spec["kind"] == "forkspend":
        rec.require("fork_coin_spend.without_forkid", "fork_coin_spend.with_forkid")
        rec.require(*["fork_coin_spend.%s.%s" % (c, v) for c in FORK_COINS for v in ("valid_for_reference", "invalid_for_reference")])
        run_fork_spends(spec, rec)
        return
    if spec["kind"] == "suite":
        from vmon import suite
        rec.require("suite.sighash.legacy", "suite.sighash.segwit")
        suite.run_suite(spec, rec, ["suite.sighash"], "suite.sighash.legacy")
        return
    if spec["kind"] == "direct":
        coin = spec["coin"]
        fam = "forkid_variant" if coin in FORK_COINS else "legacy_algorithm"
        rec.require("_signature_hash", "_signature_for_hash_type_segwit", "purity_checks", "history_query", "coin:" + coin,
                    "%s.digests_compared.%s" % (fam, coin), "bip143.digests_compared.%s" % coin,
                    "%s.single_without_matching_output" % fam, "many_ins_or_outs.digests_compared")
        # every clause of the script-code treatment: separators removed, 0xab bytes that are not separators kept, tail that
        # does not parse copied (the fork-id variants must leave all of them in place: BIP143 hashes the script code as is)
        rec.require(*["%s.script_code.%s" % (fam, k) for k in ("codesep_stripped", "codesep_byte_kept", "unparsable_tail")])
        if coin in FORK_COINS:
            rec.require("forkid_variant.refusals_observed.%s" % coin)
        run_direct(spec, rec)
    else:
        run_tap(spec, rec)


def replay_case(case, rec):
    if case.get("forkspend"):
        from vmon.checks import c05
        net = network_for(case["coin"])
        t = case["tx"]
        chk = c05.ForkChecker(t, 0, case["amount"], c05.FORK[case["coin"]])
        ref = RS.result_of(RS.verify_script, t["ins"][0]["script"], case["spk"], [], case["flags"], chk)
        got = to_pycoin(net, t, [case["amount"]], [case["spk"]]).is_solution_ok(0, flags=case["flags"])
        if bool(got) != (ref == "OK"):
            why = "hashtype_without_forkid_tolerated" if not (case["ht"] & 0x40) and got else "verdict_differs"
            rec.violation("%s.spend.%s" % (case["coin"].lower(), why), case, got, ref)
        return
    if "state" in case:
        return run_state_scenario(rec, case["state"])
    if "solver" in case:
        return run_solver_reuse(rec, case["solver"])
    if "mutable" in case:
        return run_mutable_args(rec, case["mutable"])
    if "producer" in case:
        return run_producer(rec, case["producer"])
    if "longrun" in case:
        return long_run(rec, case["longrun"], upto=case["op"])
    if case.get("big"):
        net = network_for(case["coin"])
        d = case["big"]
        hts = case["ht"] if isinstance(case["ht"], list) else [case["ht"]]
        algos = tuple(case.get("algos") or [case.get("algo", "legacy")])
        return check_one(rec, case["coin"], net, big_tx(d), case["idx"], case["script"], case.get("cls", ""), [1] * d["n_in"], [b"\x51"] * d["n_in"], hts,
                         algos=algos, big=d)
    if "coin" in case:
        net = network_for(case["coin"])
        hts = range(256) if case.get("ht") in ("all", None) else [case["ht"]]
        algos = (case["algo"],) if case.get("algo") in ("legacy", "segwit") and len(hts) == 1 else ("legacy", "segwit")
        check_one(rec, case["coin"], net, case["tx"], case["idx"], case["script"], case.get("cls", ""), case["amounts"], case["spks"], hts, algos=algos)
    else:
        from vmon.checks import c03
        c03.replay_case(case, rec)
