"""C04 — signature hashes equal the consensus definition for every hash type."""
import hashlib

from vmon.probe import shard_rng, observe, Wrapped
from vmon.refs import sighash as SH
from vmon.refs import script as RS
from vmon.refs import txser
from vmon.gen import scriptgen as G

PROPERTY = "C04"
PRELOAD_NETWORK_ORDERS = [["btc", "xtn", "ltc", "bch", "grs", "doge", "dash", "btg"], ["btg", "grs", "bch", "doge", "ltc", "xtn", "btc"]]
LEVEL = "exploration"
TECHNIQUE = "differential runtime monitor: _signature_hash / _signature_for_hash_type_segwit and the digest tapped at Generator.verify vs reference legacy/BIP143 digests, all 256 hash types per sampled (tx, input, script code)"
RULE = ("(coin, tx, input index, script code, amount) tuples x every hash-type byte 0..255 x {legacy entry point, segwit entry point}; "
        "transactions with 1-6 inputs, 0-6 outputs (so index >= outputs occurs), some inputs witness-bearing, boundary versions / lock times / "
        "sequences / amounts; per shard two transactions with 253-300 inputs and 0-301 outputs at positions 0 / 251-252 / last (14 hash types); "
        "script codes: empty, standard templates, random opcodes, code separators at start/middle/end/adjacent/inside push data, truncated "
        "final push (every class at least once per shard). Plus signature-bearing spends whose verified digest is tapped at Generator.verify, "
        "and BCH/BTG spends with and without the fork-id bit. Non-trivial ('hard'): hash type base is not ALL, or ANYONECANPAY, or a code "
        "separator / unparsable tail is present; distinct by (coin, algorithm, tx, idx, script, ht). Each clause of the statement has its own "
        "required counter (legacy_algorithm.* / forkid_variant.* / bip143.* / tap.* / fork_coin_spend.*).")
ASSUMPTIONS = [
    "reference digests in vmon/refs/sighash.py follow Bitcoin Core's SignatureHash (legacy serializer semantics incl. the SIGHASH_SINGLE "
    "'one' constant) and BIP143; self-tested on BIP143's published example and, through the reference interpreter, on every signature in "
    "tx_valid.json / script_tests.json",
    "removal of the signature being checked (FindAndDelete) happens in the interpreter before the digest is computed; it is exercised through "
    "the Generator.verify tap on signature-bearing spends and by C03",
    "BCH: BIP143 digest with the hash-type byte as is, refusal = any exception when bit 0x40 is clear; BTG: BIP143 with 79<<8 OR-ed into the "
    "4-byte hash type; GRS: same preimages with single SHA-256 throughout (sub-hashes included)",
    "Bitcoin Cash / Gold hash types are bytes 0..255 (the fork id is folded in by the library), as the statement's quantifier says",
    "the refusal of a hash type without the fork-id bit is demanded where the fork digest replaces the legacy algorithm (_signature_hash, and "
    "legacy script validation); at the witness-v0 entry point of BCH / BTG a refusal is tolerated and a returned value must be the fork digest",
    "tap: a digest pycoin verifies must be one consensus defines for some (signature, script code) pair of the input; when the reference "
    "stopped at a signature / key encoding rule before hashing, the pairs behind that rule count too (the order of encoding rules and hashing "
    "is not part of the statement)",
    "for BCH / BTG legacy-style scripts the reference (c05.ForkChecker) removes the checked signature from the script code before the fork "
    "digest, as pycoin does; the statement does not say whether that removal applies to the fork-id variants and no workload decides it",
    "no published vector validates the BCH / BTG / GRS digests of the reference: they are the self-tested BIP143 / legacy preimages with the "
    "documented substitutions (fork id in the hash-type word, single SHA-256)",
]
EXPLANATION = "digest returned by pycoin == reference digest (as a big-endian integer); computing it leaves tx.as_bin() and every field unchanged"
TIMEOUT = {"quick": 900, "thorough": 4 * 3600}

COINS = ["BTC", "LTC", "BCH", "BTG", "GRS"]


def plan(tier, seed):
    q = tier == "quick"
    shards = []
    for i in range(12 if q else 80):
        shards.append({"kind": "direct", "n": 28 if q else 300, "coin": COINS[i % len(COINS)]})
    for i in range(4 if q else 32):
        shards.append({"kind": "tap", "n": 500 if q else 5000})
    shards.append({"kind": "suite", "label": "suite"})
    shards.append({"kind": "forkspend", "n": 250 if q else 6000, "label": "forkspend"})
    return shards


def configurations(tier):
    return COINS


def selftest(rec):
    import os
    import pycoin
    from vmon.refs import coretext
    d = os.path.join(os.path.dirname(os.path.dirname(pycoin.__file__)), "tests", "btc", "data")
    r = {"sighash_checks": SH.selftest(), "txser": txser.selftest()}
    r.update(coretext.selftest(d))    # every signature in the Core vectors verifies under the reference digests
    return r


def sha(b):
    return hashlib.sha256(b).digest()


def network_for(coin):
    import importlib
    return importlib.import_module("pycoin.symbols." + coin.lower()).network


def to_pycoin(net, t, amounts, spks):
    Tx = net.tx
    ins = []
    for i in t["ins"]:
        ti = Tx.TxIn(i["prev"], i["index"], i["script"], i["sequence"])
        ti.witness = list(i["witness"])
        ins.append(ti)
    outs = [Tx.TxOut(o["value"], o["script"]) for o in t["outs"]]
    unspents = [Tx.TxOut(a, s) for a, s in zip(amounts, spks)]
    return Tx(t["version"], ins, outs, t["lock_time"], unspents)


def gen_tx(rng, n_in=None, n_out=None):
    n_in = rng.choice([1, 1, 2, 3, 4, 6]) if n_in is None else n_in
    n_out = rng.choice([0, 1, 1, 2, 3, 6]) if n_out is None else n_out
    B32 = [0, 1, 2, 0x7fffffff, 0x80000000, 0xffffffff, 0xfffffffe]
    ins = []
    for _ in range(n_in):
        ins.append({"prev": bytes(rng.randrange(256) for _ in range(32)) if rng.random() < 0.9 else b"\x01" + b"\0" * 31,
                    "index": rng.choice(B32 + [rng.randrange(10)]),
                    "script": rng.choice([b"", b"\x51", bytes(rng.randrange(256) for _ in range(rng.randrange(1, 40)))]),
                    "sequence": rng.choice(B32 + [rng.randrange(1 << 32)]), "witness": []})
    outs = []
    for _ in range(n_out):
        outs.append({"value": rng.choice([0, 1, (1 << 63) - 1, (1 << 64) - 1, 21 * 10 ** 14, rng.randrange(1 << 40)]),
                     "script": rng.choice([b"", b"\x6a", b"\x76\xa9\x14" + bytes(20) + b"\x88\xac", bytes(rng.randrange(256) for _ in range(rng.choice([1, 25, 252, 253, 300])))])})
    if rng.random() < 0.3:
        # witness-bearing inputs: no digest commits to witness data, and as_bin() (compared before / after) carries it
        for i in ins:
            if rng.random() < 0.6:
                i["witness"] = [bytes(rng.randrange(256) for _ in range(rng.choice([0, 1, 33, 72]))) for _ in range(rng.choice([1, 2, 3]))]
    return {"version": rng.choice(B32), "ins": ins, "outs": outs, "lock_time": rng.choice(B32 + [500000000, 499999999])}


_FIXED_PK = [b"\x21\x02" + bytes([7 + j]) * 32 for j in range(3)]


N_SCRIPT_CLASSES = 12


def gen_script_code(rng, k=None):
    k = rng.randrange(N_SCRIPT_CLASSES) if k is None else k
    # a third of the script codes come from a small fixed pool, so that the SAME script code meets many different
    # transactions / inputs / amounts within one process (anything memoised on the script alone would show)
    pk = rng.choice(_FIXED_PK) if rng.random() < 0.35 else b"\x21\x02" + bytes(rng.randrange(256) for _ in range(32))
    if k == 0:
        return b"", "empty"
    if k == 1:
        return b"\x76\xa9\x14" + (bytes([9]) * 20 if rng.random() < 0.4 else bytes(rng.randrange(256) for _ in range(20))) + b"\x88\xac", "p2pkh"
    if k == 2:
        return b"\x52" + pk + pk + b"\x52\xae", "multisig"
    if k == 3:
        return b"\xab" + pk + b"\xac", "codesep.start"
    if k == 4:
        return pk + b"\xac\xab", "codesep.end"
    if k == 5:
        return b"\x51\xab\xab\x75" + pk + b"\xab\xac", "codesep.adjacent"
    if k == 6:
        return b"\x02\xab\xab\x75" + pk + b"\xac" + b"\x4c\x03\xab\x01\xab", "codesep.inside_push"
    if k == 7:
        return pk + b"\xac\xab\x4c", "codesep.then_truncated"
    if k == 8:
        return pk + b"\xab\x05\xab\xab", "codesep.truncated_tail"
    if k == 9:
        return bytes(rng.choice([0x51, 0x61, 0x75, 0x76, 0x87, 0xab, 0xac, 0x00, 0x4f]) for _ in range(rng.randrange(1, 30))), "opsoup"
    if k == 10:
        return bytes(rng.randrange(256) for _ in range(rng.randrange(1, 60))), "random"
    return b"\x4d\x00\x01" + bytes(256) + b"\xab" + pk + b"\xac", "bigpush.codesep"


def is_hard(ht, cls):
    return (ht & 0x1f) != 1 or bool(ht & 0x80) or cls.startswith("codesep") or cls in ("opsoup", "random")


FORK_COINS = ("BCH", "BTG")


def expected(coin, tx, idx, script, amount, ht, algo):
    """-> ('digest', int) | ('refuse', None) | ('digest_or_refuse', int)"""
    kind = "digest"
    if coin in ("BTC", "LTC"):
        d = SH.legacy(tx, idx, script, ht) if algo == "legacy" else SH.bip143(tx, idx, script, amount, ht)
    elif coin == "GRS":
        d = SH.legacy(tx, idx, script, ht, H=sha) if algo == "legacy" else SH.bip143(tx, idx, script, amount, ht, H=sha)
    else:
        if not (ht & 0x40):
            if algo == "legacy":
                return ("refuse", None)
            # the witness-v0 entry point of a fork-id coin, hash type without the fork-id bit: the statement demands the refusal
            # where the fork digest replaces the legacy algorithm (DESIGN 11.2) and does not forbid it here; a value that IS
            # returned must be the fork digest
            kind = "digest_or_refuse"
        d = SH.bip143(tx, idx, script, amount, ht, fork_or=79 << 8 if coin == "BTG" else 0)
    return (kind, int.from_bytes(d, "big"))


def judge(coin, algo, kind, want, st, got):
    """-> None (agrees with the statement) | (mechanism stem, observed, expected)"""
    if kind == "refuse":
        return ("%s.accepts_hashtype_without_forkid" % coin.lower(), got, "refusal") if st == "ok" else None
    if st != "ok":
        if kind == "digest_or_refuse":
            return None
        return ("%s.%s.raises.%s" % (coin.lower(), algo, type(got).__name__), got, want)
    if got != want:
        return ("%s.%s.digest_mismatch" % (coin.lower(), algo), got, want)
    return None


def snapshot(tx):
    return (tx.as_bin(), tx.version, tx.lock_time,
            tuple((i.previous_hash, i.previous_index, bytes(i.script), i.sequence, tuple(i.witness)) for i in tx.txs_in),
            tuple((o.coin_value, bytes(o.script)) for o in tx.txs_out),
            tuple((u.coin_value, bytes(u.script)) for u in tx.unspents))


def script_traits(script):
    """which clauses of the legacy script-code treatment this script code reaches (decided by the reference helpers)"""
    stripped = SH.strip_codeseparators(script)
    pc, ok = 0, True
    while pc < len(script) and ok:
        ok, _, _, pc = SH.get_op(script, pc)
    return {"codesep_stripped": stripped != script,            # an OP_CODESEPARATOR opcode is removed
            "codesep_byte_kept": 0xab in stripped,             # a 0xab byte that is NOT an executed-position opcode stays
            "unparsable_tail": not ok}


def check_one(rec, coin, net, t, idx, script, cls, amounts, spks, hts):
    tx = to_pycoin(net, t, amounts, spks)
    sc = tx.SolutionChecker(tx)
    before = snapshot(tx)
    traits = script_traits(script)
    legacy_coin = coin not in FORK_COINS
    n_cmp = {"legacy": 0, "segwit": 0}
    n_refused = n_single_no_out = n_tolerated = 0
    for ht in hts:
        for algo, fn, op in (("legacy", sc._signature_hash, "_signature_hash"), ("segwit", sc._signature_for_hash_type_segwit, "_signature_for_hash_type_segwit")):
            kind, want = expected(coin, t, idx, script, amounts[idx], ht, algo)
            st, got = observe(fn, script, idx, ht)
            rec.ev(op)
            rec.ev("coin:" + coin)
            rec.case((coin, algo, before[0], idx, script, ht), nontrivial=is_hard(ht, cls))
            if is_hard(ht, cls):
                rec.ev("hard")
            bad = judge(coin, algo, kind, want, st, got)
            if kind == "refuse":
                n_refused += st != "ok"
            elif st == "ok":
                n_cmp[algo] += 1
                if (ht & 0x1f) == 3 and idx >= len(t["outs"]):
                    n_single_no_out += 1
            else:
                n_tolerated += kind == "digest_or_refuse"
            if bad:
                mech = bad[0]
                if mech.endswith("digest_mismatch"):
                    base = {1: "all", 2: "none", 3: "single"}.get(ht & 0x1f, "other")
                    mech += "." + base + ("+acp" if ht & 0x80 else "")
                    if (ht & 0x1f) == 3 and idx >= len(t["outs"]):
                        mech += ".single_no_output"
                    if cls.startswith("codesep") or cls in ("opsoup", "random"):
                        mech += ".codesep_or_odd_script"
                    if len(t["ins"]) >= 253 or len(t["outs"]) >= 253:
                        mech += ".many_ins_or_outs"
                case = {"coin": coin, "algo": algo, "tx": t, "idx": idx, "script": script, "cls": cls, "amounts": amounts, "spks": spks, "ht": ht}
                rec.violation(mech, case, bad[1], bad[2])
    # which clauses of the statement these comparisons reached
    fam = "legacy_algorithm" if legacy_coin else "forkid_variant"
    rec.ev("%s.digests_compared" % fam, n_cmp["legacy"])
    rec.ev("%s.digests_compared.%s" % (fam, coin), n_cmp["legacy"])
    rec.ev("bip143.digests_compared.%s" % coin, n_cmp["segwit"])
    if n_cmp["legacy"]:
        for k, v in traits.items():
            if v:
                rec.ev("%s.script_code.%s" % (fam, k))
        rec.ev("%s.single_without_matching_output" % fam, n_single_no_out)
    if not legacy_coin:
        rec.ev("forkid_variant.refusals_observed.%s" % coin, n_refused)
        rec.ev("forkid_variant.witness_entry_refusal_tolerated", n_tolerated)
    if len(t["ins"]) >= 253 or len(t["outs"]) >= 253:
        rec.ev("many_ins_or_outs.digests_compared", n_cmp["legacy"] + n_cmp["segwit"])
    if any(i["witness"] for i in t["ins"]):
        rec.ev("witness_bearing_tx")
    after = snapshot(tx)
    rec.ev("purity_checks")
    if after != before:
        which = [n for n, (a, b) in zip(("as_bin", "version", "lock_time", "txs_in", "txs_out", "unspents"), zip(before, after)) if a != b]
        rec.violation("sighash.modifies_tx." + "+".join(which), {"coin": coin, "tx": t, "idx": idx, "script": script, "amounts": amounts, "spks": spks,
                                                                  "cls": cls, "ht": "all"}, which, "unchanged")


def checker_history(rec, rng, coin, net, t, amounts, spks):
    """one SolutionChecker object queried repeatedly for different inputs / hash types / algorithms, with the
    transaction edited in place between queries: every answer must be the digest of the transaction as it is now"""
    import copy
    t = copy.deepcopy(t)
    tx = to_pycoin(net, t, amounts, spks)
    sc = tx.SolutionChecker(tx)
    log = []
    for step in range(30):
        r = rng.random()
        if r < 0.25 and step:
            # in-place edit of the live transaction (and of the reference copy)
            what = rng.choice(["out_value", "out_script", "sequence", "lock_time", "version", "spent_amount", "outpoint"])
            if what == "out_value" and t["outs"]:
                j = rng.randrange(len(t["outs"]))
                v = rng.randrange(1 << 40)
                t["outs"][j]["value"] = v
                tx.txs_out[j].coin_value = v
            elif what == "out_script" and t["outs"]:
                j = rng.randrange(len(t["outs"]))
                sc_ = bytes(rng.randrange(256) for _ in range(rng.randrange(0, 30)))
                t["outs"][j]["script"] = sc_
                tx.txs_out[j].script = sc_
            elif what == "sequence":
                j = rng.randrange(len(t["ins"]))
                v = rng.randrange(1 << 32)
                t["ins"][j]["sequence"] = v
                tx.txs_in[j].sequence = v
            elif what == "lock_time":
                v = rng.randrange(1 << 32)
                t["lock_time"] = v
                tx.lock_time = v
            elif what == "version":
                v = rng.randrange(1 << 32)
                t["version"] = v
                tx.version = v
            elif what == "spent_amount":
                j = rng.randrange(len(t["ins"]))
                v = rng.randrange(1, 1 << 50)
                amounts[j] = v
                tx.unspents[j].coin_value = v
            elif what == "outpoint":
                j = rng.randrange(len(t["ins"]))
                v = rng.randrange(1 << 32)
                t["ins"][j]["index"] = v
                tx.txs_in[j].previous_index = v
            log.append(("edit", what))
            rec.ev("history_edit")
            continue
        idx = rng.randrange(len(t["ins"]))
        ht = rng.choice([1, 2, 3, 3, 0x81, 0x82, 0x83, 0x41, 0x43, 0xc3, rng.randrange(256)])
        algo = rng.choice(["legacy", "segwit"])
        script, cls = gen_script_code(rng) if rng.random() < 0.3 else (b"\x76\xa9\x14" + bytes(20) + b"\x88\xac", "p2pkh")
        kind, want = expected(coin, t, idx, script, amounts[idx], ht, algo)
        fn = sc._signature_hash if algo == "legacy" else sc._signature_for_hash_type_segwit
        st, got = observe(fn, script, idx, ht)
        log.append((algo, idx, ht))
        rec.ev("history_query")
        rec.case((coin, "hist", step, idx, ht, algo, txser.serialize(t)), nontrivial=True)
        case = {"coin": coin, "algo": algo, "tx": t, "idx": idx, "script": script, "cls": cls, "amounts": list(amounts), "spks": spks, "ht": ht,
                "history": log[-12:]}
        bad = judge(coin, algo, kind, want, st, got)
        if bad:
            mech = bad[0]
            if mech.endswith("digest_mismatch"):
                mech = "%s.%s.stateful_digest_mismatch" % (coin.lower(), algo)
            rec.violation(mech, case, bad[1], bad[2])


BIG_HASH_TYPES = [0, 1, 2, 3, 0x41, 0x42, 0x43, 0x81, 0x82, 0x83, 0xc1, 0xc2, 0xc3]


def run_direct(spec, rec):
    rng = shard_rng(spec["seed"], PROPERTY, spec["tier"], spec["shard"])
    coin = spec["coin"]
    net = network_for(coin)
    for k in range(spec["n"]):
        t = gen_tx(rng)
        idx = rng.randrange(len(t["ins"]))
        # the first cases of a shard walk through every script-code class, the rest draw at random
        script, cls = gen_script_code(rng, k if k < N_SCRIPT_CLASSES else None)
        amounts = [rng.choice([0, 1, (1 << 63) - 1, (1 << 64) - 1, 600000000]) for _ in t["ins"]]
        spks = [b"\x51" for _ in t["ins"]]
        check_one(rec, coin, net, t, idx, script, cls, amounts, spks, range(256))
        checker_history(rec, rng, coin, net, t, list(amounts), spks)
        if k < 1:
            rec.sample({"coin": coin, "n_in": len(t["ins"]), "n_out": len(t["outs"]), "idx": idx, "script_class": cls, "script": script[:40],
                        "hash_types": "0..255", "version": t["version"], "lock_time": t["lock_time"]})
    # "any number of inputs / outputs": counts and positions past the one-byte compact-size range, a few hash types each.
    # One transaction sits on the boundary (253 inputs; 0 / 252 / 253 outputs), one lies beyond it with an output for every input
    for _ in range(1 if spec["tier"] == "quick" else 4):
        n_big = rng.choice([254, 300])
        for n_in, n_out in ((253, rng.choice([0, 252, 253])), (n_big, n_big + rng.choice([0, 1]))):
            t = gen_tx(rng, n_in, n_out)
            amounts = [rng.choice([0, 1, (1 << 63) - 1, (1 << 64) - 1, 600000000]) for _ in t["ins"]]
            spks = [b"\x51" for _ in t["ins"]]
            for idx in sorted({0, rng.choice([251, 252]), n_in - 1}):
                script, cls = gen_script_code(rng)
                check_one(rec, coin, net, t, idx, script, cls, amounts, spks, BIG_HASH_TYPES + [rng.randrange(256)])


ENCODING_FLAGS = RS.STRICTENC | RS.DERSIG | RS.LOW_S | RS.WITNESS_PUBKEYTYPE


def reference_digests(case, flags):
    """-> (verdict, log): the reference interpreter's verdict and, for every non-empty signature it reached, the entry
    (sigversion, hash type, script code after FindAndDelete, digest, signature blob)"""
    log = []
    tx, n = case["tx"], case["n_in"]
    chk = RS.TxChecker(tx, n, case["amount"], sighash_log=log)
    i = tx["ins"][n]
    return RS.result_of(RS.verify_script, i["script"], case["spk"], i["witness"], flags, chk), log


def executed_legacy_scripts(case):
    """the scripts a legacy signature operation of this spend can run in: the scriptPubKey and, for P2SH, the redeem script"""
    spk = case["spk"]
    out = [spk]
    if len(spk) == 23 and spk[:2] == b"\xa9\x14" and spk[22:] == b"\x87":
        ssig = case["tx"]["ins"][case["n_in"]]["script"]
        pc, last, ok = 0, None, True
        while pc < len(ssig) and ok:
            ok, _, last, pc = SH.get_op(ssig, pc)
        if ok and last:
            out.append(bytes(last))
    return out


def run_tap(spec, rec):
    """digest handed to Generator.verify during Tx.check_solution == digest the reference interpreter computes"""
    from vmon.checks import c03
    from pycoin.ecdsa.secp256k1 import secp256k1_generator
    rng = shard_rng(spec["seed"], PROPERTY, spec["tier"], spec["shard"])
    py = c03.Py()
    seen = []
    gen_cls = type(secp256k1_generator)
    seen_pairs = []

    def tap(a, kw, r, e):
        val = a[2] if len(a) > 2 else kw.get("val")
        sig = a[3] if len(a) > 3 else kw.get("sig")
        seen.append(val)
        try:
            seen_pairs.append((val, sig[0]))
        except Exception:
            pass
    w = Wrapped(gen_cls, "verify", after=tap, rec=rec, op="Generator.verify")
    rec.require("tap:Generator.verify", "tap.digest_verified.legacy", "tap.digest_verified.witness_v0",
                "tap.signature_removed_from_script_code", "tap.signature_removed_from_script_code.pushdata_form")
    try:
        keys = G.Keys()
        sg = G.SigGen(rng, keys)
        half = spec["n"] // 2
        for gen in (sg.p2pk_like(half), sg.multisig(half // 3), G.two_sigops_cases(rng, keys, half // 4), G.embedded_sig_length_cases(rng, keys)):
            for case in gen:
                del seen[:]
                del seen_pairs[:]
                tx, n = case["tx"], case["n_in"]
                i = tx["ins"][n]
                ref, log = reference_digests(case, case["flags"])
                code, _ = py.spend(case)
                rec.ev("Tx.check_solution")
                ref_digests = {int.from_bytes(e[3], "big") for e in log}
                got = set(seen)
                if not got <= ref_digests:
                    # pycoin verified a signature the reference did not reach. The reference stops at an encoding rule
                    # BEFORE hashing; the order of the encoding rules and the hashing is not part of the statement, so the
                    # digests consensus defines for the pairs behind those rules count too
                    _, log2 = reference_digests(case, case["flags"] & ~ENCODING_FLAGS)
                    log = log + log2
                    ref_digests |= {int.from_bytes(e[3], "big") for e in log2}
                    rec.ev("tap_reference_rerun_without_encoding_rules")
                # the digests consensus defines per signature (keyed by the signature's r value)
                by_r = {}
                for e in log:
                    rs = RS.parse_der_lax(e[4][:-1])
                    if rs:
                        by_r.setdefault(rs[0], set()).add(int.from_bytes(e[3], "big"))
                rec.case(("tap", i["script"], case["spk"], tuple(i["witness"]), case["flags"], tx["version"]), nontrivial=bool(ref_digests))
                if got:
                    rec.ev("tap_cases_with_digest")
                if ref == "OK" and code == "OK":
                    rec.ev("tap_both_ok")
                # which clauses the verified digests belong to
                scripts = None
                for e in log:
                    if int.from_bytes(e[3], "big") not in got:
                        continue
                    if e[0] == RS.SIGVERSION_BASE:
                        rec.ev("tap.digest_verified.legacy")
                        scripts = executed_legacy_scripts(case) if scripts is None else scripts
                        if any(SH.find_and_delete(scr, SH.push_data(e[4]))[1] for scr in scripts):
                            # removal of the signature being checked really changed the script code that was hashed
                            rec.ev("tap.signature_removed_from_script_code")
                            if len(e[4]) >= 76:
                                rec.ev("tap.signature_removed_from_script_code.pushdata_form")
                    else:
                        rec.ev("tap.digest_verified.witness_v0")
                # every digest pycoin verified a signature against must be one the consensus rules define for some
                # (signature, script code) pair of this input; pycoin may verify fewer (it gives up on a pair earlier)
                if not got <= ref_digests:
                    rec.violation("tap.verified_digest_not_a_consensus_digest", case, sorted(got - ref_digests), sorted(ref_digests))
                else:
                    for val, r_ in seen_pairs:
                        if r_ in by_r and val not in by_r[r_]:
                            rec.violation("tap.signature_verified_against_another_operations_digest", case, val, sorted(by_r[r_]))
                            break
        rec.sample({"op": "Generator.verify tap", "digests_seen_last_case": [hex(x) for x in list(seen)[:2]]})
    finally:
        w.restore()


def run_fork_spends(spec, rec):
    """fork-id coins in script validation: a signature without the fork-id bit is refused (the spend fails) even where a
    false signature check would be tolerated; one with the bit is checked against the fork digest"""
    from vmon.checks import c05
    rng = shard_rng(spec["seed"], PROPERTY, spec["tier"], spec["shard"])
    keys = G.Keys()
    for coin in ("BCH", "BTG"):
        net = network_for(coin)
        fork = c05.FORK[coin]
        for k in range(spec["n"]):
            ki = rng.randrange(len(keys.d))
            pub = keys.sec(ki, True)
            tail = rng.choice([b"\xac", b"\xac\x91", b"\xac\x63\x51\x67\x51\x68", b"\xad\x51"])
            script = G.push(pub) + tail
            if rng.random() < 0.3:
                script = b"\x51" + G.push(pub) + b"\x51\xae" + (b"\x91" if rng.random() < 0.6 else b"")
            ht = rng.choice([0x41, 0x41, 0x43, 0xc1, 0x01, 0x03, 0x82, 0x00, 0x81])
            amount = rng.choice([1000, 5 * 10 ** 8])
            t = G.mk_tx(rng, b"", [], amount, 1, 0, 0xffffffff, rng.choice([0, 1]), 1, 0)
            digest = SH.bip143(t, 0, script, amount, ht | 0x40 if rng.random() < 0.5 else ht, fork_or=fork[1])
            sig = G.sig_blob(keys, ki, digest, ht)
            unlock = ([b""] if script[:1] == b"\x51" else []) + [sig]
            wrapper = rng.choice(["bare", "p2sh"])
            if wrapper == "bare":
                spk, t["ins"][0]["script"] = script, b"".join(G.push(u) for u in unlock)
            else:
                spk = b"\xa9\x14" + G.hash160(script) + b"\x87"
                t["ins"][0]["script"] = b"".join(G.push(u) for u in unlock) + SH.push_data(script)
            flags = rng.choice([RS.P2SH, RS.P2SH | RS.WITNESS, 0xffff & ~RS.STRICTENC & ~RS.NULLFAIL, RS.P2SH | RS.NULLFAIL])
            chk = c05.ForkChecker(t, 0, amount, fork)
            ref = RS.result_of(RS.verify_script, t["ins"][0]["script"], spk, [], flags, chk)
            tx = to_pycoin(net, t, [amount], [spk])
            st, got = observe(tx.is_solution_ok, 0, flags=flags)
            rec.ev("fork_coin_spend")
            rec.ev("fork_coin_spend.%s" % ("with_forkid" if ht & 0x40 else "without_forkid"))
            rec.ev("fork_coin_spend.%s.%s" % (coin, "valid_for_reference" if ref == "OK" else "invalid_for_reference"))
            rec.case(("forkspend", coin, txser.serialize(t), spk, flags))
            case = {"coin": coin, "tx": t, "spk": spk, "amount": amount, "flags": flags, "ht": ht, "forkspend": True}
            if st != "ok":
                rec.violation("%s.validation_raises.%s" % (coin.lower(), type(got).__name__), case, got, ref)
            elif bool(got) != (ref == "OK"):
                why = "hashtype_without_forkid_tolerated" if not (ht & 0x40) and got else "verdict_differs"
                rec.violation("%s.spend.%s" % (coin.lower(), why), case, got, ref)


def run_shard(spec, rec):
    if spec["kind"] == "forkspend":
        rec.require("fork_coin_spend.without_forkid", "fork_coin_spend.with_forkid")
        rec.require(*["fork_coin_spend.%s.%s" % (c, v) for c in FORK_COINS for v in ("valid_for_reference", "invalid_for_reference")])
        run_fork_spends(spec, rec)
        return
    if spec["kind"] == "suite":
        from vmon import suite
        rec.require("suite.sighash.legacy", "suite.sighash.segwit")
        suite.run_suite(spec, rec, ["suite.sighash"], "suite.sighash.legacy")
        return
    if spec["kind"] == "direct":
        coin = spec["coin"]
        fam = "forkid_variant" if coin in FORK_COINS else "legacy_algorithm"
        rec.require("_signature_hash", "_signature_for_hash_type_segwit", "purity_checks", "history_query", "coin:" + coin,
                    "%s.digests_compared.%s" % (fam, coin), "bip143.digests_compared.%s" % coin,
                    "%s.single_without_matching_output" % fam, "many_ins_or_outs.digests_compared")
        # every clause of the script-code treatment: separators removed, 0xab bytes that are not separators kept, tail that
        # does not parse copied (the fork-id variants must leave all of them in place: BIP143 hashes the script code as is)
        rec.require(*["%s.script_code.%s" % (fam, k) for k in ("codesep_stripped", "codesep_byte_kept", "unparsable_tail")])
        if coin in FORK_COINS:
            rec.require("forkid_variant.refusals_observed.%s" % coin)
        run_direct(spec, rec)
    else:
        run_tap(spec, rec)


def replay_case(case, rec):
    if case.get("forkspend"):
        from vmon.checks import c05
        net = network_for(case["coin"])
        t = case["tx"]
        chk = c05.ForkChecker(t, 0, case["amount"], c05.FORK[case["coin"]])
        ref = RS.result_of(RS.verify_script, t["ins"][0]["script"], case["spk"], [], case["flags"], chk)
        got = to_pycoin(net, t, [case["amount"]], [case["spk"]]).is_solution_ok(0, flags=case["flags"])
        if bool(got) != (ref == "OK"):
            why = "hashtype_without_forkid_tolerated" if not (case["ht"] & 0x40) and got else "verdict_differs"
            rec.violation("%s.spend.%s" % (case["coin"].lower(), why), case, got, ref)
        return
    if "coin" in case:
        net = network_for(case["coin"])
        hts = range(256) if case.get("ht") in ("all", None) else [case["ht"]]
        check_one(rec, case["coin"], net, case["tx"], case["idx"], case["script"], case.get("cls", ""), case["amounts"], case["spks"], hts)
    else:
        from vmon.checks import c03
        c03.replay_case(case, rec)
