"""C03 — script evaluation agrees with Bitcoin consensus for every script and flag set."""
import os

from vmon.probe import shard_rng
from vmon.refs import script as RS
from vmon.refs import coretext as CT
from vmon.gen import scriptgen as G

PROPERTY = "C03"
LEVEL = "exploration"
TECHNIQUE = "differential runtime monitor: pycoin check_solution / BitcoinVM.eval_script vs a reference port of Bitcoin Core's interpreter, with per-instruction trace taps for localisation"
RULE = ("spend cases (scriptSig, scriptPubKey, witness, flags, tx context) and eval cases (script, initial stack, flags, sigversion) from: the "
        "1,205+200 Core vectors, their mutations (flag toggles, operand/opcode substitution, deletion/duplication, truncation, re-wrapping into "
        "P2SH/P2WSH/P2SH-P2WSH), an opcode x operand-class matrix over all 256 opcode values in executed and dead positions, limit probes "
        "(script size, op count, stack size, push size, truncated pushes, nesting), witness-program dispatch (versions 0-16 x lengths), "
        "signature-bearing P2PK/P2PKH/multisig spends in all wrappers with every signature/pubkey encoding variant and hash type, CLTV/CSV "
        "boundary grids, and random scripts. Non-trivial: the reference executed at least one non-push opcode or a dispatch rule "
        "(P2SH / witness / cleanstack / push-only) decided the case; distinct by (scripts, witness, flags, context).")
ASSUMPTIONS = [
    "consensus = vmon/refs/script.py, a re-implementation of Bitcoin Core 0.14-0.16 interpreter.cpp; it must reproduce all 1,205 script_tests.json "
    "cases including the error code and all 200 tx_valid/tx_invalid cases on every run, else the run is inconclusive",
    "only success/failure (and the final stack of single-script evaluation) is compared, never ScriptError codes",
    "flag sets are restricted to those Core permits together (WITNESS implies P2SH; CLEANSTACK implies P2SH and WITNESS)",
    "a non-ScriptError exception from pycoin counts as 'did not succeed'; it is a violation only where consensus succeeds",
    "single-script evaluation with sigversion BASE strips MINIMALIF / WITNESS_PUBKEYTYPE before calling BitcoinVM, as pycoin's own dispatcher does",
]
EXPLANATION = "pycoin succeeds <=> reference succeeds, and equal final stacks for single-script evaluation"
TIMEOUT = {"quick": 900, "thorough": 4 * 3600}


def txser_bytes(tx):
    from vmon.refs import txser
    return txser.serialize(tx)


def data_dir(spec):
    return os.path.join(spec["repo"], "tests", "btc", "data")


def plan(tier, seed):
    q = tier == "quick"
    mult = 1 if q else 30
    shards = [{"kind": "fixed"}]
    for i in range(3 if q else 32):
        shards.append({"kind": "mut", "n": 7000 * (1 if q else 8)})
    for i in range(3 if q else 16):
        shards.append({"kind": "opm", "per": 26 if q else 450, "part": i, "parts": 3 if q else 16})
    for i in range(5 if q else 40):
        shards.append({"kind": "p2pk", "n": 800 if q else 9000})
    for i in range(2 if q else 24):
        shards.append({"kind": "multisig", "n": 220 if q else 2500})
    for i in range(1 if q else 4):
        shards.append({"kind": "lock_rand", "n_lock": 4000 * mult, "n_rand": 6000 * mult})
        shards.append({"kind": "lock_rand", "n_lock": 1000 * mult, "n_rand": 9000 * mult})
    shards.append({"kind": "suite", "label": "suite"})
    # the same signature-bearing workload with the pure-Python arithmetic backend, and with other networks created first
    shards.append({"kind": "p2pk", "n": 120 if q else 2500, "env": {"PYCOIN_NATIVE": "none"}, "label": "p2pk-pure"})
    shards.append({"kind": "multisig", "n": 40 if q else 800, "env": {"PYCOIN_NATIVE": "none"}, "label": "multisig-pure"})
    for k, s in enumerate(shards):
        if k % 3 == 1:
            s["other_networks_first"] = True
        elif k % 3 == 2:
            s["other_networks_after"] = True
    return shards


def selftest(rec):
    # needs the vendored vectors of the tree under test
    import pycoin
    d = os.path.join(os.path.dirname(os.path.dirname(pycoin.__file__)), "tests", "btc", "data")
    from vmon.refs import sighash
    r = CT.selftest(d)
    r["sighash_checks"] = sighash.selftest()
    return r


# ---------------------------------------------------------------------------------------------------

OTHER_NETS = ["ltc", "bch", "btg", "grs", "doge", "xtn", "dash"]


class Py:
    """thin driver of the real pycoin API"""

    def __init__(self, others="none"):
        import importlib
        if others == "first":        # other coins' networks exist in the process before Bitcoin's is created
            for n in OTHER_NETS:
                importlib.import_module("pycoin.symbols." + n)
        from pycoin.symbols.btc import network
        if others == "after":
            for n in OTHER_NETS:
                importlib.import_module("pycoin.symbols." + n)
        from pycoin.coins.SolutionChecker import ScriptError
        from pycoin.satoshi import errno
        self.network = network
        self.Tx = network.tx
        self.ScriptError = ScriptError
        self.errname = {getattr(errno, n): n for n in dir(errno) if n.isupper() and isinstance(getattr(errno, n), int)}

    def build(self, case):
        t = case["tx"]
        Tx = self.Tx
        ins = []
        for i in t["ins"]:
            ti = Tx.TxIn(i["prev"], i["index"], i["script"], i["sequence"])
            ti.witness = list(i["witness"])
            ins.append(ti)
        outs = [Tx.TxOut(o["value"], o["script"]) for o in t["outs"]]
        unspents = [Tx.TxOut(case["amount"] if k == case["n_in"] else 0, case["spk"] if k == case["n_in"] else b"") for k in range(len(ins))]
        return Tx(t["version"], ins, outs, t["lock_time"], unspents)

    def code(self, e):
        return self.errname.get(e.error_code(), "ERR") if isinstance(e, self.ScriptError) else "CRASH:" + type(e).__name__

    def spend(self, case, tb=None):
        tx = self.build(case)
        try:
            tx.check_solution(case["n_in"], flags=case["flags"], traceback_f=tb)
            return "OK", None
        except self.ScriptError as e:
            return self.code(e), None
        except RecursionError as e:
            return "CRASH:RecursionError", None
        except Exception as e:
            return self.code(e), None

    def eval(self, case, tb=None):
        tx = self.build(case)
        sc = tx.SolutionChecker(tx)
        ctx = sc.tx_context_for_idx(0)
        flags = case["flags"]
        if case["sv"] == 0:
            flags &= ~(RS.MINIMALIF | RS.WITNESS_PUBKEYTYPE)
            sighash_f = sc._make_sighash_f(0)
        else:
            sighash_f = sc._make_witness_sighash_f(0)
        try:
            vm = sc.VM(case["script"], ctx, sighash_f, flags, initial_stack=[bytes(x) for x in case["stack"]])
            vm.is_solution_script = False
            vm.traceback_f = tb
            st = vm.eval_script()
            return "OK", [bytes(x) for x in st]
        except self.ScriptError as e:
            return self.code(e), None
        except Exception as e:
            return self.code(e), None


def ref_run(case, trace=None):
    tx, n = case["tx"], case["n_in"]
    chk = RS.TxChecker(tx, n, case["amount"])
    if case["k"] == "spend":
        i = tx["ins"][n]
        return RS.result_of(RS.verify_script, i["script"], case["spk"], i["witness"], case["flags"], chk, trace), None
    st = [bytes(x) for x in case["stack"]]
    r = RS.result_of(RS.eval_script, st, case["script"], case["flags"], chk, case["sv"], trace, "eval")
    return r, (st if r == "OK" else None)


OPNAME = {}
for _n, _v in RS.OP.items():
    OPNAME.setdefault(_v, _n)


def opname(op):
    if op is None:
        return "-"
    if op <= 0x4b:
        return "PUSH"
    return OPNAME.get(op, "OP%02x" % op)


def nontrivial(case, ref_code, trace):
    if any(t[2] > 0x60 for t in trace):
        return True
    return ref_code in ("SIG_PUSHONLY", "CLEANSTACK", "WITNESS_MALLEATED", "WITNESS_MALLEATED_P2SH", "WITNESS_UNEXPECTED",
                        "WITNESS_PROGRAM_MISMATCH", "WITNESS_PROGRAM_WRONG_LENGTH", "WITNESS_PROGRAM_WITNESS_EMPTY",
                        "DISCOURAGE_UPGRADABLE_WITNESS_PROGRAM")


def sig_tags(stack_at_fail, opcode, case):
    """predicates over the witness of a CHECKSIG-family divergence (used in mechanism keys)"""
    tags = []
    if opcode not in (0xac, 0xad, 0xae, 0xaf) or not stack_at_fail:
        return tags
    items = stack_at_fail[-25:]
    sigs = [x for x in items if len(x) >= 1 and x[:1] == b"\x30"]
    keys = [x for x in items if len(x) in (33, 65) and x[:1] in (b"\x02", b"\x03", b"\x04", b"\x06", b"\x07")]
    if any(len(x) == 0 for x in items):
        tags.append("emptyitem")
    for s in sigs:
        if not RS.is_valid_signature_encoding(s):
            tags.append("nonstrict_der")
            if RS.parse_der_lax(s[:-1]) is None:
                tags.append("lax_unparsable")
            break
    for s in sigs:
        rs = RS.parse_der_lax(s[:-1])
        if rs and rs[1] > RS.SECP256K1.n // 2:
            tags.append("high_s")
            break
    if any(len(x) in (33, 65) and x[:1] in (b"\x06", b"\x07") for x in items):
        tags.append("hybrid_key")
    for k in items:
        if len(k) in (33, 65) and RS.parse_pubkey(k) is None and k[:1] in (b"\x02", b"\x03", b"\x04", b"\x06", b"\x07"):
            tags.append("unusable_key")
            break
    if any(len(x) in (33, 65) and x[:1] not in (b"\x02", b"\x03", b"\x04", b"\x06", b"\x07", b"\x30") for x in items):
        tags.append("odd_prefix_key")
    return tags


def classify(case, ref_code, py_code, ref_trace, py_trace, ref_stack=None, py_stack=None):
    if ref_code == "OK" and py_code == "OK":
        return "stack_differs." + opname(ref_trace[-1][2] if ref_trace else None)
    if ref_code != "OK" and py_code == "OK":
        last = ref_trace[-1] if ref_trace else None
        post = ref_code in ("EVAL_FALSE", "CLEANSTACK", "UNBALANCED_CONDITIONAL", "SIG_PUSHONLY", "SCRIPT_SIZE") or ref_code.startswith("WITNESS")
        op = None if (post and ref_code != "UNBALANCED_CONDITIONAL") else (last[2] if last else None)
        key = "accepts.%s.%s" % (ref_code, opname(op))
        tags = sig_tags(last[4] if last else [], last[2] if last else None, case)
        if ref_code == "EVAL_FALSE" and last is not None:
            # which instruction produced the false value? look for the last CHECKSIG-family op in the trace
            for t in reversed(ref_trace):
                if t[2] in (0xac, 0xad, 0xae, 0xaf):
                    tags = sig_tags(t[4], t[2], case)
                    key += "." + opname(t[2])
                    break
        return key + ("." + "+".join(tags) if tags else "")
    # ref OK, pycoin failed
    last = py_trace[-1] if py_trace else None
    op = last[0] if last else None
    key = "rejects.%s.%s" % (py_code.replace("CRASH:", "crash_"), opname(op))
    tags = sig_tags(last[2] if last else [], op, case)
    return key + ("." + "+".join(tags) if tags else "")


class Monitor:
    def __init__(self, rec, others="none"):
        self.rec = rec
        self.py = Py(others)
        self.crash_on_invalid = {}

    def py_trace(self, case):
        trace = []

        def tb(opcode, data, pc, vm):
            trace.append((opcode, pc, [bytes(x) for x in vm.stack], len(vm.altstack)))
            return None
        try:
            if case["k"] == "spend":
                self.py.spend(case, tb)
            else:
                self.py.eval(case, tb)
        except Exception:
            pass
        return trace

    def run_multi(self, case):
        """every input of one transaction: fresh checker per input (Tx.check_solution) and ONE checker object for all inputs,
        forward and backward; each verdict must equal the consensus verdict for that input"""
        rec = self.rec
        tx, flags = case["tx"], case["flags"]
        n = len(tx["ins"])
        ref = []
        for i in range(n):
            chk = RS.TxChecker(tx, i, case["amounts"][i])
            ref.append(RS.result_of(RS.verify_script, tx["ins"][i]["script"], case["spks"][i], tx["ins"][i]["witness"], flags, chk) == "OK")
        Tx = self.py.Tx
        ins = []
        for i in tx["ins"]:
            ti = Tx.TxIn(i["prev"], i["index"], i["script"], i["sequence"])
            ti.witness = list(i["witness"])
            ins.append(ti)
        ptx = Tx(tx["version"], ins, [Tx.TxOut(o["value"], o["script"]) for o in tx["outs"]], tx["lock_time"],
                 [Tx.TxOut(a, s) for a, s in zip(case["amounts"], case["spks"])])
        rec.case(("multi", txser_bytes(tx), flags), nontrivial=True)
        rec.ev("src:multi")

        def verdict(fn):
            try:
                fn()
                return True
            except self.py.ScriptError:
                return False
            except Exception as e:
                return "EXC:" + type(e).__name__
        fresh = [verdict(lambda i=i: ptx.check_solution(i, flags=flags)) for i in range(n)]
        rec.ev("Tx.check_solution", n)
        results = {"fresh": fresh}
        for name, order in (("shared_forward", list(range(n))), ("shared_backward", list(range(n - 1, -1, -1)))):
            sc = ptx.SolutionChecker(ptx)
            got = {}
            for i in order:
                got[i] = verdict(lambda i=i: sc.check_solution(sc.tx_context_for_idx(i), flags=flags))
            results[name] = [got[i] for i in range(n)]
            rec.ev("SolutionChecker.check_solution(shared instance)", n)
        for name, got in results.items():
            if got != ref:
                bad = [i for i in range(n) if got[i] != ref[i]]
                direction = "accepts" if any(got[i] is True for i in bad) else "rejects"
                rec.violation("multi.%s.%s" % (direction, name), case, {name: got}, {"consensus": ref})
                return False
        return True

    def run(self, case):
        if case["k"] == "multi":
            return self.run_multi(case)
        rec = self.rec
        rtrace = []
        ref_code, ref_stack = ref_run(case, rtrace)
        if case["k"] == "spend":
            rec.ev("Tx.check_solution")
            py_code, py_stack = self.py.spend(case)
        else:
            rec.ev("BitcoinVM.eval_script")
            py_code, py_stack = self.py.eval(case)
        rec.ev("src:" + case["src"].split(".")[0])
        key = (case["k"], case["tx"]["ins"][case["n_in"]]["script"], case["spk"], tuple(case["tx"]["ins"][case["n_in"]]["witness"]),
               case["flags"], case.get("script"), tuple(case.get("stack") or ()), case.get("sv"), case["tx"]["version"],
               case["tx"]["lock_time"], case["tx"]["ins"][case["n_in"]]["sequence"], case["amount"])
        rec.case(key, nontrivial=nontrivial(case, ref_code, rtrace))
        rec.ev("ref:" + ("OK" if ref_code == "OK" else "FAIL"))
        ok_ref, ok_py = ref_code == "OK", py_code == "OK"
        if ok_ref == ok_py and (not ok_ref or case["k"] == "spend" or ref_stack == py_stack):
            if py_code.startswith("CRASH"):
                rec.ev("crash_on_invalid:" + py_code)
            return True
        ptrace = self.py_trace(case)
        mech = classify(case, ref_code, py_code, rtrace, ptrace, ref_stack, py_stack)
        rec.violation(mech, case, {"pycoin": py_code, "stack": py_stack}, {"consensus": ref_code, "stack": ref_stack},
                      detail={"ref_last": [opname(t[2]) for t in rtrace[-4:]], "py_last": [opname(t[0]) for t in ptrace[-4:]]})
        return False


def run_shard(spec, rec):
    if spec["kind"] == "suite":
        from vmon import suite
        rec.require("suite.check_solution")
        suite.run_suite(spec, rec, ["suite.check_solution"], "suite.check_solution")
        return
    rec.require("Tx.check_solution")
    mon = Monitor(rec, "first" if spec.get("other_networks_first") else "after" if spec.get("other_networks_after") else "none")
    rec.ev("process_config:" + ("pure" if (spec.get("env") or {}).get("PYCOIN_NATIVE") == "none" else "default") +
           ("+others_first" if spec.get("other_networks_first") else "+others_after" if spec.get("other_networks_after") else ""))
    rng = shard_rng(spec["seed"], PROPERTY, spec["tier"], spec["shard"])
    kind = spec["kind"]
    dd = data_dir(spec)
    keys = G.Keys()
    sampled = [0]

    def feed(gen, every=500):
        for case in gen:
            mon.run(case)
            sampled[0] += 1
            if sampled[0] % every == 1:
                rec.sample(_brief(case))

    if kind == "fixed":
        feed(G.corpus_cases(dd), 400)
        feed(G.limit_cases(rng), 100)
        feed(G.witness_dispatch_cases(rng), 800)
        feed(G.opcode_matrix(rng, range(256), 4), 400)
        feed(G.SigGen(rng, keys).p2pk_like(150), 100)
        feed(G.boundary_s_cases(rng, keys), 300)
        feed(G.nullfail_matrix(rng, keys), 500)
        feed(G.tiny_sig_matrix(rng, keys), 100)
        feed(G.two_sigops_cases(rng, keys, 160), 80)
        feed(G.multi_input_cases(rng, keys, 120), 60)
        feed(G.embedded_sig_length_cases(rng, keys), 60)
    elif kind == "mut":
        feed(G.corpus_mutations(rng, dd, spec["n"]), 3000)
    elif kind == "opm":
        ops = [o for o in range(256) if o % spec["parts"] == spec["part"]]
        feed(G.opcode_matrix(rng, ops, spec["per"]), 1500)
    elif kind == "p2pk":
        feed(G.SigGen(rng, keys).p2pk_like(spec["n"]), 400)
    elif kind == "multisig":
        feed(G.SigGen(rng, keys).multisig(spec["n"]), 150)
        feed(G.two_sigops_cases(rng, keys, spec["n"] // 3), 150)
    elif kind == "lock_rand":
        feed(G.locktime_cases(rng, spec["n_lock"]), 2500)
        feed(G.locktime_eval_cases(rng, spec["n_lock"] // 4), 1500)
        feed(G.random_scripts(rng, spec["n_rand"]), 4000)
        feed(G.cond_tree_cases(rng, spec["n_rand"] // 2), 2500)
        feed(G.arith_chain_cases(rng, spec["n_rand"] // 2), 2500)
        feed(G.witness_dispatch_cases(rng), 1500)


def _brief(case):
    if case["k"] == "multi":
        return {"k": "multi", "inputs": len(case["tx"]["ins"]), "outputs": len(case["tx"]["outs"]), "flags": case["flags"], "src": case["src"]}
    i = case["tx"]["ins"][case["n_in"]]
    if case["k"] == "eval":
        return {"k": "eval", "script": case["script"][:80], "stack": [x[:20] for x in case["stack"][:4]], "flags": case["flags"], "sv": case["sv"], "src": case["src"]}
    return {"k": "spend", "scriptSig": i["script"][:80], "scriptPubKey": case["spk"][:80], "witness": [w[:40] for w in i["witness"][:4]],
            "flags": case["flags"], "src": case["src"]}


def replay_case(case, rec):
    mon = Monitor(rec)
    ok = mon.run(case)
    if not ok and case["k"] != "multi":
        rt = []
        ref_run(case, rt)
        pt = mon.py_trace(case)
        rec.note("reference trace tail: %s" % [(p, hex(pc), opname(op), ex, [s.hex()[:24] for s in st[-4:]]) for p, pc, op, ex, st, _ in rt[-6:]])
        rec.note("pycoin trace tail: %s" % [(opname(op), hex(pc), [s.hex()[:24] for s in st[-4:]]) for op, pc, st, _ in pt[-6:]])
