"""C03 — script evaluation agrees with Bitcoin consensus for every script and flag set."""
import collections
import hashlib
import os

from vmon.probe import shard_rng
from vmon.refs import script as RS
from vmon.refs import coretext as CT
from vmon.gen import scriptgen as G

PROPERTY = "C03"
LEVEL = "exploration"
TECHNIQUE = "differential runtime monitor: pycoin check_solution / BitcoinVM.eval_script vs a reference port of Bitcoin Core's interpreter, with per-instruction trace taps for localisation"
RULE = ("spend cases (scriptSig, scriptPubKey, witness, flags, tx context) and eval cases (script, initial stack, flags, sigversion) from: the "
        "1,205+200 Core vectors, their mutations (flag toggles, operand/opcode substitution, deletion/duplication, truncation, re-wrapping into "
        "P2SH/P2WSH/P2SH-P2WSH), an opcode x operand-class matrix over all 256 opcode values in executed and dead positions, limit probes "
        "(script size, op count, stack size, push size, truncated pushes, nesting), witness-program dispatch (versions 0-16 x lengths), "
        "signature-bearing P2PK/P2PKH/multisig spends in all wrappers with every signature/pubkey encoding variant and hash type, CLTV/CSV "
        "boundary grids, minimal-push and DER-form x single-flag matrices, size limits met through whole spends (scriptSig / scriptPubKey / redeem "
        "script / nested witness script and items), random scripts bare and wrapped; a flag x stage matrix (fragments exercising the rule of "
        "each flag, placed with their operators in the scriptSig, the scriptPubKey, a redeem script and a witness script, inputs pushed by "
        "the stage itself or fed by the previous one, under the dispatch flags alone, plus each single flag, everything, everything but the "
        "rule); multi-input transactions mixing spends that fail part-way in every stage, clean-slate detectors, same-script twins and "
        "inputs / calls the library refuses, on one checker object in both orders with each context used twice; one run of more than 2**16 "
        "spends through a single checker object. Every 16th agreeing spend and every multi-input "
        "transaction is asked again through Tx.is_solution_ok and Tx.bad_solution_count (also without a flags argument when the flag set is "
        "pycoin's default). Non-trivial: the reference executed at least one non-push opcode or a dispatch rule "
        "(P2SH / witness / cleanstack / push-only) decided the case; distinct by (scripts, witness, flags, context).")
ASSUMPTIONS = [
    "consensus = vmon/refs/script.py, a re-implementation of Bitcoin Core 0.14-0.16 interpreter.cpp; it must reproduce all 1,205 script_tests.json "
    "cases including the error code and all 200 tx_valid/tx_invalid cases on every run, else the run is inconclusive",
    "only success/failure (and the final stack of single-script evaluation) is compared, never ScriptError codes",
    "flag sets are restricted to those Core permits together (WITNESS implies P2SH; CLEANSTACK implies P2SH and WITNESS)",
    "a non-ScriptError exception from pycoin counts as 'did not succeed'; it is a violation only where consensus succeeds",
    "single-script evaluation with sigversion BASE strips MINIMALIF / WITNESS_PUBKEYTYPE before calling BitcoinVM, as pycoin's own dispatcher does",
    "verification flags are handed to pycoin by name (pycoin.satoshi.flags.VERIFY_<name>), not by bit position; the signature-hash callback a "
    "stand-alone BitcoinVM needs is the one pycoin's public puzzle_and_solution_iterator yields for a script of that kind",
    "calls outside the domain (an input whose witness holds a non-bytes item, an input index that does not exist, flags that are not an "
    "integer, no context) are never judged themselves; only the judged verdicts that follow them on the same objects are",
    "Tx.is_solution_ok is compared by truthiness, Tx.bad_solution_count as a number; inputs of a spend case other than the one under test "
    "spend an empty scriptPubKey of value 0 and are judged by the reference like any other",
]
EXPLANATION = "pycoin succeeds <=> reference succeeds, and equal final stacks for single-script evaluation"
TIMEOUT = {"quick": 900, "thorough": 4 * 3600}


def txser_bytes(tx):
    from vmon.refs import txser
    return txser.serialize(tx)


def data_dir(spec):
    return os.path.join(spec["repo"], "tests", "btc", "data")


def plan(tier, seed):
    q = tier == "quick"
    mult = 1 if q else 30
    shards = [{"kind": "fixed"}]
    for i in range(3 if q else 32):
        shards.append({"kind": "mut", "n": 7000 * (1 if q else 8)})
    for i in range(3 if q else 16):
        shards.append({"kind": "opm", "per": 26 if q else 450, "part": i, "parts": 3 if q else 16})
    for i in range(5 if q else 40):
        shards.append({"kind": "p2pk", "n": 800 if q else 9000})
    for i in range(2 if q else 24):
        shards.append({"kind": "multisig", "n": 220 if q else 2500})
    for i in range(1 if q else 4):
        shards.append({"kind": "lock_rand", "n_lock": 4000 * mult, "n_rand": 6000 * mult})
        shards.append({"kind": "lock_rand", "n_lock": 1000 * mult, "n_rand": 9000 * mult})
    shards.append({"kind": "suite", "label": "suite"})
    # the same signature-bearing workload with the pure-Python arithmetic backend, and with other networks created first
    shards.append({"kind": "p2pk", "n": 120 if q else 2500, "env": {"PYCOIN_NATIVE": "none"}, "label": "p2pk-pure"})
    shards.append({"kind": "multisig", "n": 40 if q else 800, "env": {"PYCOIN_NATIVE": "none"}, "label": "multisig-pure"})
    # the deterministic signature matrices that do not fit into the "fixed" shard's time (appended: earlier shards keep their streams)
    shards.append({"kind": "sigmatrix", "label": "sigmatrix"})
    # every flag's rule in every evaluation stage (operator-bearing scriptSig / scriptPubKey / redeem script / witness script), and
    # spends that fail part-way followed by other spends on the same checker object
    shards.append({"kind": "flagstage", "n_multi": 160 if q else 2500, "label": "flagstage"})
    if not q:
        for i in range(3):
            shards.append({"kind": "flagstage", "n_multi": 2500, "label": "flagstage"})
        shards.append({"kind": "flagstage", "n_multi": 300, "env": {"PYCOIN_NATIVE": "none"}, "label": "flagstage-pure"})
    # more than 2**16 spends through ONE checker object in one process
    shards.append({"kind": "longrun", "n": (1 << 16) + 100 if q else (1 << 17) + 100, "label": "longrun"})
    for k, s in enumerate(shards):
        if k % 3 == 1:
            s["other_networks_first"] = True
        elif k % 3 == 2:
            s["other_networks_after"] = True
    return shards


def selftest(rec):
    # needs the vendored vectors of the tree under test
    import pycoin
    d = os.path.join(os.path.dirname(os.path.dirname(pycoin.__file__)), "tests", "btc", "data")
    from vmon.refs import sighash
    r = CT.selftest(d)
    r["sighash_checks"] = sighash.selftest()
    return r


# ---------------------------------------------------------------------------------------------------

ENTRY_POINTS_EVERY = 16          # every n-th agreeing spend case is also asked through Tx.is_solution_ok / Tx.bad_solution_count
ENTRY_POINT_SOURCES = ("corpus.tx",)
OTHER_NETS = ["ltc", "bch", "btg", "grs", "doge", "xtn", "dash"]
FLAG_BITS = sorted((v, n) for n, v in RS.FLAG_NAMES.items() if v)
P2WSH_TRUE = b"\x00\x20" + hashlib.sha256(b"\x51").digest()


class Py:
    """thin driver of the real pycoin API"""

    def __init__(self, others="none"):
        import importlib
        if others == "first":        # other coins' networks exist in the process before Bitcoin's is created
            for n in OTHER_NETS:
                importlib.import_module("pycoin.symbols." + n)
        from pycoin.symbols.btc import network
        if others == "after":
            for n in OTHER_NETS:
                importlib.import_module("pycoin.symbols." + n)
        from pycoin.coins.SolutionChecker import ScriptError
        from pycoin.satoshi import errno
        from pycoin.satoshi import flags as pyflags
        # verification flags are handed over by NAME (VERIFY_<name>), never by the reference's bit positions
        self._flag_bits = [(bit, getattr(pyflags, "VERIFY_" + name)) for bit, name in FLAG_BITS]
        self._flag_cache = {}
        # the flag set pycoin applies when the caller names none (its declared DEFAULT_FLAGS), in the reference's bits; None if unknown
        d = getattr(getattr(network.tx, "SolutionChecker", None), "DEFAULT_FLAGS", None)
        self.default_flags = None
        if isinstance(d, int) and not d & ~sum(theirs for _, theirs in self._flag_bits):
            self.default_flags = sum(ours for ours, theirs in self._flag_bits if d & theirs)
        self.network = network
        self.Tx = network.tx
        self.ScriptError = ScriptError
        self.errname = {getattr(errno, n): n for n in dir(errno) if n.isupper() and isinstance(getattr(errno, n), int)}

    def build(self, case):
        t = case["tx"]
        Tx = self.Tx
        ins = []
        for i in t["ins"]:
            ti = Tx.TxIn(i["prev"], i["index"], i["script"], i["sequence"])
            ti.witness = list(i["witness"])
            ins.append(ti)
        outs = [Tx.TxOut(o["value"], o["script"]) for o in t["outs"]]
        unspents = [Tx.TxOut(case["amount"] if k == case["n_in"] else 0, case["spk"] if k == case["n_in"] else b"") for k in range(len(ins))]
        return Tx(t["version"], ins, outs, t["lock_time"], unspents)

    def flags(self, f):
        r = self._flag_cache.get(f)
        if r is None:
            r = 0
            for ours, theirs in self._flag_bits:
                if f & ours:
                    r |= theirs
            self._flag_cache[f] = r
        return r

    def code(self, e):
        # only a label for mechanism keys; verdicts never depend on it
        if not isinstance(e, self.ScriptError):
            return "CRASH:" + type(e).__name__
        try:
            return self.errname.get(e.error_code(), "ERR")
        except Exception:
            return "ERR"

    def spend(self, case, tb=None):
        tx = self.build(case)
        try:
            tx.check_solution(case["n_in"], flags=self.flags(case["flags"]), traceback_f=tb)
            return "OK", None
        except self.ScriptError as e:
            return self.code(e), None
        except RecursionError as e:
            return "CRASH:RecursionError", None
        except Exception as e:
            return self.code(e), None

    def sighash_f(self, case, sc):
        """the signature-hash callback pycoin's own dispatcher hands to the VM for a script of this kind, taken from the public
        puzzle_and_solution_iterator: the first stage (scriptPubKey) carries the legacy one, the last stage of a P2WSH spend the
        BIP143 one. Both are bound to the case's transaction, input 0 and amount."""
        if case["sv"] == 0:
            for t in sc.puzzle_and_solution_iterator(sc.tx_context_for_idx(0), flags=0):
                return t[3]
        t2 = dict(case["tx"])
        t2["ins"] = [dict(i) for i in t2["ins"]]
        t2["ins"][0]["script"], t2["ins"][0]["witness"] = b"", [b"\x51"]
        tx = self.build(dict(case, tx=t2, spk=P2WSH_TRUE))
        sc = tx.SolutionChecker(tx)
        last = None
        for last in sc.puzzle_and_solution_iterator(sc.tx_context_for_idx(0), flags=self.flags(RS.P2SH | RS.WITNESS)):
            pass
        return last[3]

    def eval(self, case, tb=None):
        tx = self.build(case)
        sc = tx.SolutionChecker(tx)
        ctx = sc.tx_context_for_idx(0)
        flags = case["flags"]
        if case["sv"] == 0:
            flags &= ~(RS.MINIMALIF | RS.WITNESS_PUBKEYTYPE)
        try:
            vm = sc.VM(case["script"], ctx, self.sighash_f(case, sc), self.flags(flags), initial_stack=[bytes(x) for x in case["stack"]],
                       traceback_f=tb)
            vm.is_solution_script = False
            st = vm.eval_script()
            return "OK", [bytes(x) for x in st]
        except self.ScriptError as e:
            return self.code(e), None
        except Exception as e:
            return self.code(e), None


def ref_run(case, trace=None):
    tx, n = case["tx"], case["n_in"]
    chk = RS.TxChecker(tx, n, case["amount"])
    if case["k"] == "spend":
        i = tx["ins"][n]
        return RS.result_of(RS.verify_script, i["script"], case["spk"], i["witness"], case["flags"], chk, trace), None
    st = [bytes(x) for x in case["stack"]]
    r = RS.result_of(RS.eval_script, st, case["script"], case["flags"], chk, case["sv"], trace, "eval")
    return r, (st if r == "OK" else None)


OPNAME = {}
for _n, _v in RS.OP.items():
    OPNAME.setdefault(_v, _n)


def opname(op):
    if op is None:
        return "-"
    if op <= 0x4b:
        return "PUSH"
    return OPNAME.get(op, "OP%02x" % op)


def nontrivial(case, ref_code, trace):
    if any(t[2] > 0x60 for t in trace):
        return True
    return ref_code in ("SIG_PUSHONLY", "CLEANSTACK", "WITNESS_MALLEATED", "WITNESS_MALLEATED_P2SH", "WITNESS_UNEXPECTED",
                        "WITNESS_PROGRAM_MISMATCH", "WITNESS_PROGRAM_WRONG_LENGTH", "WITNESS_PROGRAM_WITNESS_EMPTY",
                        "DISCOURAGE_UPGRADABLE_WITNESS_PROGRAM")


def sig_tags(stack_at_fail, opcode, case):
    """predicates over the witness of a CHECKSIG-family divergence (used in mechanism keys)"""
    tags = []
    if opcode not in (0xac, 0xad, 0xae, 0xaf) or not stack_at_fail:
        return tags
    items = stack_at_fail[-25:]
    sigs = [x for x in items if len(x) >= 1 and x[:1] == b"\x30"]
    keys = [x for x in items if len(x) in (33, 65) and x[:1] in (b"\x02", b"\x03", b"\x04", b"\x06", b"\x07")]
    if any(len(x) == 0 for x in items):
        tags.append("emptyitem")
    for s in sigs:
        if not RS.is_valid_signature_encoding(s):
            tags.append("nonstrict_der")
            if RS.parse_der_lax(s[:-1]) is None:
                tags.append("lax_unparsable")
            break
    for s in sigs:
        rs = RS.parse_der_lax(s[:-1])
        if rs and rs[1] > RS.SECP256K1.n // 2:
            tags.append("high_s")
            break
    if any(len(x) in (33, 65) and x[:1] in (b"\x06", b"\x07") for x in items):
        tags.append("hybrid_key")
    for k in items:
        if len(k) in (33, 65) and RS.parse_pubkey(k) is None and k[:1] in (b"\x02", b"\x03", b"\x04", b"\x06", b"\x07"):
            tags.append("unusable_key")
            break
    if any(len(x) in (33, 65) and x[:1] not in (b"\x02", b"\x03", b"\x04", b"\x06", b"\x07", b"\x30") for x in items):
        tags.append("odd_prefix_key")
    return tags


def classify(case, ref_code, py_code, ref_trace, py_trace, ref_stack=None, py_stack=None):
    if ref_code == "OK" and py_code == "OK":
        return "stack_differs." + opname(ref_trace[-1][2] if ref_trace else None)
    if ref_code != "OK" and py_code == "OK":
        last = ref_trace[-1] if ref_trace else None
        post = ref_code in ("EVAL_FALSE", "CLEANSTACK", "UNBALANCED_CONDITIONAL", "SIG_PUSHONLY", "SCRIPT_SIZE") or ref_code.startswith("WITNESS")
        op = None if (post and ref_code != "UNBALANCED_CONDITIONAL") else (last[2] if last else None)
        key = "accepts.%s.%s" % (ref_code, opname(op))
        tags = sig_tags(last[4] if last else [], last[2] if last else None, case)
        if ref_code == "EVAL_FALSE" and last is not None:
            # which instruction produced the false value? look for the last CHECKSIG-family op in the trace
            for t in reversed(ref_trace):
                if t[2] in (0xac, 0xad, 0xae, 0xaf):
                    tags = sig_tags(t[4], t[2], case)
                    key += "." + opname(t[2])
                    break
        return key + ("." + "+".join(tags) if tags else "")
    # ref OK, pycoin failed
    last = py_trace[-1] if py_trace else None
    op = last[0] if last else None
    key = "rejects.%s.%s" % (py_code.replace("CRASH:", "crash_"), opname(op))
    tags = sig_tags(last[2] if last else [], op, case)
    return key + ("." + "+".join(tags) if tags else "")


class Monitor:
    def __init__(self, rec, others="none"):
        self.rec = rec
        self.py = Py(others)
        self.crash_on_invalid = {}
        self.tally = collections.Counter()       # clause counters, flushed into rec at the end of the shard
        self.opm_seen = set()                    # (opcode, position) pairs of the covering part of the opcode matrix
        self.n_spend = 0
        self.entry_every = ENTRY_POINTS_EVERY

    def py_trace(self, case):
        trace = []

        def tb(opcode, data, pc, vm):
            trace.append((opcode, pc, [bytes(x) for x in vm.stack], len(vm.altstack)))
            return None
        try:
            if case["k"] == "spend":
                self.py.spend(case, tb)
            else:
                self.py.eval(case, tb)
        except Exception:
            pass
        return trace

    def run_multi(self, case):
        """every input of one transaction: fresh checker per input (Tx.check_solution) and ONE checker object for all inputs,
        forward and backward, with the per-input context objects made up front and each used twice; each verdict must equal the
        consensus verdict for that input, whatever the calls before it ended in (success, ScriptError part-way through any stage,
        another exception). Calls the library refuses for other reasons (an input whose witness holds a non-bytes item, an input
        index that does not exist, flags that are not a number, no context) are interleaved and never judged themselves."""
        rec = self.rec
        tx, flags = case["tx"], case["flags"]
        n = len(tx["ins"])
        poison = {int(i): kind for i, kind in case.get("poison") or []}
        ref, failed_in = [], []
        for i in range(n):
            chk = RS.TxChecker(tx, i, case["amounts"][i])
            tr = []
            r = RS.result_of(RS.verify_script, tx["ins"][i]["script"], case["spks"][i], tx["ins"][i]["witness"], flags, chk, tr)
            ref.append(r == "OK")
            failed_in.append(None if r == "OK" else (tr[-1][0] if tr else "before"))
        Tx = self.py.Tx
        ins = []
        for k, i in enumerate(tx["ins"]):
            ti = Tx.TxIn(i["prev"], i["index"], i["script"], i["sequence"])
            ti.witness = list(i["witness"])
            if k in poison:
                ti.witness = {"wit_none": [None, b"\x51"], "wit_str": ["51", b"\x51"], "wit_int": [b"\x01", 81],
                              "wit_scalar": [1.5, b"\x51"]}[poison[k]]
            ins.append(ti)
        ptx = Tx(tx["version"], ins, [Tx.TxOut(o["value"], o["script"]) for o in tx["outs"]], tx["lock_time"],
                 [Tx.TxOut(a, s) for a, s in zip(case["amounts"], case["spks"])])
        rec.case(("multi", txser_bytes(tx), flags, tuple(sorted(poison.items()))), nontrivial=True)
        rec.ev("src:multi")
        last = [None]           # how the previous call on the shared objects ended: "ok" / "script_error:<stage>" / "other"

        def verdict(fn, i=None):
            # True / False; an exception that is not a ScriptError is "did not succeed" (tallied), as for single spends
            try:
                fn()
                out, how = True, "ok"
            except self.py.ScriptError:
                out, how = False, "script_error"
            except Exception as e:
                if i is None or i not in poison:
                    rec.ev("crash_on_invalid:CRASH:" + type(e).__name__)
                out, how = False, "other"
            if i is not None and i not in poison and last[0] is not None:
                t = self.tally
                if last[0].startswith("script_error"):
                    t["errpath.judged_after_script_error"] += 1
                    t["errpath.judged_after_failure_in:" + last[0].split(":")[1]] += 1
                    if ref[i]:
                        t["errpath.valid_spend_after_script_error"] += 1
                elif last[0] == "other":
                    t["errpath.judged_after_other_exception"] += 1
                    if ref[i]:
                        t["errpath.valid_spend_after_other_exception"] += 1
            if i is not None:
                last[0] = how if how != "script_error" else "script_error:" + str(failed_in[i] or "unknown")
            return out

        def refused(sc, ctxs, j):
            # calls outside the domain, never judged; only what they leave behind matters
            kind = ("bad_index", "flags_str", "no_context", "flags_float")[j % 4]
            try:
                if kind == "bad_index":
                    sc.check_solution(sc.tx_context_for_idx(n + 3), flags=pf)
                elif kind == "flags_str":
                    sc.check_solution(ctxs[j % n], flags="P2SH")
                elif kind == "no_context":
                    sc.check_solution(None, flags=pf)
                else:
                    sc.check_solution(ctxs[j % n], flags=1.5)
                rec.ev("refused_call.returned:" + kind)
            except Exception:
                rec.ev("refused_call.raised:" + kind)
                last[0] = "other"
        pf = self.py.flags(flags)
        judged = [i for i in range(n) if i not in poison]
        fresh = [verdict(lambda i=i: ptx.check_solution(i, flags=pf), i) for i in range(n)]
        rec.ev("Tx.check_solution", n)
        results = {"fresh": fresh}
        interleave = case["src"] == "multi.error_path"
        for name, order in (("shared_forward", list(range(n))), ("shared_backward", list(range(n - 1, -1, -1)))):
            sc = ptx.SolutionChecker(ptx)
            ctxs = [sc.tx_context_for_idx(i) for i in range(n)]
            last[0] = None
            got, again = {}, {}
            for j, i in enumerate(order):
                if interleave and (j + len(name)) % 3 == 0:
                    refused(sc, ctxs, j + n)
                got[i] = verdict(lambda i=i: sc.check_solution(ctxs[i], flags=pf), i)
            for i in order:
                again[i] = verdict(lambda i=i: sc.check_solution(ctxs[i], flags=pf), i)
            results[name] = [got[i] for i in range(n)]
            results[name + "_again"] = [again[i] for i in range(n)]
            rec.ev("SolutionChecker.check_solution(shared instance)", 2 * n)
        for name, got in results.items():
            bad = [i for i in judged if got[i] != ref[i]]
            if bad:
                direction = "accepts" if any(got[i] is True for i in bad) else "rejects"
                rec.violation("multi.%s.%s" % (direction, name), case, {name: got, "differs_at": bad}, {"consensus": ref})
                return False
        # the caller's transaction is as it was: same scripts, same witness items, in the caller's own list objects
        for k, ti in enumerate(ins):
            if k not in poison and (bytes(ti.script) != tx["ins"][k]["script"] or [bytes(w) for w in ti.witness] != list(tx["ins"][k]["witness"])):
                self.tally["multi.caller_objects_changed"] += 1
        if poison:
            self.tally["errpath.poisoned_input_cases"] += 1
            return True
        return self.entry_points(case, ptx, ref, flags)

    def entry_points(self, case, ptx, ref, flags):
        """the other two public ways of asking the same question, on an already-agreeing transaction: Tx.is_solution_ok(i) is truthy
        exactly for the consensus-valid inputs, Tx.bad_solution_count() is the number of consensus-invalid ones. When the case's flag
        set is the one pycoin declares as its default (SolutionChecker.DEFAULT_FLAGS) the calls are also made without a flags argument."""
        rec = self.rec
        n = len(ref)
        variants = [("", {"flags": self.py.flags(flags)})]
        if flags == self.py.default_flags:
            variants.append((".default_flags", {}))
        for tag, kw in variants:
            for i in range(n):
                if case["k"] != "multi" and i != case["n_in"]:
                    continue
                try:
                    got = bool(ptx.is_solution_ok(i, **kw))
                except Exception as e:
                    rec.ev("crash_on_invalid:CRASH:" + type(e).__name__)
                    got = False
                rec.ev("Tx.is_solution_ok" + tag)
                if got != ref[i]:
                    rec.violation("entry.is_solution_ok%s.%s" % (tag, "accepts" if got else "rejects"), case,
                                  {"is_solution_ok": got, "input": i}, {"consensus": ref})
                    return False
            try:
                cnt = ptx.bad_solution_count(**kw)
            except Exception as e:
                rec.ev("crash_on_invalid:CRASH:" + type(e).__name__)
                cnt = None if all(ref) else ref.count(False)
            rec.ev("Tx.bad_solution_count" + tag)
            if cnt != ref.count(False):
                rec.violation("entry.bad_solution_count%s.%s" % (tag, "crash" if cnt is None else "low" if cnt < ref.count(False) else "high"),
                              case, {"bad_solution_count": cnt}, {"consensus": ref})
                return False
        return True

    def spend_entry_points(self, case, ref_ok):
        """consensus verdict of every input of a single-spend case as Py.build presents it (inputs other than n_in spend an
        empty scriptPubKey of value 0), then entry_points()"""
        tx, flags = case["tx"], case["flags"]
        if any(ti["prev"] == b"\0" * 32 for ti in tx["ins"]):
            return True         # a coinbase-shaped transaction has no spends to count
        ref = []
        for i, ti in enumerate(tx["ins"]):
            if i == case["n_in"]:
                ref.append(ref_ok)
            else:
                ref.append(RS.result_of(RS.verify_script, ti["script"], b"", ti["witness"], flags, RS.TxChecker(tx, i, 0)) == "OK")
        return self.entry_points(case, self.py.build(case), ref, flags)

    def count_clauses(self, case, ref_code, rtrace):
        """which rule of the statement decided this case according to the reference, which script stages ran, which flags were on"""
        t = self.tally
        flags = case["flags"]
        code = ref_code
        if code == "SIG_DER":
            on = [n for b, n in ((RS.DERSIG, "DERSIG"), (RS.LOW_S, "LOW_S"), (RS.STRICTENC, "STRICTENC")) if flags & b]
            code += "[%s]" % (on[0] if len(on) == 1 else "several")
        t["decided_by:" + code] += 1
        prev = None
        for x in rtrace:
            if x[0] != prev:
                prev = x[0]
                t["stage:" + (prev or "eval")] += 1
        if ref_code == "OK":
            for b, n in FLAG_BITS:
                if flags & b:
                    t["ok_with_flag:" + n] += 1
        opm = case.get("opm")
        if opm:
            self.opm_seen.add((opm[0], opm[1]))
        fs = case.get("fs")
        if fs:
            name, placement, rule, promise = fs
            stage = placement.split(".")[0]
            if promise is not None and promise != (ref_code == "OK"):
                # the generator promised this verdict under the bare dispatch flags: the harness contradicts itself
                self.rec.ev("inconclusive:flagstage_promise")
                self.rec.note("flag x stage fragment %s in %s: promised %s, reference says %s" % (name, placement, promise, ref_code))
            operator_ran = any(x[0] == stage and x[3] and x[2] > 0x60 for x in rtrace)
            if rule and flags & RS.FLAG_NAMES[rule] and (operator_ran or ref_code == "SIG_PUSHONLY"):
                t["flagstage:%s:%s" % (stage, rule)] += 1
                t["flagstage.%s:%s:%s" % ("ok" if ref_code == "OK" else "fail", stage, rule)] += 1
            if operator_ran:
                for b, n in FLAG_BITS:
                    if flags & b:
                        t["flagstage.operators_in:%s:with:%s" % (stage, n)] += 1

    def flush(self):
        for k, v in self.tally.items():
            self.rec.ev(k, v)
        self.tally.clear()
        if self.opm_seen:
            self.rec.ev("opmatrix.opcode_x_position", len(self.opm_seen))
            if all((op, pos) in self.opm_seen for op in range(256) for pos in ("exec", "dead_if", "dead_else")):
                self.rec.ev("opmatrix.all_256_opcodes_executed_and_dead")

    def run(self, case):
        if case["k"] == "multi":
            return self.run_multi(case)
        rec = self.rec
        rtrace = []
        ref_code, ref_stack = ref_run(case, rtrace)
        if case["k"] == "spend":
            rec.ev("Tx.check_solution")
            py_code, py_stack = self.py.spend(case)
        else:
            rec.ev("BitcoinVM.eval_script")
            py_code, py_stack = self.py.eval(case)
        rec.ev("src:" + case["src"].split(".")[0])
        key = (case["k"], case["tx"]["ins"][case["n_in"]]["script"], case["spk"], tuple(case["tx"]["ins"][case["n_in"]]["witness"]),
               case["flags"], case.get("script"), tuple(case.get("stack") or ()), case.get("sv"), case["tx"]["version"],
               case["tx"]["lock_time"], case["tx"]["ins"][case["n_in"]]["sequence"], case["amount"])
        rec.case(key, nontrivial=nontrivial(case, ref_code, rtrace))
        rec.ev("ref:" + ("OK" if ref_code == "OK" else "FAIL"))
        ok_ref, ok_py = ref_code == "OK", py_code == "OK"
        self.count_clauses(case, ref_code, rtrace)
        if ok_ref == ok_py and (not ok_ref or case["k"] == "spend" or ref_stack == py_stack):
            if py_code.startswith("CRASH"):
                rec.ev("crash_on_invalid:" + py_code)
            if case["k"] == "eval":
                if ok_ref:
                    self.tally["eval.final_stack_compared"] += 1
                return True
            self.n_spend += 1
            if self.n_spend % self.entry_every == 0 or case["src"] in ENTRY_POINT_SOURCES:
                return self.spend_entry_points(case, ok_ref)
            return True
        ptrace = self.py_trace(case)
        mech = classify(case, ref_code, py_code, rtrace, ptrace, ref_stack, py_stack)
        if case.get("fs"):
            mech += ".fragment_in_" + case["fs"][1].split(".")[0]
        rec.violation(mech, case, {"pycoin": py_code, "stack": py_stack}, {"consensus": ref_code, "stack": ref_stack},
                      detail={"ref_last": [opname(t[2]) for t in rtrace[-4:]], "py_last": [opname(t[0]) for t in ptrace[-4:]]})
        return False


def run_shard(spec, rec):
    if spec["kind"] == "suite":
        from vmon import suite
        rec.require("suite.check_solution")
        suite.run_suite(spec, rec, ["suite.check_solution"], "suite.check_solution")
        return
    rec.require("Tx.check_solution")
    mon = Monitor(rec, "first" if spec.get("other_networks_first") else "after" if spec.get("other_networks_after") else "none")
    rec.ev("process_config:" + ("pure" if (spec.get("env") or {}).get("PYCOIN_NATIVE") == "none" else "default") +
           ("+others_first" if spec.get("other_networks_first") else "+others_after" if spec.get("other_networks_after") else ""))
    rng = shard_rng(spec["seed"], PROPERTY, spec["tier"], spec["shard"])
    kind = spec["kind"]
    dd = data_dir(spec)
    keys = G.Keys()
    sampled = [0]

    def feed(gen, every=500):
        for case in gen:
            mon.run(case)
            sampled[0] += 1
            if sampled[0] % every == 1:
                rec.sample(_brief(case))

    if kind == "fixed":
        # every clause of the statement has a counter fed by this shard's deterministic workloads; a clause that was not reached
        # makes the run inconclusive
        rec.require(*REQUIRED_FIXED)
        feed(G.corpus_cases(dd), 400)
        feed(G.limit_cases(rng), 100)
        feed(G.spend_limit_cases(rng), 20)
        feed(G.witness_dispatch_cases(rng), 800)
        feed(G.opcode_matrix(rng, range(256), 4, cover=True), 400)
        feed(G.minimal_push_matrix(rng), 200)
        feed(G.SigGen(rng, keys).p2pk_like(150), 100)
        feed(G.der_flag_matrix(rng, keys), 100)
        feed(G.boundary_s_cases(rng, keys), 300)
        feed(G.nullfail_matrix(rng, keys, ("bare",)), 500)
        feed(G.multi_input_cases(rng, keys, 120), 60)
        feed(G.embedded_sig_length_cases(rng, keys), 60)
    elif kind == "sigmatrix":
        rec.require("src:sig", "decided_by:NULLFAIL", "decided_by:CHECKMULTISIGVERIFY", "stage:witness", "stage:redeem")
        feed(G.nullfail_matrix(rng, keys, ("p2wsh",)), 500)
        feed(G.tiny_sig_matrix(rng, keys), 100)
        feed(G.two_sigops_cases(rng, keys, 160), 80)
    elif kind == "flagstage":
        rec.require(*REQUIRED_FLAGSTAGE)
        feed(G.flag_stage_matrix(rng, keys), 700)
        feed(G.error_path_multi_cases(rng, keys, spec["n_multi"]), 40)
    elif kind == "longrun":
        long_run(spec, rec, mon, rng, keys)
    elif kind == "mut":
        rec.require("src:mut")
        feed(G.corpus_mutations(rng, dd, spec["n"]), 3000)
    elif kind == "opm":
        rec.require("src:opmatrix", "eval.final_stack_compared")
        ops = [o for o in range(256) if o % spec["parts"] == spec["part"]]
        feed(G.opcode_matrix(rng, ops, spec["per"]), 1500)
    elif kind == "p2pk":
        rec.require("src:sig", "stage:witness", "stage:redeem")
        feed(G.SigGen(rng, keys).p2pk_like(spec["n"]), 400)
    elif kind == "multisig":
        rec.require("src:sig", "stage:witness", "stage:redeem")
        feed(G.SigGen(rng, keys).multisig(spec["n"]), 150)
        feed(G.two_sigops_cases(rng, keys, spec["n"] // 3), 150)
    elif kind == "lock_rand":
        rec.require("src:locktime", "src:random", "src:cond", "src:arith", "src:witdisp")
        feed(G.locktime_cases(rng, spec["n_lock"]), 2500)
        feed(G.locktime_eval_cases(rng, spec["n_lock"] // 4), 1500)
        feed(G.random_scripts(rng, spec["n_rand"]), 4000)
        feed(G.cond_tree_cases(rng, spec["n_rand"] // 2), 2500)
        feed(G.arith_chain_cases(rng, spec["n_rand"] // 2), 2500)
        feed(G.witness_dispatch_cases(rng), 1500)
    mon.flush()


def long_run(spec, rec, mon, rng, keys):
    """more than 2**16 spends through ONE SolutionChecker object (and one Tx, one process): a transaction of a few dozen inputs
    whose consensus verdicts are computed once by the reference, then asked over and over in a shuffled order; every answer is
    compared. Failing spends of several stages, clean-slate detectors and signature-bearing spends alternate."""
    rec.require("longrun.more_than_65536_on_one_checker", "longrun.valid", "longrun.invalid")
    frags = {f["name"]: f for f in G.fs_fragments(keys) + G.fs_failing_fragments(keys) + G.fs_detector_fragments()}
    picks = [("if_01", "scriptPubKey.fed"), ("if_02", "witness.fed"), ("if_02", "scriptSig.own"), ("det_depth_zero", "scriptPubKey.own"),
             ("fail_in_nested_if_with_alt", "scriptPubKey.own"), ("det_fromalt_empty", "scriptPubKey.own"), ("push1", "redeem.fed"),
             ("fail_open_if", "redeem.own"), ("det_endif_alone", "witness.own"), ("md_ok", "witness.fed"), ("fail_return_with_stack", "witness.fed"),
             ("det_alt_roundtrip", "redeem.own"), ("nop1", "scriptSig.own"), ("fail_truncated_push", "scriptSig.own"), ("cs_comp", "scriptPubKey.fed"),
             ("cs_wrong_not", "witness.fed"), ("fail_checksigverify", "redeem.fed"), ("cs_uncomp", "scriptSig.own"), ("extra_item", "witness.own"),
             ("md_num", "scriptPubKey.fed"), ("fail_unbalanced_else", "scriptPubKey.own"), ("det_else_alone", "scriptPubKey.own"),
             ("cltv_sat", "redeem.fed"), ("csv_unsat", "witness.fed")]
    tx = G.fs_tx(rng, len(picks))
    spks, amounts = [], []
    for i, (name, placement) in enumerate(picks):
        amounts.append(3000 + i)
        placed = G.fs_place(keys, frags[name], placement, tx, i, amounts[i])
        tx["ins"][i]["script"], tx["ins"][i]["witness"] = placed[0], placed[2]
        spks.append(placed[1])
    flags = G.ALL_FLAGS & ~RS.SIGPUSHONLY & ~RS.CLEANSTACK
    ref = [RS.result_of(RS.verify_script, tx["ins"][i]["script"], spks[i], tx["ins"][i]["witness"], flags, RS.TxChecker(tx, i, amounts[i])) == "OK"
           for i in range(len(picks))]
    if all(ref) or not any(ref):
        rec.ev("inconclusive:longrun_no_mix")
    case = {"k": "multi", "tx": tx, "spks": spks, "amounts": amounts, "flags": flags, "src": "multi.longrun"}
    long_run_case(case, rec, mon, spec["n"], rng)


def long_run_case(case, rec, mon, n_calls, rng):
    tx, spks, amounts, flags = case["tx"], case["spks"], case["amounts"], case["flags"]
    picks = tx["ins"]
    ref = [RS.result_of(RS.verify_script, tx["ins"][i]["script"], spks[i], tx["ins"][i]["witness"], flags, RS.TxChecker(tx, i, amounts[i])) == "OK"
           for i in range(len(picks))]
    py = mon.py
    Tx = py.Tx
    ins = []
    for i in tx["ins"]:
        ti = Tx.TxIn(i["prev"], i["index"], i["script"], i["sequence"])
        ti.witness = list(i["witness"])
        ins.append(ti)
    ptx = Tx(tx["version"], ins, [Tx.TxOut(o["value"], o["script"]) for o in tx["outs"]], tx["lock_time"],
             [Tx.TxOut(a, s) for a, s in zip(amounts, spks)])
    sc = ptx.SolutionChecker(ptx)
    ctxs = [sc.tx_context_for_idx(i) for i in range(len(picks))]
    pf = py.flags(flags)
    rec.case(("longrun", txser_bytes(tx), flags), nontrivial=True)
    # first through the transaction's own entry point, and through the monitor's ordinary multi-input path
    if not mon.run_multi(case):
        return
    n_ok = n_bad = done = 0
    order = list(range(len(picks)))
    # inputs whose verdict is another one under no flags and under P2SH|WITNESS alone: the calls whose number is a multiple of 4096 (2**16, 2**17 among them) go to these
    others = [0, RS.P2SH | RS.WITNESS, G.ALL_FLAGS]
    fragile = [i for i in order if all((RS.result_of(RS.verify_script, tx["ins"][i]["script"], spks[i], tx["ins"][i]["witness"], f,
                                                     RS.TxChecker(tx, i, amounts[i])) == "OK") != ref[i] for f in others[:2])]
    if not fragile:
        rec.ev("inconclusive:longrun_no_flag_dependent_input")
        fragile = order[:1]
    while done < n_calls:
        rng.shuffle(order)
        for i in order:
            if (done + 1) % 4096 == 0:
                i = fragile[((done + 1) // 4096) % len(fragile)]
            try:
                sc.check_solution(ctxs[i], flags=pf)
                got = True
            except py.ScriptError:
                got = False
            except Exception as e:
                rec.ev("crash_on_invalid:CRASH:" + type(e).__name__)
                got = False
            done += 1
            if got != ref[i]:
                rec.violation("longrun.%s.after_%s_calls" % ("accepts" if got else "rejects", "more_than_65535" if done > 65535 else "fewer_than_65536"),
                              dict(case, longrun_calls=done, longrun_input=i), {"verdict": got, "input": i, "call_number": done}, {"consensus": ref})
                return
            if got:
                n_ok += 1
            else:
                n_bad += 1
    rec.ev("SolutionChecker.check_solution(shared instance)", done)
    rec.ev("longrun.valid", n_ok)
    rec.ev("longrun.invalid", n_bad)
    if done > (1 << 16):
        rec.ev("longrun.more_than_65536_on_one_checker")
    rec.ev("longrun.calls_on_one_checker", done)


# counters the flag x stage shard must leave non-zero: every rule in every stage with an operator-bearing script of that stage and
# the rule's flag set; valid and invalid spends judged right after a spend that failed part-way through each stage / after a call
# that ended in another exception, on the same checker object
REQUIRED_FLAGSTAGE = (["flagstage:%s:%s" % (st, r) for st in G.FS_STAGES for r in G.FS_RULES] +
                      ["flagstage.ok:scriptSig:MINIMALIF", "flagstage.ok:scriptSig:WITNESS_PUBKEYTYPE", "flagstage.fail:witness:MINIMALIF",
                       "flagstage.fail:witness:WITNESS_PUBKEYTYPE", "flagstage.ok:redeem:MINIMALIF", "flagstage.ok:scriptPubKey:WITNESS_PUBKEYTYPE",
                       "decided_by:SIG_PUSHONLY", "decided_by:WITNESS_MALLEATED", "src:flagstage", "src:multi",
                       "errpath.judged_after_script_error", "errpath.valid_spend_after_script_error", "errpath.judged_after_other_exception",
                       "errpath.valid_spend_after_other_exception", "errpath.poisoned_input_cases", "refused_call.raised:bad_index"] +
                      ["errpath.judged_after_failure_in:" + st for st in G.FS_STAGES] +
                      ["flagstage.operators_in:%s:with:%s" % (st, n) for st in G.FS_STAGES for _, n in FLAG_BITS
                       if not (st == "scriptSig" and n == "SIGPUSHONLY")])

# counters the fixed shard must leave non-zero (clause of the statement -> evidence counter)
REQUIRED_FIXED = [
    # entry points
    "Tx.check_solution", "Tx.is_solution_ok", "Tx.bad_solution_count", "Tx.is_solution_ok.default_flags", "Tx.bad_solution_count.default_flags",
    "SolutionChecker.check_solution(shared instance)", "BitcoinVM.eval_script", "eval.final_stack_compared", "ref:OK", "ref:FAIL",
    # workloads
    "src:corpus", "src:limit", "src:witdisp", "src:p2sh", "src:opmatrix", "src:minpush", "src:sig", "src:multi",
    # all 256 opcode values, executed and in unexecuted branches
    "opmatrix.all_256_opcodes_executed_and_dead", "decided_by:BAD_OPCODE", "decided_by:DISABLED_OPCODE", "decided_by:OP_RETURN",
    # truthiness / numeric operand rules
    "decided_by:EVAL_FALSE", "decided_by:VERIFY", "decided_by:UNKNOWN_ERROR", "decided_by:INVALID_STACK_OPERATION",
    "decided_by:INVALID_ALTSTACK_OPERATION", "decided_by:EQUALVERIFY",
    # limits
    "decided_by:PUSH_SIZE", "decided_by:OP_COUNT", "decided_by:STACK_SIZE", "decided_by:SCRIPT_SIZE", "decided_by:PUBKEY_COUNT", "decided_by:SIG_COUNT",
    # conditionals
    "decided_by:UNBALANCED_CONDITIONAL", "decided_by:MINIMALIF",
    # signature / key / hash-type encodings and the BIP62/66/146/147 flags
    "decided_by:SIG_DER[DERSIG]", "decided_by:SIG_DER[LOW_S]", "decided_by:SIG_DER[STRICTENC]", "decided_by:SIG_HIGH_S", "decided_by:SIG_HASHTYPE",
    "decided_by:PUBKEYTYPE", "decided_by:WITNESS_PUBKEYTYPE", "decided_by:SIG_NULLDUMMY", "decided_by:NULLFAIL", "decided_by:MINIMALDATA",
    "decided_by:SIG_PUSHONLY", "decided_by:CLEANSTACK", "decided_by:CHECKSIGVERIFY", "decided_by:CHECKMULTISIGVERIFY",
    "decided_by:DISCOURAGE_UPGRADABLE_NOPS",
    # BIP65 / BIP112
    "decided_by:NEGATIVE_LOCKTIME", "decided_by:UNSATISFIED_LOCKTIME",
    # P2SH and witness dispatch (BIP16 / BIP141 / BIP143)
    "stage:scriptSig", "stage:scriptPubKey", "stage:redeem", "stage:witness", "stage:eval",
    "decided_by:WITNESS_MALLEATED", "decided_by:WITNESS_MALLEATED_P2SH", "decided_by:WITNESS_UNEXPECTED", "decided_by:WITNESS_PROGRAM_MISMATCH",
    "decided_by:WITNESS_PROGRAM_WRONG_LENGTH", "decided_by:WITNESS_PROGRAM_WITNESS_EMPTY", "decided_by:DISCOURAGE_UPGRADABLE_WITNESS_PROGRAM",
] + ["ok_with_flag:" + n for _, n in FLAG_BITS]


def _brief(case):
    if case["k"] == "multi":
        return {"k": "multi", "inputs": len(case["tx"]["ins"]), "outputs": len(case["tx"]["outs"]), "flags": case["flags"], "src": case["src"]}
    i = case["tx"]["ins"][case["n_in"]]
    if case["k"] == "eval":
        return {"k": "eval", "script": case["script"][:80], "stack": [x[:20] for x in case["stack"][:4]], "flags": case["flags"], "sv": case["sv"], "src": case["src"]}
    return {"k": "spend", "scriptSig": i["script"][:80], "scriptPubKey": case["spk"][:80], "witness": [w[:40] for w in i["witness"][:4]],
            "flags": case["flags"], "src": case["src"]}


def replay_case(case, rec):
    mon = Monitor(rec)
    mon.entry_every = 1
    if case.get("longrun_calls"):
        # the same transaction asked again that many times through one checker object (the order between the forced calls is
        # not the shard's; the calls whose number is a multiple of 4096 go to the same inputs)
        import random
        n_calls = int(case["longrun_calls"]) + 100
        case = {k: v for k, v in case.items() if not k.startswith("longrun_")}
        long_run_case(case, rec, mon, n_calls, random.Random(0))
        return
    ok = mon.run(case)
    if not ok and case["k"] != "multi":
        rt = []
        ref_run(case, rt)
        pt = mon.py_trace(case)
        rec.note("reference trace tail: %s" % [(p, hex(pc), opname(op), ex, [s.hex()[:24] for s in st[-4:]]) for p, pc, op, ex, st, _ in rt[-6:]])
        rec.note("pycoin trace tail: %s" % [(opname(op), hex(pc), [s.hex()[:24] for s in st[-4:]]) for op, pc, st, _ in pt[-6:]])
