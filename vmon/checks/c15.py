"""C15 — header-chain tracking reports a heaviest chain whatever the arrival order.

A case is a *history*: headers (hash, parent, weight), then a list of events, each a delivery
["d", [header indices]] handed to BlockChain.add_headers as one batch, or a lock ["l", k] = lock_to_index(k).
After every delivery (except those marked ["q", [...]]: handed over without looking at the tracker afterwards, as a
client does that only reads now and then) the reported chain and both lookup directions are read back through the public API and
judged against vmon/refs/chain.py; the ops returned and the ops sent to a registered callback are replayed on
two lists that must equal the reported chain.

Every history runs under a *mode*: the REPRESENTATION of the hash values (rep = "shared": one table of hash
objects handed to hash(), previous_block_hash and the queries alike; "fresh": every hash() call, every
previous_block_hash read, the anchor given to the constructor and every query argument is an equal but newly
created object - computed ints above the small-int cache, bytes built per use; "block": real pycoin Block headers
parsed from their own 80 serialised bytes, whose hash() is the double-SHA256 computed per call), the way the
tracker is constructed (own storage dict / the constructor's default arguments, which all trackers of a process
share), the kind of iterable handed to add_headers (list / tuple / one-shot generator) and the number of change
listeners registered before the first delivery (one, or two that each replay the ops they are sent on a list of their own).

The batch may also be handed over as a LAZY iterable that queries the tracker while add_headers consumes it (feed =
"peek": a generator / map / filter / iterator object calling every read-only accessor in turn - length, unlocked_length,
last_block_hash, hash_for_index, tuple_for_index with positive and negative index, repr, the lookups - before, between
and after the headers), listeners may query the tracker while they are told the ops or the newly locked items, and
between valid calls a history may contain calls that cannot succeed: a delivery with an unreadable item in it (["x", ...]:
a damaged copy of a header whose hash() / previous_block_hash / difficulty raises, or something that is no header) and
lock_to_index with None, a str, a float or an index beyond the chain (["L", ...]). None of those queries and refused calls
is judged; what is judged is every valid delivery after them, on that tracker and on every other one of the process.

The mechanism key of a violation is the symptom the monitor saw (chain.nonmax, chain.ops_replay_differs_from_chain, ...),
nothing else - with one exception: once a call was refused PART-WAY (a delivery that had consumed new headers before the
unreadable item; a lock index beyond the chain) whatever is seen later in that history goes under
chain.wrong_after_refused_delivery / chain.wrong_after_refused_lock (the symptom is in the witness). The input classes a history went through (a locked header delivered again, a lock while chains tied, an
orphan's parent arriving mid-path) are listed in the witness's `observed.input_classes` for the reader only.
"""
import hashlib
import io
import itertools
import struct

from vmon.probe import shard_rng, observe
from vmon.refs import chain as RC

PROPERTY = "C15"
LEVEL = "exploration"
TECHNIQUE = ("offline checker over API histories of BlockChain vs a from-the-definition heaviest-chain oracle; exhaustive "
             "enumeration of forests x delivery orders x batchings x single locks for small N under several hash labelings "
             "and hash-object representations (shared table / fresh equal object per use / parsed Block headers)")
RULE = ("histories = headers (hash, parent, weight>0) + events (batches handed to add_headers, lock_to_index calls). "
        "Exhaustive part: every acyclic parent function on N labelled headers (parent = anchor | another header | never-"
        "delivered hash) x every delivery permutation x every batching, N<=4 (quick) / N<=5 (thorough), each also with "
        "every single lock_to_index(k), 1<=k<=length, between two batches (N<=4, in quick for three of the five labelings and sampled for the others; "
        "sampled for N=5) and, for N<=3 (N<=4 in thorough for two labelings), with every single re-delivery of one header, "
        "under hash labelings "
        "ascending small ints / descending computed ints above 2**64 (same set order as the small ones) / scattered ints "
        "(small, negative, 2**40.., above 2**64) / 32-byte strings / real Block headers parsed from 80 serialised bytes, "
        "with several PYTHONHASHSEEDs. Each labeling has a REPRESENTATION: shared (one table of hash objects serves "
        "hash(), previous_block_hash, the constructor and the queries), fresh (each of those uses is a newly created equal "
        "object; ints within the interpreter's small-int cache cannot be duplicated and stay shared) or block (pycoin "
        "Block.parse_as_header of per-header bytes; Block.hash() computes a new digest per call); a constructor form "
        "(own storage dict / default arguments shared by all trackers of the process) and a batch form (list, then "
        "emptied by the caller together with the returned ops list / tuple / one-shot generator); sampled histories also "
        "draw one or two change listeners. Weights: unit, "
        "mixed 1..4, and 'pow' = mixed*2**70 + (0|1) so that totals lie far above 2**53, some chains tie exactly and some "
        "differ by 1 or 2. Sampled part: N=6..14, "
        "random positive integer weights (unit, small, wide, proof-of-work sized k*2**70+tiny), re-delivered headers, "
        "several locks, forests biased to forks at the anchor (a fifth of them: only competing branches that start at the "
        "anchor), 15% of the histories with most deliveries not followed by any read of the tracker; 'twin' histories (two live default-constructed trackers "
        "fed the same forest in different orders with their own locks, steps interleaved); 'duel' histories generated "
        "against the reported chain (rival branches growing from the lock point = anchor or last locked block, or from "
        "a block above it, sized to fall short of / tie / overtake the unlocked part, delivered in order, reversed or "
        "shuffled, extensions of arbitrary known headers for flip-backs, locks, re-deliveries; up to 40 headers). "
        "A history is distinct by (forest renamed "
        "by first-delivery position, delivery order, batch sizes, locks, weights when not all 1) - labelings of the same "
        "history are NOT counted as distinct - and non-trivial when it contains a fork or an orphan (a header delivered "
        "before its parent or whose parent never arrives); plain in-order chains are counted under history.plain. In the "
        "thorough N=5 sweep only every 8th history is entered in the distinct set (memory), so that count is a lower bound. "
        "Queries at moments the statement is silent about: batch form 'peek' (one exhaustive labeling, a fifth of the sampled "
        "histories) hands the batch over as generator / map / filter / iterator object that calls one read-only accessor of "
        "the tracker (rotating over length, last_block_hash, hash_for_index(-1), repr, unlocked_length, tuple_for_index(0), "
        "locked_length+is_hash_known+index_for_hash+block_for_hash, hash_for_index(length-1), tuple_for_index(-1)) before every "
        "header and after the last / only after the last / only between headers; change listeners and the did_lock_to_index_f "
        "listener do the same while they are called (two exhaustive labelings, a third of the sampled histories). Calls that "
        "cannot succeed: 6% of the exhaustive histories and a fifth of the sampled ones (twins and duels included) first hand "
        "a batch over with an unreadable item (damaged header copy whose hash()/previous_block_hash/difficulty raises - "
        "reporting the hash of a delivered, not yet delivered or never delivered header -, None, an int, 80 raw bytes, a "
        "(hash, parent) pair, a str) at the front, the end or in between, then repeat it without that item, and call "
        "lock_to_index(None | str | locked length + 1.5 | length+1,2,5) between valid calls.")
ASSUMPTIONS = [
    "vmon/refs/chain.py (max-weight chain by definition; DP cross-checked against brute-force path enumeration on every "
    "run) is correct",
    "a hash identifies a header: a re-delivered hash always carries the same parent and weight (duplicates are the same "
    "header again); weights are positive integers; the anchor hash is never delivered; no cycles",
    "the reported chain is [hash_for_index(i) for i in range(length())]; ties between equal-weight chains may be broken "
    "either way and differently at every delivery (the reported chain may move from one maximum-weight chain to another "
    "on a delivery that adds nothing), but the ops must then reproduce whichever chain is reported",
    "an op is (kind, header object, index) with kind 'add' (appends at index = current length) or 'remove' (takes the tip "
    "away, index = its position, header = the tip); tuple_for_index(i) is (hash, parent hash, weight); an index is "
    "anything that compares equal to the position",
    "two hash values denote the same header when they compare equal (==); nothing may depend on their being the same "
    "object. The iterable given to add_headers is consumed once; a list handed over holds the same objects in the same order "
    "after the call, and the caller may then empty it and the list of ops it got back",
    "block representation: the header's weight is its 32-bit difficulty field as parsed; its hash is the double-SHA256 of "
    "the 80 header bytes (the harness stops as inconclusive if pycoin's Block disagrees with hashlib on that)",
    "lock_to_index(k) is only called with 0 <= k <= length(); the locked prefix is the first k entries of the chain "
    "reported (and judged correct) after the preceding delivery; after a lock the admissible chains are those that start "
    "with the locked prefix",
    "the statement speaks about the state after each delivery; nothing is judged between a lock and the next delivery",
    "reading the tracker (length, unlocked_length, locked_length, last_block_hash, hash_for_index, tuple_for_index, "
    "index_for_hash, is_hash_known, block_for_hash, repr) is free of effect whenever it happens: while the iterable given to "
    "add_headers is being consumed, inside a change listener or the did_lock_to_index_f listener, after a refused call. What "
    "such a query returns or raises at those moments is not judged",
    "a delivery containing an item that cannot be read may be refused (any exception) or tolerated; either way the headers "
    "of that batch count as delivered only once a valid delivery has handed them over, and until then no delivery is "
    "judged (the harness repeats the batch without the bad item at once). lock_to_index with None, a str, a non-integral "
    "float or an int beyond length() is expected to be refused; a tracker that accepts it ends the history unjudged. After a "
    "refused call the next valid delivery must satisfy the statement as if the refused call had not been made",
]
EXPLANATION = ("after each add_headers: chain parent-linked from the anchor through delivered headers, starts with the locked "
               "prefix, has the oracle's maximum weight, index_for_hash/hash_for_index/tuple_for_index/last_block_hash agree "
               "with it, returned ops and callback ops replayed from an empty list equal it. The first violating step ends a "
               "history (later steps run on corrupted state). Queries made while a batch is consumed or a listener runs, and "
               "calls that are refused, are not judged themselves: the deliveries after them are.")
TIMEOUT = {"quick": 900, "thorough": 3 * 3600}

ZERO = b"\0" * 32


def exhaustive(tier):
    return False      # the N<=4 / N<=5 sub-space is enumerated completely, the property's quantifier is not


def configurations(tier):
    return ["labeling=%s unknown-parents=%s weights=%s PYTHONHASHSEED=%s representation=%s constructor=%s batch=%s" % c
            for c in _label_configs(tier)] + ["sampled/twin/duel histories: labeling, representation, constructor and batch "
                                              "form drawn per history"]


def _label_configs(tier):
    # (labeling, never-delivered parents shared or one per header, weights, PYTHONHASHSEED, representation, ctor, feed)
    cfg = [("asc", "shared", "unit", 0, "shared", "default", "list"),
           ("bigdesc", "shared", "unit", 0, "fresh", "own", "peek+listeners-query"),
           ("scat", "distinct", "mixed", 0, "fresh", "own", "list+listeners-query"),
           ("block", "distinct", "unit", 0, "block", "own", "tuple"),
           ("bytes", "shared", "pow", 1, "fresh", "own", "list")]
    if tier != "quick":
        cfg += [("desc", "distinct", "mixed", 0, "shared", "own", "list"),
                ("scat", "shared", "unit", 0, "shared", "default", "gen"),
                ("bytes", "distinct", "unit", 2, "shared", "own", "list"),
                ("bigasc", "distinct", "pow", 0, "fresh", "default", "list"),
                ("block", "shared", "mixed", 1, "block", "default", "list")]
    return cfg


def _exh_shard(c, **kw):
    sch, unk, wm, hs, rp, ctor, feed = c
    feed, _, flags = feed.partition("+")
    mode = {"rep": rp, "ctor": ctor, "feed": feed}
    if flags:
        mode.update(cbq=True, lockcb=True)
    d = {"kind": "exh", "scheme": sch, "unk": unk, "weights": wm, "mode": mode, "env": {"PYTHONHASHSEED": hs}}
    d.update(kw)
    return d


def plan(tier, seed):
    shards = []
    cfgs = _label_configs(tier)
    if tier == "quick":
        for ci, c in enumerate(cfgs):
            parts = 3
            for p in range(parts):
                shards.append(_exh_shard(c, nmax=4, part=p, parts=parts, locks="all" if ci in (0, 2, 4) else "sample",
                                         dups=3, label="exh4-%s-%s-%s-%d" % (c[0], c[1], c[4], p)))
        for i in range(16):
            shards.append({"kind": "rand", "n": 3600, "duels": 700, "env": {"PYTHONHASHSEED": i % 3}, "label": "rand%d" % i})
    else:
        parts5 = 32
        for c in (cfgs[0], cfgs[1], cfgs[2], cfgs[4]):
            for p in range(parts5):
                shards.append(_exh_shard(c, nmin=5, nmax=5, part=p, parts=parts5, locks="sample", distinct_every=8,
                                         label="exh5-%s-%s-%s-%d" % (c[0], c[1], c[4], p)))
        for p in range(parts5):     # real parsed headers: every 4th forest of the N=5 space
            shards.append(_exh_shard(cfgs[3], nmin=5, nmax=5, part=p, parts=4 * parts5, locks="sample", distinct_every=8,
                                     label="exh5-block-%d" % p))
        for ci, c in enumerate(cfgs):
            parts = 8 if ci in (0, 3) else 2
            for p in range(parts):
                shards.append(_exh_shard(c, nmax=4, part=p, parts=parts, locks="all", dups=4 if ci in (0, 3) else 3,
                                         label="exh4-%s-%s-%s-%d" % (c[0], c[1], c[4], p)))
        for i in range(32):
            shards.append({"kind": "rand", "n": 80000, "duels": 12000, "env": {"PYTHONHASHSEED": i % 4}, "label": "rand%d" % i})
    return shards


def selftest(rec):
    r = RC.selftest()
    # the monitor itself on a correct toy implementation and on a deliberately wrong one
    r["monitor_on_models"] = _selftest_monitor()
    r["representations"] = _selftest_representations()
    return r


def _selftest_representations():
    """The 'fresh' representation must really hand out distinct objects, the big-int labelings must keep the set order
    of the small ones, the header bytes must be the published layout (Bitcoin's genesis header)."""
    for v in (257, -6, 10**6, 1 << 40, 1 << 64, BIGBASE + 3, -(1 << 70), b"\x01" * 32, ZERO, bytes(range(32))):
        f = fresh(v)
        assert f == v and type(f) is type(v) and hash(f) == hash(v), v
        assert f is not v and fresh(v) is not f, ("interpreter shares this value; representation 'fresh' would be void", v)
    h = FreshHdr(1 << 64, BIGBASE, 7)
    assert h.hash() is not h.hash() and h.previous_block_hash is not h.previous_block_hash
    assert h.hash() == 1 << 64 and h.previous_block_hash == BIGBASE and h.difficulty == 7
    for i in range(0, 300):
        assert hash(BIGBASE + i) == hash(i) == i
    import random
    a0, l0, u0 = make_labels("desc", "distinct", 5, random.Random(1))
    a1, l1, u1 = make_labels("bigdesc", "distinct", 5, random.Random(1))
    assert [hash(x) for x in [a1] + l1 + u1] == [a0] + l0 + u0 and min([a1] + l1 + u1) > 1 << 64
    # Bitcoin block 0 and block 1 (public constants): layout of the 80 bytes, double-SHA256, parent link
    g = struct.pack("<L32s32sLLL", 1, ZERO, bytes.fromhex("4a5e1e4baab89f3a32518a88c31bc87f618f76673e2cc77ab2127b7afdeda33b")[::-1],
                    1231006505, 0x1d00ffff, 2083236893)
    assert dsha(g)[::-1].hex() == "000000000019d6689c085ae165831e934ff763ae46a2a6c172b3f1b60a8ce26f"
    b1 = struct.pack("<L32s32sLLL", 1, dsha(g), bytes.fromhex("0e3e2357e806b6cdb1f70b54c3a3a17b6714ee1f0e68bebb44a74b1efd512098")[::-1],
                     1231469665, 0x1d00ffff, 2573394689)
    assert dsha(b1)[::-1].hex() == "00000000839a8e6886ab5951d76f411475428afc90947ee320161bbf18eb6048"
    hdrs, raws = block_forest([1, RC.ANCHOR, RC.UNKNOWN, 0], [5, 6, 7, 8], ZERO, [b"a", b"b", b"c", b"d"], [b"u" * 32] * 4)
    assert hdrs[1][1] == ZERO and hdrs[0][1] == hdrs[1][0] and hdrs[3][1] == hdrs[0][0] and hdrs[2][1] == b"u" * 32
    assert all(dsha(raws[i]) == hdrs[i][0] and len(raws[i]) == 80 for i in range(4)) and len({h[0] for h in hdrs}) == 4
    assert [struct.unpack("<L", r[72:76])[0] for r in raws] == [5, 6, 7, 8]
    ws = exh_weights("pow", 4)
    assert ws[0] + 2 == ws[1] + ws[2] and ws[3] == ws[0] + ws[2] and float(ws[0]) == float(ws[1] + ws[2])
    return {"fresh_values": 10, "bigbase_hash_identity": 300, "genesis_headers": 2}


# ---------------------------------------------------------------------------------------------------------

class Hdr(object):
    """What BlockChain needs from a header: hash(), previous_block_hash, difficulty."""
    __slots__ = ("h", "previous_block_hash", "difficulty")

    def __init__(self, h, parent, weight):
        self.h = h
        self.previous_block_hash = parent
        self.difficulty = weight

    def hash(self):
        return self.h

    def __repr__(self):
        return "Hdr(%r<-%r w=%r)" % (self.previous_block_hash, self.h, self.difficulty)


_K = (1 << 90) + 12345


def fresh(v):
    """An object equal to v that is not v, where the interpreter can make one (ints of the small-int cache and
    bytes shorter than two cannot be duplicated)."""
    t = type(v)
    if t is bytes:
        return v[:1] + v[1:]
    if t is int:
        return (v + _K) - _K
    return v


class FreshHdr(object):
    """The same header, but no two reads of its hash or of its parent hash give the same object - as when a
    hash is computed on demand or sliced out of a buffer."""
    __slots__ = ("_h", "_p", "difficulty")

    def __init__(self, h, parent, weight):
        self._h = h
        self._p = parent
        self.difficulty = weight

    def hash(self):
        return fresh(self._h)

    @property
    def previous_block_hash(self):
        return fresh(self._p)

    def __repr__(self):
        return "FreshHdr(%r<-%r w=%r)" % (self._p, self._h, self.difficulty)


MODE0 = {"rep": "shared", "ctor": "own", "feed": "list"}
W32 = (1 << 32) - 1


def raw_header(parent, weight, i, salt=b""):
    """80 header bytes: version 1, parent, a merkle root and time/nonce derived from i, difficulty field = weight"""
    merkle = hashlib.blake2b(b"m:%s:%d" % (salt, i), digest_size=32).digest()
    return struct.pack("<L32s32sLLL", 1, parent, merkle, 1231006505 + 600 * i, weight, i)


def dsha(raw):
    return hashlib.sha256(hashlib.sha256(raw).digest()).digest()


def _imports():
    from pycoin.blockchain.BlockChain import BlockChain
    return BlockChain


def make_obj(rep, hdr, raw=None):
    """One header object in the given representation. hdr = (hash, parent, weight)."""
    if rep == "shared":
        return Hdr(*hdr)
    if rep == "fresh":
        return FreshHdr(*hdr)
    if rep == "block":
        from pycoin.block import Block
        b = Block.parse_as_header(io.BytesIO(raw))
        if b.hash() != hdr[0] or b.previous_block_hash != hdr[1] or b.difficulty != hdr[2]:
            raise AssertionError("harness: pycoin's parsed Block header disagrees with struct/hashlib on hash, parent or "
                                 "difficulty (not this property): %r" % (raw.hex(),))
        return b
    raise ValueError(rep)


def make_objs(rep, hdrs, raws=None):
    return [make_obj(rep, h, raws[i] if raws else None) for i, h in enumerate(hdrs)]


def _new_chain(BlockChain, anchor, mode=MODE0, lock_listener=None):
    if mode["rep"] == "fresh":
        anchor = fresh(anchor)
    elif mode["rep"] == "block":
        anchor = bytes(bytearray(anchor))
    kw = {"did_lock_to_index_f": lock_listener} if lock_listener is not None else {}
    if mode["ctor"] == "noargs" and anchor == ZERO:
        return BlockChain(**kw)
    if mode["ctor"] in ("default", "noargs"):
        return BlockChain(anchor, **kw)
    return BlockChain(anchor, unlocked_block_storage={}, **kw)


def _feed(batch, how):
    if how == "gen":
        return (x for x in batch)
    if how == "tuple":
        return tuple(batch)
    return batch


class Unreadable(Exception):
    """raised by the harness's own broken header objects"""


BAD_HEADERS = ("hash_raises", "parent_raises", "difficulty_raises")
BAD_ITEMS = ("none", "int", "raw80", "pair", "str")
BAD_KINDS = BAD_HEADERS + BAD_ITEMS
BAD_LOCKS = ("none", "str", "float", "beyond")


class BadHdr(object):
    """A damaged copy of a header: one of its three fields cannot be read. The fields that can be read are the
    original's (a hash always carries the same parent and weight)."""
    __slots__ = ("_kind", "_h", "_p", "_w")

    def __init__(self, kind, h, parent, weight):
        self._kind, self._h, self._p, self._w = kind, h, parent, weight

    def hash(self):
        if self._kind == "hash_raises":
            raise Unreadable("hash")
        return fresh(self._h)

    @property
    def previous_block_hash(self):
        if self._kind == "parent_raises":
            raise Unreadable("previous_block_hash")
        return fresh(self._p)

    @property
    def difficulty(self):
        if self._kind == "difficulty_raises":
            raise Unreadable("difficulty")
        return self._w

    def __repr__(self):
        return "BadHdr(%s %r<-%r)" % (self._kind, self._p, self._h)


def bad_item(kind, hdr):
    """the item a refused delivery contains: a damaged copy of hdr = (hash, parent, weight), or not a header at all"""
    if kind in BAD_HEADERS:
        return BadHdr(kind, *hdr)
    return {"none": None, "int": 7, "raw80": b"\x01" + b"\0" * 79, "pair": (hdr[0], hdr[1]), "str": "00" * 32}[kind]


class _PeekIter(object):
    """an iterator object (not a generator) that looks at the tracker every time it is asked for the next item,
    the last time included"""

    def __init__(self, items, peek):
        self._it, self._peek = iter(items), peek

    def __iter__(self):
        return self

    def __next__(self):
        self._peek()
        return next(self._it)


PEEKS = ("length", "last_block_hash", "hash_for_index_neg", "repr", "unlocked_length", "tuple_for_index", "lookups",
         "hash_for_index_tip", "tuple_for_index_neg")
LAZY_FORMS = ("generator", "map", "filter", "iterator")
_REFUSALS = [0]         # refused calls made in this process so far, on whatever tracker


def _ops_plain(ops):
    out = []
    for op in ops:
        try:
            out.append([op[0], op[1].hash(), op[2]])
        except Exception:
            out.append(repr(op)[:80])
    return out


def _midpath_predicate(hdrs, events):
    """F15-a's input class, label-independent: some batch first-delivers a header m while (i) a child of m was
    delivered in an earlier batch (an orphan tree waits on m) and (ii) the same batch first-delivers a proper
    descendant of m (so m can land in the middle of a merged path instead of at its bottom)."""
    known = set()
    parent = {}
    for ev in events:
        if ev[0] not in "dq":
            continue
        new = []
        for i in ev[1]:
            h, p, _w = hdrs[i]
            if h not in known and h not in new:
                new.append(h)
                parent[h] = p
        for m in new:
            if not any(parent[c] == m for c in known):
                continue
            for d in new:
                cur, steps = parent.get(d), 0
                while cur is not None and steps < 1000:
                    if cur == m:
                        return True
                    cur = parent.get(cur)
                    steps += 1
        known.update(new)
    return False


class Session(object):
    """One BlockChain under observation."""

    def __init__(self, BlockChain, anchor, rec, mode=MODE0):
        self.pk = mode.get("peek0", 0)      # rotates the accessor a peek uses, the lazy form and where it peeks
        self.last_h = anchor
        self.maybe = set()      # headers handed over in a refused delivery and not (yet) in a valid one
        self.recheck = False    # a refused call happened since the last judged delivery
        self.taint = None       # "refused_delivery" / "refused_lock": see refuse() and refused_lock()
        self.dead = False       # an argument that must be refused was accepted: what it did is not defined, the history ends
        self.refusals_seen = _REFUSALS[0]
        self._lock_listener = None
        if mode.get("lockcb"):
            def lock_listener(_items, _old_length):
                rec.ev("lock_to_index.listener_queries_tracker")
                self.peek(2)
            self._lock_listener = lock_listener
        self.bc = _new_chain(BlockChain, anchor, mode, self._lock_listener)
        self.mode = mode
        self.anchor = anchor
        self.rec = rec
        self.delivered = {}
        self.locked = []
        self.replayed = []
        self.chain = []
        self.ties = 1           # number of maximum-weight chains at the last judged delivery
        self.context = set()    # input classes met so far (information for the reader of a witness, not part of any key)
        self.stale = False
        # one listener, or two registered before the first delivery: each gets every delivery's ops and replays on its own list
        self.cbs = []           # [pending lists of ops, replayed list]
        self._callbacks = []    # BlockChain keeps callbacks in a WeakSet: hold strong references
        for _ in range(mode.get("cbs", 1)):
            pend = []

            if mode.get("cbq"):
                def callback(_bc, ops, pend=pend):
                    rec.ev("callback.queries_tracker")
                    self.peek(2)
                    pend.append(list(ops))
                    self.peek(1)
            else:
                def callback(_bc, ops, pend=pend):
                    pend.append(list(ops))
            self.cbs.append((pend, []))
            self._callbacks.append(callback)
            self.bc.add_change_callback(callback)

    # --- read-only queries made at moments the statement does not speak about (while a batch is being consumed,
    # inside a listener, after a refused call): never judged, whatever they return or raise; what is judged is the
    # state after the delivery, which they must not have influenced
    def peek(self, n=1):
        bc, rec = self.bc, self.rec
        for _ in range(n):
            name = PEEKS[self.pk % len(PEEKS)]
            self.pk += 1
            rec.ev("peek." + name)
            try:
                if name == "length":
                    bc.length()
                elif name == "last_block_hash":
                    bc.last_block_hash()
                elif name == "hash_for_index_neg":
                    bc.hash_for_index(-1)
                elif name == "repr":
                    repr(bc)
                elif name == "unlocked_length":
                    bc.unlocked_length()
                elif name == "tuple_for_index":
                    bc.tuple_for_index(0)
                elif name == "lookups":
                    h = self.last_h
                    bc.locked_length()
                    bc.is_hash_known(h)
                    bc.index_for_hash(h)
                    bc.block_for_hash(h)
                elif name == "hash_for_index_tip":
                    bc.hash_for_index(bc.length() - 1)
                else:
                    bc.tuple_for_index(-1)
            except Exception:
                rec.ev("peek.raised")

    def _lazy(self, batch):
        """the batch as a lazily consumed iterable that queries the tracker while add_headers consumes it"""
        rec = self.rec
        v = self.pk
        self.pk += 1
        form = LAZY_FORMS[v % 4]
        where = (v // 4) % 3        # generator: 0 before every header and after the last, 1 after the last only, 2 between headers only
        rec.ev("add_headers.lazy_iterable_queries_tracker")
        rec.ev("add_headers.lazy." + form)
        peek = self.peek
        if form == "map":
            return map(lambda x: (peek(), x)[1], batch)
        if form == "filter":
            return filter(lambda x: (peek(), True)[1], batch)
        if form == "iterator":
            return _PeekIter(batch, peek)

        def gen():
            first = True
            for x in batch:
                if where == 0 or (where == 2 and not first):
                    peek()
                first = False
                yield x
            if where != 2:
                rec.ev("peek.after_last_header")
                peek()
        return gen()

    def _give(self, batch):
        how = self.mode["feed"]
        if how == "peek":
            return self._lazy(batch)
        return _feed(batch, how)

    def _tainted(self, bad):
        """The mechanism key of a violation seen after a call that was refused PART-WAY (a delivery that had consumed new
        headers before the item it could not read; a lock index beyond the chain): one key per kind of refusal, the
        symptom goes into the witness. Everything else keeps the symptom as its key."""
        if bad and self.taint:
            return ("chain.wrong_after_" + self.taint, {"symptom_seen": bad[0], "seen": bad[1]}, bad[2])
        return bad

    def refuse(self, batch, metas, pos, kind, imp):
        """A delivery that cannot succeed: `batch` with an unreadable item (damaged copy of header `imp` / not a header)
        inserted at `pos`. Nothing is judged here; the headers of the batch count as delivered only once a valid
        delivery has handed them over (until then deliveries are not judged: self.maybe)."""
        if self.dead:
            return None
        rec = self.rec
        rec.ev("add_headers.with_unreadable_item")
        rec.ev("add_headers.with_unreadable_item." + kind)
        new_before = [m[0] for m in metas[:pos] if m[0] not in self.delivered]
        items = list(batch)
        items.insert(pos, bad_item(kind, imp))
        _REFUSALS[0] += 1
        self.refusals_seen = _REFUSALS[0]
        self.maybe.update(m[0] for m in metas if m[0] not in self.delivered)
        self.recheck = True
        st, ops = observe(self.bc.add_headers, self._give(items))
        if st == "ok":
            # tolerated instead of refused: the ops it returned belong to the sequence
            rec.ev("add_headers.unreadable_item_tolerated")
            bad = self._replay(ops, "(not read)")
            if bad:
                return self._tainted(bad)
        else:
            rec.ev("add_headers.refused_part_way" if pos else "add_headers.refused_at_first_item")
            if new_before:
                rec.ev("add_headers.refused_after_new_headers")
                if self.taint is None:
                    self.taint = "refused_delivery"
                self.context.add("a delivery was refused after it had consumed headers not delivered before")
        self.peek(1 + self.pk % 2)
        return None

    def refused_lock(self, what, beyond=1):
        """lock_to_index with an argument that is no index of the chain: None, a str, a float, an int beyond the length"""
        if self.dead:
            return None
        rec = self.rec
        if what == "none":
            k = None
        elif what == "str":
            k = str(len(self.locked) + 1)
        elif what == "float":
            k = len(self.locked) + 1.5
        else:
            st, n = observe(self.bc.length)
            if st != "ok":
                return self._tainted(("chain.length_raises", n, "an int"))
            k = n + beyond
        rec.ev("lock_to_index.bad_argument." + what)
        _REFUSALS[0] += 1
        self.refusals_seen = _REFUSALS[0]
        st, r = observe(self.bc.lock_to_index, k)
        if st == "ok":
            rec.ev("lock_to_index.bad_argument_accepted")
            self.dead = True
            return None
        rec.ev("lock_to_index.refused")
        self.recheck = True
        if what == "beyond" and self.taint is None:
            self.taint = "refused_lock"
            self.context.add("lock_to_index was refused for an index beyond the chain")
        self.peek(1)
        return None

    def lock(self, k):
        return self._tainted(self._lock(k))

    def deliver(self, batch, metas, quiet=False):
        return self._tainted(self._deliver(batch, metas, quiet))

    def _lock(self, k):
        """-> None or (mech, observed, expected)"""
        if self.dead:
            return None
        self.rec.ev("lock_to_index")
        if self.stale:          # (only reachable in minimised histories) look at the chain that is about to be locked
            self.chain = [self.bc.hash_for_index(i) for i in range(self.bc.length())]
            self.ties = RC.best_weight_ties(self.delivered, self.anchor, self.locked)[1]
        if k > len(self.chain):
            # outside the quantifier (see ASSUMPTIONS): can only happen when a history generated from the lengths of
            # another run is re-run and a tie was broken the other way; there is no prefix of that length to lock
            self.rec.ev("lock_to_index.skipped_beyond_length")
            return None
        if k > len(self.locked) and self.ties > 1:
            self.rec.ev("lock_to_index.while_chains_tie")
            self.context.add("lock_to_index called while several chains had the maximum weight")
        st, r = observe(self.bc.lock_to_index, k)
        if st != "ok":
            return ("chain.lock_to_index_raises", r, "no exception")
        if k > len(self.locked):
            self.locked = list(self.chain[:k])
        return None

    def _replay(self, ops, chain):
        rec = self.rec
        rec.ev("ops_returned", len(ops))
        if ops and ops[0][0] == "remove":
            rec.ev("ops_returned.reorganisation")
        for op in ops:
            st, hh = observe(lambda: (op[0], op[1].hash(), op[2]))
            bad = "malformed op" if st != "ok" else RC.replay_op(self.replayed, *hh)
            if bad:
                return ("chain.ops_not_applicable", {"ops": _ops_plain(ops), "why": bad, "chain": chain}, "ops that replay")
        return None

    def _replay_cb(self, chain, compare=True):
        rec = self.rec
        for ci, (pending, replayed) in enumerate(self.cbs):
            for cops in pending:
                rec.ev("ops_callback" if ci == 0 else "ops_callback.second_listener", len(cops))
                for op in cops:
                    st, hh = observe(lambda: (op[0], op[1].hash(), op[2]))
                    bad = "malformed op" if st != "ok" else RC.replay_op(replayed, *hh)
                    if bad:
                        return ("chain.callback_ops_not_applicable",
                                {"ops": _ops_plain(cops), "why": bad, "chain": chain, "listener": ci}, "ops that replay")
            del pending[:]
            if compare and replayed != chain:
                return ("chain.callback_ops_replay_differs_from_chain", {"replayed": replayed, "chain": chain, "listener": ci}, chain)
        return None

    def _deliver(self, batch, metas, quiet=False):
        """batch: list of header objects, metas: their (hash, parent, weight). -> None or (mech, observed, expected).
        quiet: nothing is read back after this delivery (its ops are still replayed): the next full delivery judges."""
        if self.dead:
            return None
        rec = self.rec
        bc = self.bc
        delivered = self.delivered
        lockset = set(self.locked)
        for h, p, w in metas:
            if h not in delivered:
                delivered[h] = (p, w)
            elif h in lockset:
                rec.ev("add_headers.redelivers_locked_header")
                self.context.add("a header of the locked prefix was delivered again")
        if metas:
            self.last_h = metas[-1][0]
        if self.maybe:
            self.maybe.difference_update(delivered)
            if self.maybe:      # whether the refused delivery's headers count is open: nothing to judge against
                rec.ev("add_headers.unjudged_refused_headers_pending")
                quiet = True
        if self.recheck and not self.maybe:
            quiet = False       # the first valid delivery after a refused call is always read back
        rec.ev("add_headers")
        if not metas:
            rec.ev("add_headers.empty_batch")
        if lockset:
            rec.ev("add_headers.after_lock")
        rec.ev("add_headers.%s.%s" % (self.mode["rep"], self.mode["feed"]))
        fresh_q = self.mode["rep"] != "shared"
        given = self._give(batch)
        snap = list(batch) if given is batch else None
        st, ops = observe(bc.add_headers, given)
        if st != "ok":
            return ("chain.add_headers_raises", ops, "a list of ops")
        if given is batch:
            rec.ev("add_headers.callers_list_compared")
            if len(batch) != len(snap) or any(a is not b for a, b in zip(batch, snap)):
                return ("chain.add_headers_modifies_callers_list", {"before": len(snap), "after": len(batch)}, "the list as it was")
            del batch[:]                 # the caller's list is the caller's
        if quiet:
            rec.ev("add_headers.not_read_back")
            self.stale = True
            bad = self._replay(ops, "(not read)") or self._replay_cb("(not read)", compare=False)
            if not bad and type(ops) is list and self.mode["feed"] == "list":
                del ops[:]
            return bad
        self.stale = False
        if self.recheck:
            self.recheck = False
            rec.ev("delivery.judged_after_refused_call")
        if _REFUSALS[0] > self.refusals_seen:
            self.refusals_seen = _REFUSALS[0]
            rec.ev("delivery.judged_after_refused_call_on_another_tracker")
        # --- read the reported chain back
        rec.ev("length")
        st, n = observe(bc.length)
        if st != "ok":
            return ("chain.length_raises", n, "an int")
        chain = []
        for i in range(n):
            st, h = observe(bc.hash_for_index, i)
            if st != "ok":
                return ("chain.hash_for_index_raises", {"index": i, "length": n, "exc": h}, "a hash")
            chain.append(h)
        rec.ev("hash_for_index", n)
        self.chain = chain
        # (a) parent-linked from the anchor through delivered headers
        why = RC.linked_defect(chain, delivered, self.anchor)
        if why:
            return ("chain.not_linked", {"chain": chain, "why": why}, "a parent-linked chain from the anchor")
        # locked prefix kept
        if chain[:len(self.locked)] != self.locked:
            return ("chain.locked_prefix_changed", {"chain": chain}, {"locked_prefix": self.locked})
        # (b) maximum weight
        got_w = RC.chain_weight(chain, delivered)
        best, self.ties = RC.best_weight_ties(delivered, self.anchor, self.locked)
        if best is None:
            raise AssertionError("oracle: locked prefix is not a chain")
        if got_w != best:
            return ("chain.nonmax", {"chain": chain, "weight": got_w}, {"max_weight": best})
        if self.ties > 1:           # any of the tied chains is as good as another, at this delivery and at the next
            rec.ev("delivery.several_chains_tie")
        # (c) lookups in both directions
        pos = {h: i for i, h in enumerate(chain)}
        rec.ev("index_for_hash", len(delivered))
        for h in delivered:
            st, idx = observe(bc.index_for_hash, fresh(h) if fresh_q else h)
            if st != "ok":
                return ("chain.index_for_hash_raises", {"hash": h, "exc": idx}, pos.get(h))
            if idx != pos.get(h):
                if h in pos:
                    return ("chain.index_for_hash_wrong_index", {"hash": h, "index_for_hash": idx, "chain": chain}, pos[h])
                return ("chain.index_for_hash_knows_offchain_hash", {"hash": h, "index_for_hash": idx, "chain": chain}, None)
        rec.ev("tuple_for_index", n)
        for i, h in enumerate(chain):
            st, t = observe(bc.tuple_for_index, i)
            want = (h, chain[i - 1] if i else self.anchor, delivered[h][1])
            if st != "ok" or tuple(t) != want:
                return ("chain.tuple_for_index_mismatch", {"index": i, "tuple": t, "chain": chain}, want)
        rec.ev("last_block_hash")
        st, last = observe(bc.last_block_hash)
        want = chain[-1] if chain else self.anchor
        if st != "ok" or last != want:
            return ("chain.last_block_hash_mismatch", {"last_block_hash": last, "chain": chain}, want)
        # (d) ops replay: returned ops, then callback ops
        bad = self._replay(ops, chain)
        if bad:
            return bad
        if self.replayed != chain:
            return ("chain.ops_replay_differs_from_chain", {"ops": _ops_plain(ops), "replayed": self.replayed, "chain": chain}, chain)
        if type(ops) is list and self.mode["feed"] == "list":
            del ops[:]                   # what was returned is the caller's too
        return self._replay_cb(chain)


def observed_of(bad, hdrs, events, sess, **extra):
    """What goes into a violation's `observed`: the symptom (= the mechanism key: what the monitor saw, never an
    input class, so that a violation cannot be filed under the key of some other defect whose input class the history
    happens to share), what was seen, and - as information only - the notable input classes the history went through."""
    classes = sorted(sess.context) if sess is not None else []
    if _midpath_predicate(hdrs, events):
        classes.append("an orphan's missing parent arrived in the same batch as another of its descendants")
    d = {"symptom": bad[0], "seen": bad[1], "input_classes": classes}
    d.update(extra)
    return d


def _plain_event(e):
    """events: ["d"|"q", [header indices]] a delivery (q: not read back), ["l", k] lock_to_index(k),
    ["x", [header indices], pos, kind, imp] a delivery with an unreadable item of that kind (damaged copy of header imp)
    inserted at pos, ["L", what, beyond] lock_to_index with a bad argument"""
    if e[0] in "dqx":
        return [e[0], list(e[1])] + list(e[2:])
    return list(e)


def _do_event(sess, ev, hdrs, raws, batch=None):
    """perform one event on a session -> None or the failure tuple"""
    rp = sess.mode["rep"]
    if ev[0] == "l":
        return sess.lock(ev[1])
    if ev[0] == "L":
        return sess.refused_lock(ev[1], ev[2] if len(ev) > 2 else 1)
    if batch is None:
        batch = [make_obj(rp, hdrs[i], raws[i] if raws else None) for i in ev[1]]
    metas = [hdrs[i] for i in ev[1]]
    if ev[0] == "x":
        return sess.refuse(batch, metas, min(ev[2], len(batch)), ev[3], hdrs[ev[4] % len(hdrs)])
    return sess.deliver(batch, metas, quiet=ev[0] == "q")


def make_case(anchor, hdrs, events, mode, raws=None):
    case = {"anchor": anchor, "hdrs": [list(h) for h in hdrs],
            "events": [_plain_event(e) for e in events], "mode": dict(mode)}
    if mode["rep"] == "block":
        case["raw"] = list(raws)
    return case


def run_history(BlockChain, anchor, hdrs, events, rec, objs=None, mode=MODE0, raws=None):
    """Run one concrete history. Returns (verdict, lengths) where verdict is None or
    (mech, case, observed, expected) and lengths[i] = reported length after event i (None for locks)."""
    sess = Session(BlockChain, anchor, rec, mode)
    rp = mode["rep"]
    if objs is None:
        objs = make_objs(rp, hdrs, raws)
    lengths = []
    seen_idx = set()
    for k, ev in enumerate(events):
        if ev[0] in "lL":
            bad = _do_event(sess, ev, hdrs, raws)
            lengths.append(None)
        elif ev[0] == "x":
            bad = _do_event(sess, ev, hdrs, raws)
            lengths.append(None)
        else:
            batch = []
            for i in ev[1]:
                if i in seen_idx:       # a re-delivery is a fresh object with the same fields
                    batch.append(make_obj(rp, hdrs[i], raws[i] if raws else None))
                else:
                    seen_idx.add(i)
                    batch.append(objs[i])
            bad = _do_event(sess, ev, hdrs, raws, batch)
            lengths.append(len(sess.chain))
        if bad:
            case = make_case(anchor, hdrs, events[:k + 1], mode, raws)
            return (bad[0], case, observed_of(bad, hdrs, case["events"], sess), bad[2]), lengths
    return None, lengths


def run_twin(BlockChain, anchor, hdrs, events_a, events_b, rec, mode, raws=None):
    """Two live trackers over the same forest, each with its own event list, stepped alternately (a0 b0 a1 b1 ...).
    -> None or (mech, case, observed, expected); the case carries both event lists up to the failing step."""
    rp = mode["rep"]
    sides = [(Session(BlockChain, anchor, rec, mode), events_a, "a"), (Session(BlockChain, anchor, rec, mode), events_b, "b")]
    for k in range(max(len(events_a), len(events_b))):
        for sess, events, name in sides:
            if k >= len(events):
                continue
            bad = _do_event(sess, events[k], hdrs, raws)
            if bad:
                mine = make_case(anchor, hdrs, events[:k + 1], mode, raws)
                other = events_b if name == "a" else events_a
                mine["peer_events"] = make_case(anchor, hdrs, other[:k + 1 if name == "b" else k], mode, raws)["events"]
                mine["failed_side"] = name
                return (bad[0], mine, observed_of(bad, hdrs, mine["events"], sess, tracker=name), bad[2])
    return None


# ---------------------------------------------------------------------------------------------------------
# labelings

def make_labels(scheme, unk, n, rng):
    """-> (anchor, [hash of header i], [hash used as header i's never-delivered parent])"""
    if scheme == "asc":
        anchor, labels = 0, list(range(1, n + 1))
        unknown = [100 + i for i in range(n)]
    elif scheme == "desc":
        anchor, labels = 0, [9 + n - i for i in range(n)]
        unknown = [100 + i for i in range(n)]
    elif scheme in ("bigasc", "bigdesc"):
        # computed ints above 2**64 whose Python hash is the small int of the asc/desc scheme (same set order)
        anchor, labels, unknown = make_labels(scheme[3:], "distinct", n, rng)
        anchor, labels, unknown = BIGBASE + anchor, [BIGBASE + x for x in labels], [BIGBASE + x for x in unknown]
    elif scheme == "scat":
        pool = set()
        while len(pool) < 2 * n + 1:
            r = rng.random()
            if r < 0.3:
                pool.add(8 * rng.randrange(1, 64))                    # all in one slot of a small table
            elif r < 0.5:
                pool.add(rng.randrange(1, 1 << 12))
            elif r < 0.65:
                pool.add(-rng.randrange(2, 1 << 20))
            elif r < 0.8:
                pool.add(rng.randrange(1 << 40, 1 << 52))
            else:
                pool.add((1 << rng.choice([64, 70, 255])) + rng.randrange(1 << 16))
        pool = list(pool)
        rng.shuffle(pool)
        anchor, labels, unknown = pool[0], pool[1:n + 1], pool[n + 1:2 * n + 1]
    elif scheme in ("bytes", "block"):
        # "block": the header hashes depend on the forest and are made by block_forest / the duel generator;
        # labels[i] here only serve as salts
        salt = b"%d" % rng.randrange(1 << 30)
        mk = lambda tag, i: hashlib.blake2b(b"%s:%s:%d" % (salt, tag, i), digest_size=32).digest()
        anchor, labels, unknown = ZERO, [mk(b"h", i) for i in range(n)], [mk(b"u", i) for i in range(n)]
        if scheme == "block" and rng.random() < 0.5:
            anchor = mk(b"a", 0)
    else:
        raise ValueError(scheme)
    if unk == "shared":
        unknown = [unknown[0]] * n
    return anchor, labels, unknown


BIGBASE = 24 * ((1 << 61) - 1)       # hash(BIGBASE + i) == i for small i >= 0


def block_forest(par, wts, anchor, labels, unknown):
    """Real header bytes for a forest: par[i] = ANCHOR | UNKNOWN | index. -> (hdrs, raws) with hdrs[i] =
    (double-SHA256 of raws[i], parent hash, weight). Parents are built before their children."""
    n = len(par)
    hdrs, raws = [None] * n, [None] * n
    todo = list(range(n))
    while todo:
        rest = []
        for i in todo:
            if par[i] == RC.ANCHOR:
                ph = anchor
            elif par[i] == RC.UNKNOWN:
                ph = unknown[i]
            elif hdrs[par[i]] is not None:
                ph = hdrs[par[i]][0]
            else:
                rest.append(i)
                continue
            raws[i] = raw_header(ph, wts[i], i, labels[i])
            hdrs[i] = (dsha(raws[i]), ph, wts[i])
        if len(rest) == len(todo):
            raise ValueError("cycle")
        todo = rest
    return hdrs, raws


def exh_weights(wm, n):
    mixed = [(3 * i + 2) % 4 + 1 for i in range(n)]
    if wm == "unit":
        return [1] * n
    if wm == "mixed":
        return mixed
    if wm == "pow":         # 3,2,1,4,.. times 2**70 plus 0,1,1,1,0,..: {0} vs {1,2} differ by 2, {3} vs {0,2} tie
        return [(m << 70) + (1 if i % 4 else 0) for i, m in enumerate(mixed)]
    raise ValueError(wm)


def history_key(hdrs, events, anchor):
    """Label-independent identity of a history (see RULE)."""
    pos = {}
    order = []
    shape = []
    refusals = []
    for k, ev in enumerate(events):
        if ev[0] in "xL":
            refusals.append((k,) + tuple(tuple(x) if isinstance(x, list) else x for x in ev))
        elif ev[0] != "l":
            for i in ev[1]:
                h = hdrs[i][0]
                if h not in pos:
                    pos[h] = len(pos)
                order.append(pos[h])
            shape.append(len(ev[1]) + (1000 if ev[0] == "q" else 0))
        else:
            shape.append(-ev[1] - 1)
    by_pos = sorted(pos, key=pos.get)
    par = {h[0]: h[1] for h in reversed(hdrs)}
    parents = tuple(-1 if par[h] == anchor else pos.get(par[h], -2) for h in by_pos)
    wts = tuple({h[0]: h[2] for h in reversed(hdrs)}[h] for h in by_pos)
    if all(w == 1 for w in wts):
        wts = ()
    if refusals:
        return parents, tuple(order), tuple(shape), wts, tuple(refusals)
    return parents, tuple(order), tuple(shape), wts


def shape_of(key):
    """-> (fork, orphan): two delivered headers share a known parent / a header is delivered before its parent or its
    parent never arrives"""
    parents = key[0]
    known = [p for p in parents if p != -2]
    fork = len(known) != len(set(known))
    orphan = any(p == -2 or p > i for i, p in enumerate(parents))
    return fork, orphan


def nontrivial(key):
    return any(shape_of(key))


def _count_case(rec, hdrs, events, anchor, counted=True):
    """Counts the history and the clauses of the statement's domain it belongs to (forks, orphans, duplicates, locks)."""
    key = history_key(hdrs, events, anchor)
    fork, orphan = shape_of(key)
    rec.case(key, nontrivial=(fork or orphan) and counted)
    if fork:
        rec.ev("history.with_fork")
    if orphan:
        rec.ev("history.with_orphan")
    if not (fork or orphan):
        rec.ev("history.plain")
    if len(key[1]) > len(key[0]):
        rec.ev("history.with_duplicate")
    shape = key[2]
    if shape and min(shape) < 0:
        rec.ev("history.with_lock")
        if sum(1 for x in shape if x < 0) > 1:
            rec.ev("history.with_several_locks")
    if len(shape) - sum(1 for x in shape if x < 0) > 1:
        rec.ev("history.several_batches")
    if any(x % 1000 > 1 for x in shape if x >= 0):
        rec.ev("history.batch_of_several")
    return key


# ---------------------------------------------------------------------------------------------------------
# exhaustive shards

def _with_locks(BlockChain, rec, anchor, hdrs, objs, events, lengths, lock_mode, lrng, tick, mode=MODE0, raws=None):
    """every (or one sampled) single lock_to_index(k), 1 <= k <= reported length, between two batches"""
    variants = [(j, k) for j in range(len(events) - 1) for k in range(1, lengths[j] + 1)]
    if lock_mode == "sample":
        if not variants or lrng.random() > 0.12:
            return
        variants = [lrng.choice(variants)]
    for j, k in variants:
        ev2 = events[:j + 1] + [("l", k)] + events[j + 1:]
        rec.ev("history.exhaustive_with_lock")
        _count_case(rec, hdrs, ev2, anchor, tick())
        bad, _ = run_history(BlockChain, anchor, hdrs, ev2, rec, objs, mode, raws)
        if bad:
            rec.violation(*bad)


def _with_refusal(BlockChain, rec, anchor, hdrs, objs, events, lrng, tick, mode, raws=None):
    """one sampled variant: a batch of the history is first handed over with an unreadable item in it (refused), then
    as it is; sometimes lock_to_index is called with a bad argument after it"""
    if lrng.random() > 0.06:
        return
    j = lrng.randrange(len(events))
    ev2 = list(events[:j]) + [tuple(gen_refusal(lrng, list(events[j][1]), len(hdrs)))] + list(events[j:])
    if lrng.random() < 0.4:
        ev2.insert(j + 2, tuple(gen_bad_lock(lrng)))
    rec.ev("history.exhaustive_with_refused_call")
    _count_case(rec, hdrs, ev2, anchor, tick())
    bad, _ = run_history(BlockChain, anchor, hdrs, ev2, rec, objs, mode, raws)
    if bad:
        rec.violation(*bad)


def _split(order, sizes):
    events, k = [], 0
    for s in sizes:
        events.append(("d", order[k:k + s]))
        k += s
    return events


def run_exh(spec, rec, BlockChain):
    rng = shard_rng(spec["seed"], PROPERTY, "labels", spec["scheme"] + spec["unk"])
    lrng = shard_rng(spec["seed"], PROPERTY, spec["tier"], spec["shard"], "locks")
    part, parts = spec["part"], spec["parts"]
    mode0 = spec.get("mode", MODE0)
    peeky = mode0["feed"] == "peek" or mode0.get("cbq")
    raws = None
    lock_mode = spec.get("locks", "none")
    every = spec.get("distinct_every", 1)
    counter = [0]

    def tick():
        counter[0] += 1
        return counter[0] % every == 0
    fcount = 0
    mode = mode0
    npk = 4 * 3 * len(PEEKS)
    for n in range(spec.get("nmin", 1), spec["nmax"] + 1):
        anchor, labels, unknown = make_labels(spec["scheme"], spec["unk"], n, rng)
        wts = exh_weights(spec.get("weights", "unit"), n)
        perms = list(itertools.permutations(range(n)))
        sizes_all = list(RC.batchings(n))
        sizes_dup = list(RC.batchings(n + 1))
        for pf in RC.parent_functions(n):
            fcount += 1
            if fcount % parts != part:
                continue
            if mode["rep"] == "block":
                hdrs, raws = block_forest(pf, wts, anchor, labels, unknown)
            else:
                hdrs = [(labels[i], anchor if pf[i] == RC.ANCHOR else unknown[i] if pf[i] == RC.UNKNOWN else labels[pf[i]], wts[i])
                        for i in range(n)]
            objs = make_objs(mode["rep"], hdrs, raws)
            for order in perms:
                for sizes in sizes_all:
                    events = _split(order, sizes)
                    rec.ev("history.exhaustive")
                    if peeky:       # which accessor the first query uses, the lazy form and where it queries rotate
                        mode = dict(mode0, peek0=(counter[0] * 7) % npk)
                    _count_case(rec, hdrs, events, anchor, tick())
                    bad, lengths = run_history(BlockChain, anchor, hdrs, events, rec, objs, mode, raws)
                    if bad:
                        rec.violation(*bad)
                        continue
                    if lock_mode != "none" and len(events) > 1:
                        _with_locks(BlockChain, rec, anchor, hdrs, objs, events, lengths, lock_mode, lrng, tick, mode, raws)
                    _with_refusal(BlockChain, rec, anchor, hdrs, objs, events, lrng, tick, mode, raws)
                if n > spec.get("dups", 0):
                    continue
                # one header delivered twice: every header x every later position x every batching (x locks)
                for a in range(n):
                    for b in range(a + 1, n + 1):
                        order2 = order[:b] + (order[a],) + order[b:]
                        for sizes in sizes_dup:
                            events = _split(order2, sizes)
                            rec.ev("history.exhaustive_with_duplicate")
                            _count_case(rec, hdrs, events, anchor, tick())
                            bad, lengths = run_history(BlockChain, anchor, hdrs, events, rec, objs, mode, raws)
                            if bad:
                                rec.violation(*bad)
                            elif lock_mode != "none" and len(events) > 1:
                                _with_locks(BlockChain, rec, anchor, hdrs, objs, events, lengths, lock_mode, lrng, tick, mode, raws)
    rec.sample({"kind": "exhaustive", "scheme": spec["scheme"], "mode": mode, "anchor": anchor, "hdrs": hdrs,
                "events": [[e[0], list(e[1])] for e in events]})


# ---------------------------------------------------------------------------------------------------------
# sampled shards

def gen_mode(rng):
    """-> (labeling scheme, mode) for one sampled history"""
    r = rng.random()
    if r < 0.22:
        scheme, rp = rng.choice(["asc", "desc", "scat", "bytes"]), "shared"
    elif r < 0.75:
        scheme, rp = rng.choice(["bigasc", "bigdesc", "scat", "scat", "bytes", "bytes"]), "fresh"
    else:
        scheme, rp = "block", "block"
    ctor = rng.choice(["own", "own", "default", "noargs"])
    feed = rng.choice(["list", "list", "gen", "tuple", "peek"])
    mode = {"rep": rp, "ctor": ctor, "feed": feed, "cbs": rng.choice([1, 1, 2])}
    if feed == "peek" or rng.random() < 0.3:
        # listeners that look at the tracker while they are told the ops / the locked items
        mode.update(cbq=rng.random() < 0.5, lockcb=rng.random() < 0.5, peek0=rng.randrange(4 * 3 * len(PEEKS)))
    return scheme, mode


def gen_weight_fn(rng, rp):
    """-> a function drawing one positive integer weight; proof-of-work sized ones differ by tiny amounts"""
    wmode = rng.random()
    if wmode < 0.3:
        return lambda: 1
    if wmode < 0.6:
        return lambda: rng.randrange(1, 5)
    if rp == "block":           # the difficulty field has 32 bits
        if wmode < 0.8:
            return lambda: rng.choice([1, 2, 3, 1000, 10**6, W32, W32 - 1, rng.randrange(1, 10**4)])
        return lambda: (1 << 31) + rng.randrange(0, 3)
    if wmode < 0.78:
        return lambda: rng.choice([1, 2, 3, 1000, 10**6, 2**64 + 1, rng.randrange(1, 10**4)])
    k = rng.choice([1, 1, 2])
    base = 1 << rng.choice([70, 70, 64, 53, 100])
    if wmode < 0.9:
        return lambda: base + rng.randrange(0, 3)                       # all about equal: equal lengths nearly tie
    return lambda: rng.randrange(1, k + 2) * base + rng.randrange(0, 4)   # small multiples: different lengths nearly tie


def gen_history(rng):
    """-> (anchor, hdrs, raws, batches, lockp, mode): batches = lists of header indices (with re-deliveries), a lock
    decision per gap; lock indices are chosen at run time from the reported length."""
    n = rng.choice([6, 7, 8, 9, 10, 11, 12, 13, 14])
    scheme, mode = gen_mode(rng)
    anchor, labels, unknown = make_labels(scheme, rng.choice(["shared", "distinct"]), n, rng)
    rng.shuffle(labels)
    style = rng.random()
    roots = rng.choice([2, 2, 3, 4])
    par = []
    for i in range(n):
        r = rng.random()
        if style >= 0.8:
            # competing branches that all start at the anchor: the fork point of every reorganisation between
            # them is the anchor itself (or the last locked block once the common part is locked)
            if i < roots or r < 0.03:
                par.append(RC.ANCHOR)
            elif r < 0.06:
                par.append(RC.UNKNOWN)
            elif style < 0.9:
                par.append(i - roots if rng.random() < 0.85 else rng.randrange(i))     # interleaved parallel branches
            else:
                par.append(i - 1 if rng.random() < 0.7 else rng.randrange(roots))      # runs, restarting near the anchor
        elif i == 0 or r < 0.07:
            par.append(RC.ANCHOR if (i == 0 and rng.random() < 0.9) or r < 0.04 else RC.UNKNOWN)
        elif style < 0.3:
            par.append(i - 1 if rng.random() < 0.75 else rng.randrange(i))      # long chains with forks
        elif style < 0.55:
            par.append(rng.randrange(i))                                        # bushy
        else:
            par.append(rng.randrange(max(0, i - 3), i))                         # forks near the tip
    wf = gen_weight_fn(rng, mode["rep"])
    wts = [wf() for _ in range(n)]
    raws = None
    if mode["rep"] == "block":
        hdrs, raws = block_forest(par, wts, anchor, labels, unknown)
    else:
        hdrs = [(labels[i], anchor if par[i] == RC.ANCHOR else unknown[i] if par[i] == RC.UNKNOWN else labels[par[i]], wts[i])
                for i in range(n)]
    batches = gen_batches(rng, n)
    lockp = rng.choice([0.0, 0.15, 0.35, 0.6])
    return anchor, hdrs, raws, batches, lockp, mode


def gen_batches(rng, n):
    order = list(range(n))
    o = rng.random()
    if o < 0.25:
        order.reverse()                                  # children before parents
    elif o < 0.5:
        for _ in range(rng.randrange(1, 4)):             # mostly in order, a few displaced
            a, b = rng.randrange(n), rng.randrange(n)
            order[a], order[b] = order[b], order[a]
    elif o < 0.65:
        pass                                             # in order
    else:
        rng.shuffle(order)
    for _ in range(rng.choice([0, 0, 1, 2, 4])):         # re-deliveries
        src = rng.randrange(len(order))
        order.insert(rng.randrange(src, len(order) + 1), order[src])
    cut = rng.choice([0.15, 0.4, 0.7, 1.0])
    batches = [[]]
    for i in order:
        if batches[-1] and rng.random() < cut:
            batches.append([])
        batches[-1].append(i)
    if rng.random() < 0.1:
        batches.insert(rng.randrange(len(batches) + 1), [])      # an empty delivery
    return batches


def gen_refusal(rng, b, n):
    """-> ["x", indices, pos, kind, imp]: the batch b (sometimes reordered, cut or with an already seen header more) with
    an unreadable item at the front (nothing was consumed before the refusal), at the end or in between"""
    xb = list(b)
    r = rng.random()
    if r < 0.25:
        rng.shuffle(xb)
    elif r < 0.4 and len(xb) > 1:
        xb = xb[:rng.randrange(1, len(xb))]
    pos = rng.choice([0, 0, len(xb), rng.randrange(len(xb) + 1)])
    return ["x", xb, pos, rng.choice(BAD_KINDS), rng.choice(b) if b and rng.random() < 0.5 else rng.randrange(n)]


def gen_bad_lock(rng):
    what = rng.choice(BAD_LOCKS)
    return ["L", what, rng.choice([1, 1, 2, 5])] if what == "beyond" else ["L", what]


def _drive(rng, sess, hdrs, raws, batches, lockp, events):
    """Generator: performs one event of the plan per next(); yields None or the failure tuple."""
    lazy = rng.random() < 0.15          # a client that does not look at the tracker after every delivery
    refusing = rng.random() < 0.2       # a client some of whose calls cannot succeed; it repeats them without the bad item
    for bi, b in enumerate(batches):
        last = bi == len(batches) - 1
        lock_next = not last and rng.random() < lockp
        quiet = lazy and not last and not lock_next and rng.random() < 0.7
        if refusing and rng.random() < 0.4:
            ev = gen_refusal(rng, b, len(hdrs))
            events.append(ev)
            yield _do_event(sess, ev, hdrs, raws)
        events.append(["q" if quiet else "d", list(b)])
        yield _do_event(sess, events[-1], hdrs, raws)
        if refusing and rng.random() < (0.3 if lock_next else 0.08) and not sess.stale:
            events.append(gen_bad_lock(rng))
            yield _do_event(sess, events[-1], hdrs, raws)
        if lock_next:
            n = len(sess.chain)
            k = rng.choice([n, max(0, n - 1), rng.randrange(0, n + 1), rng.randrange(0, n + 1), 1 if n else 0])
            events.append(["l", k])
            yield sess.lock(k)


def run_rand(spec, rec, BlockChain):
    rng = shard_rng(spec["seed"], PROPERTY, spec["tier"], spec["shard"])
    for it in range(spec["n"]):
        anchor, hdrs, raws, batches, lockp, mode = gen_history(rng)
        twin = rng.random() < 0.12
        if twin:
            mode = dict(mode, ctor="default")
        sess = Session(BlockChain, anchor, rec, mode)
        events = []
        bad = None
        if not twin:
            for bad in _drive(rng, sess, hdrs, raws, batches, lockp, events):
                if bad:
                    break
            peer = None
        else:
            # a second live tracker built the same way sees the same headers in another order, with its own locks
            rec.ev("history.twin")
            sess_b = Session(BlockChain, anchor, rec, mode)
            events_b = []
            runs = [(_drive(rng, sess, hdrs, raws, batches, lockp, events), "a"),
                    (_drive(rng, sess_b, hdrs, raws, gen_batches(rng, len(hdrs)), rng.choice([0.0, 0.35, 0.6]), events_b), "b")]
            failed = None
            while runs and not bad:
                for g, name in list(runs):
                    bad = next(g, "end")
                    if bad == "end":
                        bad = None
                        runs.remove((g, name))
                    elif bad:
                        failed = name
                        break
            _count_case(rec, hdrs, events_b, anchor)
            peer = (events_b, failed, sess_b)
        rec.ev("history.sampled")
        _count_case(rec, hdrs, events, anchor)
        if bad:
            report_sampled(BlockChain, rec, bad, anchor, hdrs, raws, events, mode, sess, peer)
        elif it < 2:
            rec.sample({"kind": "sampled", "mode": mode, "anchor": anchor, "hdrs": hdrs, "events": events,
                        "final_chain": sess.chain})
    for it in range(spec.get("duels", 0)):
        run_duel(rng, rec, BlockChain, sample=it < 1)


def report_sampled(BlockChain, rec, bad, anchor, hdrs, raws, events, mode, sess, peer=None):
    if peer is not None and peer[1] == "b":
        events, other, sess = peer[0], events, peer[2]
    elif peer is not None:
        other = peer[0]
    case = make_case(anchor, hdrs, events, mode, raws)
    mech = bad[0]
    if getattr(rec, "viol_count", {}).get(mech, 0) >= 4:      # only counted from here on: no need to minimise it
        rec.violation(mech, case, observed_of(bad, hdrs, case["events"], sess, note="not minimised"), bad[2])
        return
    small = shrink(BlockChain, case, mech)
    if small:
        rec.violation(*small)
        return
    if peer is not None:      # needs both trackers: report the pair as run
        case["peer_events"] = make_case(anchor, hdrs, other, mode, raws)["events"]
        case["failed_side"] = peer[1]
        rec.violation(mech, case, observed_of(bad, hdrs, case["events"], sess, tracker=peer[1]), bad[2])
        return
    # not reproducible from the recorded events: report as seen
    rec.violation(mech, case, observed_of(bad, hdrs, case["events"], sess, note="did not reproduce on re-run"), bad[2])


# histories generated against the reported chain

DUEL_MAX = 40


def run_duel(rng, rec, BlockChain, sample=False):
    """A rival branch is grown from the lock point (the anchor, or the last locked block) or from a block above it,
    sized from the weight of the part of the reported chain it competes with, and delivered in some order; tips and
    arbitrary known headers get extended (flip-backs), prefixes get locked, headers are re-delivered."""
    scheme, mode = gen_mode(rng)
    rp = mode["rep"]
    anchor, labels, _unknown = make_labels(scheme, "distinct", DUEL_MAX, rng)
    rng.shuffle(labels)
    wf = gen_weight_fn(rng, rp)
    sess = Session(BlockChain, anchor, rec, mode)
    hdrs, raws, events = [], ([] if rp == "block" else None), []
    weight_of = {}
    refusing = rng.random() < 0.2

    def new(parent, w=None):
        i = len(hdrs)
        if w is None:
            w = wf()
        if rp == "block":
            raws.append(raw_header(parent, w, i, labels[i]))
            h = dsha(raws[i])
        else:
            h = labels[i]
        hdrs.append((h, parent, w))
        weight_of[h] = w
        return i

    def deliver(idx):
        events.append(["d", list(idx)])
        return sess.deliver([make_obj(rp, hdrs[i], raws[i] if raws else None) for i in idx], [hdrs[i] for i in idx])

    def deliver_some(idx):
        o = rng.random()
        if o < 0.25:
            idx = idx[::-1]
        elif o < 0.4:
            rng.shuffle(idx)
        cut = rng.choice([0.0, 0.3, 1.0])
        k = 0
        while k < len(idx):
            j = k + 1
            while j < len(idx) and rng.random() >= cut:
                j += 1
            if refusing and rng.random() < 0.3:
                events.append(gen_refusal(rng, idx[k:j], len(hdrs)))
                bad = _do_event(sess, events[-1], hdrs, raws)
                if bad:
                    return bad
            bad = deliver(idx[k:j])
            if bad:
                return bad
            k = j
        return None

    bad = None
    for _step in range(rng.randrange(3, 9)):
        if len(hdrs) > DUEL_MAX - 9:
            break
        chain, nl = sess.chain, len(sess.locked)
        a = rng.random()
        if not chain or a < 0.15:                    # the tip grows
            tip = chain[-1] if chain else anchor
            idx = []
            for _ in range(rng.randrange(1, 4)):
                idx.append(new(tip))
                tip = hdrs[idx[-1]][0]
            bad = deliver_some(idx)
        elif a < 0.62:                               # a rival branch
            j = nl if rng.random() < 0.65 else rng.randrange(nl, len(chain) + 1)
            target = sum(weight_of[h] for h in chain[j:])
            aim = rng.choice(["short", "tie", "over", "over", "long"])
            ws, tot = [], 0
            while len(ws) < 8:
                w = wf()
                if aim == "short" and ws and tot + w >= target:
                    break
                ws.append(w)
                tot += w
                if tot > target or (aim == "tie" and tot >= target):
                    break
            if aim == "long":
                ws.append(wf())
            tip = chain[j - 1] if j else anchor
            idx = []
            for w in ws:
                idx.append(new(tip, w))
                tip = hdrs[idx[-1]][0]
            bad = deliver_some(idx)
        elif a < 0.75 and hdrs:                      # some known header gets a child or two (flip-backs, dead branches)
            tip = rng.choice(hdrs)[0]
            idx = []
            for _ in range(rng.randrange(1, 3)):
                idx.append(new(tip))
                tip = hdrs[idx[-1]][0]
            bad = deliver_some(idx)
        elif a < 0.82 and hdrs:                      # re-delivery
            bad = deliver([rng.randrange(len(hdrs)) for _ in range(rng.randrange(1, 4))])
        else:                                        # lock
            n = len(chain)
            k = rng.choice([n, max(0, n - 1), rng.randrange(0, n + 1), min(n, nl + 1)])
            if refusing and rng.random() < 0.5:
                events.append(gen_bad_lock(rng))
                bad = _do_event(sess, events[-1], hdrs, raws)
            events.append(["l", k])
            bad = bad or sess.lock(k)
        if bad:
            break
    rec.ev("history.duel")
    _count_case(rec, hdrs, events, anchor)
    if bad:
        report_sampled(BlockChain, rec, bad, anchor, hdrs, raws, events, mode, sess)
    elif sample:
        rec.sample({"kind": "duel", "mode": mode, "anchor": anchor, "hdrs": hdrs, "events": events, "final_chain": sess.chain})


class _NullRec(object):
    def ev(self, *a, **k):
        pass


def _case_mode(case):
    m = dict(MODE0)
    m.update(case.get("mode") or {})
    return m


def _rerun(BlockChain, case):
    bad, _ = run_history(BlockChain, case["anchor"], [tuple(h) for h in case["hdrs"]], case["events"], _NullRec(),
                         None, _case_mode(case), case.get("raw"))
    return bad


def shrink(BlockChain, case, mech, budget=400):
    """Greedy: drop whole events, then single headers, while the same mechanism key (= symptom) is reported.
    -> (mech, case, observed, expected) of the smallest history found, or None."""
    cur = _rerun(BlockChain, case)
    if cur is None or cur[0] != mech:
        return None
    changed = True
    while changed and budget > 0:
        changed = False
        c0 = cur[1]
        cands = []
        for k in range(len(c0["events"])):
            cands.append(dict(c0, events=c0["events"][:k] + c0["events"][k + 1:]))
        used = sorted({i for e in c0["events"] if e[0] in "dqx" for i in e[1]})
        for i in used:
            evs = [[e[0], [x for x in e[1] if x != i]] + list(e[2:]) if e[0] in "dqx" else list(e) for e in c0["events"]]
            cands.append(dict(c0, events=evs))
        for c in cands:
            budget -= 1
            if budget <= 0:
                break
            try:
                r = _rerun(BlockChain, c)
            except Exception:
                continue
            if r is not None and r[0] == mech:
                cur = r
                changed = True
                break
    # drop unused headers
    c0 = cur[1]
    used = sorted({i for e in c0["events"] if e[0] in "dqx" for i in e[1]} |
                  {e[4] % len(c0["hdrs"]) for e in c0["events"] if e[0] == "x"})
    ren = {i: k for k, i in enumerate(used)}
    small = dict(c0, hdrs=[c0["hdrs"][i] for i in used],
                 events=[([e[0], [ren[x] for x in e[1]]] + list(e[2:4]) + [ren[e[4] % len(c0["hdrs"])]] if e[0] == "x" else
                          [e[0], [ren[x] for x in e[1]]]) if e[0] in "dqx" else list(e) for e in c0["events"]])
    if c0.get("raw"):
        small["raw"] = [c0["raw"][i] for i in used]
    r = _rerun(BlockChain, small)
    return r if r is not None and r[0] == mech else cur


# ---------------------------------------------------------------------------------------------------------

def run_shard(spec, rec):
    BlockChain = _imports()
    rec.require("add_headers", "length", "hash_for_index", "index_for_hash", "tuple_for_index", "last_block_hash",
                "ops_returned", "ops_callback",
                # the clauses of the domain: forks, orphans, any order (children first = orphans), any batching, ties,
                # reorganisations (ops that remove)
                "history.with_fork", "history.with_orphan", "history.several_batches", "history.batch_of_several",
                "delivery.several_chains_tie", "ops_returned.reorganisation")
    lazy_counters = (["add_headers.lazy_iterable_queries_tracker", "peek.after_last_header"] + ["add_headers.lazy." + f for f in LAZY_FORMS] +
                     ["peek." + a for a in PEEKS])
    # calls that cannot succeed, between judged ones (refused before anything was consumed / part-way), and the first judged
    # delivery after them on the same tracker
    rec.require("add_headers.refused_part_way", "add_headers.refused_at_first_item", "add_headers.refused_after_new_headers",
                "lock_to_index.refused", "delivery.judged_after_refused_call")
    if spec["kind"] == "exh":
        m = spec.get("mode", MODE0)
        rec.require("history.exhaustive", "add_headers.%s.%s" % (m["rep"], m["feed"]), "history.exhaustive_with_refused_call")
        if m["feed"] == "peek":
            rec.require(*lazy_counters)
        if m["feed"] == "list":
            rec.require("add_headers.callers_list_compared")
        if m.get("cbq"):
            rec.require("callback.queries_tracker")
            if spec.get("locks", "none") != "none":
                rec.require("lock_to_index.listener_queries_tracker")
        if spec.get("locks", "none") != "none":
            rec.require("lock_to_index", "history.exhaustive_with_lock", "history.with_lock", "add_headers.after_lock")
        if spec.get("dups", 0) >= spec.get("nmin", 1):
            rec.require("history.exhaustive_with_duplicate", "history.with_duplicate")
            if spec.get("locks", "none") == "all":
                rec.require("add_headers.redelivers_locked_header", "lock_to_index.while_chains_tie")
        run_exh(spec, rec, BlockChain)
    else:
        rec.require("lock_to_index", "history.sampled", "history.twin", "history.duel", "add_headers.shared.list",
                    "add_headers.fresh.list", "add_headers.fresh.gen", "add_headers.block.list", "add_headers.block.tuple",
                    "add_headers.not_read_back", "add_headers.empty_batch", "add_headers.after_lock",
                    "add_headers.redelivers_locked_header", "lock_to_index.while_chains_tie",
                    "history.with_duplicate", "history.with_lock", "history.with_several_locks",
                    "ops_callback.second_listener", "add_headers.callers_list_compared", "callback.queries_tracker", "lock_to_index.listener_queries_tracker",
                    "add_headers.fresh.peek", "add_headers.block.peek", "delivery.judged_after_refused_call_on_another_tracker",
                    *(lazy_counters + ["add_headers.with_unreadable_item." + k for k in BAD_KINDS] +
                      ["lock_to_index.bad_argument." + k for k in BAD_LOCKS]))
        run_rand(spec, rec, BlockChain)


def replay_case(case, rec):
    BlockChain = _imports()
    hdrs = [tuple(h) for h in case["hdrs"]]
    norm = lambda evs: [tuple(e) if e[0] in "lL" else (e[0], list(e[1])) + tuple(e[2:]) for e in evs]
    events = norm(case["events"])
    mode = _case_mode(case)
    rec.case(history_key(hdrs, events, case["anchor"]))
    if "peer_events" in case:
        peer = norm(case["peer_events"])
        ea, eb = (events, peer) if case.get("failed_side", "a") == "a" else (peer, events)
        bad = run_twin(BlockChain, case["anchor"], hdrs, ea, eb, rec, mode, case.get("raw"))
    else:
        bad, lengths = run_history(BlockChain, case["anchor"], hdrs, events, rec, None, mode, case.get("raw"))
        rec.note("reported lengths after each event: %r" % (lengths,))
    if bad:
        rec.violation(*bad)


# ---------------------------------------------------------------------------------------------------------
# the monitor judged on two models that do not come from pycoin: a correct one and a broken one

class _ModelChain(object):
    """Straightforward tracker: recompute the best chain from scratch after every delivery."""

    def __init__(self, anchor, unlocked_block_storage=None, broken=None):
        self.anchor, self.broken = anchor, broken
        self.d, self.objs, self.chain, self.nlocked, self.cbs = {}, {}, [], 0, []
        self.seen, self.was_read = set(), False

    def add_change_callback(self, f):
        self.cbs.append(f)

    def length(self):
        self.was_read = True
        return len(self.chain)

    def tuple_for_index(self, i):
        self.was_read = True
        h = self.chain[i]
        return (h, self.chain[i - 1] if i else self.anchor, self.d[h][1])

    def hash_for_index(self, i):
        return self.tuple_for_index(i)[0]

    def index_for_hash(self, h):
        if self.broken == "identity_lookup":
            for i, x in enumerate(self.chain):
                if x is h:
                    return i
            return None
        if self.broken == "stale_index" and h in self.d and h not in self.chain and h in getattr(self, "ever", ()):
            return 0
        return self.chain.index(h) if h in self.chain else None

    def last_block_hash(self):
        return self.chain[-1] if self.chain else self.anchor

    def lock_to_index(self, k):
        self.nlocked = max(self.nlocked, k)

    def add_headers(self, batch):
        self.was_read = False
        if self.broken == "leak_on_refusal":
            # notes a hash as known while it reads the batch, registers the headers once the whole batch has been read
            new = []
            for hd in batch:
                if hd.hash() not in self.seen:
                    self.seen.add(hd.hash())
                    new.append(hd)
            batch = new
        for hd in batch:
            self.d.setdefault(hd.hash(), (hd.previous_block_hash, hd.difficulty))
            self.objs.setdefault(hd.hash(), hd)
        if self.broken == "stale_when_read_while_consuming" and self.was_read:
            for f in self.cbs:      # a query made while the batch was consumed refilled its memo: nothing seems to have changed
                f(self, [])
            return []
        locked = self.chain[:self.nlocked]
        best = self.chain
        bw = RC.chain_weight(best, self.d)
        for c in RC.all_chains(self.d, self.anchor):
            if c[:len(locked)] == locked:
                w = RC.chain_weight(c, self.d)
                if self.broken == "no_reorg" and c[:len(self.chain)] != self.chain:
                    continue
                if w > bw:
                    best, bw = c, w
        k = 0
        while k < min(len(best), len(self.chain)) and best[k] == self.chain[k]:
            k += 1
        ops = [("remove", self.objs[self.chain[i]], i) for i in range(len(self.chain) - 1, k - 1, -1)]
        adds = [("add", self.objs[best[i]], i) for i in range(k, len(best))]
        if self.broken == "add_before_remove":
            ops = adds + ops
        else:
            ops = ops + adds
        self.ever = set(getattr(self, "ever", ())) | set(self.chain)
        self.chain = list(best)
        for f in (self.cbs[:1] if self.broken == "one_listener" else self.cbs):
            f(self, ops)
        return ops


def _selftest_monitor():
    import random
    rng = random.Random(11)
    rec = _NullRec()
    out = {}
    for broken, expect in ((None, None), ("no_reorg", "chain.nonmax"), ("add_before_remove", "chain.ops_not_applicable"),
                           ("stale_index", "chain.index_for_hash_knows_offchain_hash")):
        factory = lambda anchor, unlocked_block_storage=None, b=broken: _ModelChain(anchor, broken=b)
        mechs = {}
        runs = 0
        for n in (2, 3):
            anchor, labels, unknown = make_labels("asc", "shared", n, rng)
            for pf in RC.parent_functions(n):
                hdrs = [(labels[i], anchor if pf[i] == RC.ANCHOR else unknown[i] if pf[i] == RC.UNKNOWN else labels[pf[i]], 1 + (i == 1))
                        for i in range(n)]
                for order in itertools.permutations(range(n)):
                    for sizes in RC.batchings(n):
                        events, k = [], 0
                        for s in sizes:
                            events.append(("d", order[k:k + s]))
                            k += s
                        bad, lengths = run_history(factory, anchor, hdrs, events, rec)
                        runs += 1
                        if not bad and len(events) > 1 and lengths[0]:
                            events.insert(1, ("l", 1))
                            bad, _ = run_history(factory, anchor, hdrs, events, rec)
                            runs += 1
                        if bad:
                            base = bad[2]["symptom"]
                            mechs[base] = mechs.get(base, 0) + 1
        if expect is None:
            assert not mechs, ("monitor fires on a correct model", mechs)
        else:
            assert expect in mechs, ("monitor misses a broken model", broken, mechs)
        out[str(broken)] = {"histories": runs, "mechanisms": mechs}
    # a tracker that compares hashes by identity: invisible with one shared table of hash objects, seen with fresh ones
    # and with one-shot batches the model must still work
    for rp, scheme, expect in (("shared", "bigasc", None), ("fresh", "bigasc", "chain.index_for_hash_wrong_index"),
                               ("fresh", "bytes", "chain.index_for_hash_wrong_index")):
        for broken in ("identity_lookup", None):
            factory = lambda anchor, unlocked_block_storage=None, b=broken: _ModelChain(anchor, broken=b)
            mode = {"rep": rp, "ctor": "own", "feed": "gen" if broken is None else "list"}
            mechs, runs = {}, 0
            anchor, labels, unknown = make_labels(scheme, "shared", 3, rng)
            for pf in RC.parent_functions(3):
                hdrs = [(labels[i], anchor if pf[i] == RC.ANCHOR else unknown[i] if pf[i] == RC.UNKNOWN else labels[pf[i]], 1)
                        for i in range(3)]
                for order in itertools.permutations(range(3)):
                    bad, _ = run_history(factory, anchor, hdrs, [("d", [i]) for i in order], rec, None, mode)
                    runs += 1
                    if bad:
                        mechs[bad[2]["symptom"]] = mechs.get(bad[2]["symptom"], 0) + 1
            if broken is None or expect is None:
                assert not mechs, ("monitor fires", rp, scheme, broken, mechs)
            else:
                assert expect in mechs, ("monitor misses identity comparison", rp, scheme, mechs)
            out["%s/%s/%s" % (broken, rp, scheme)] = {"histories": runs, "mechanisms": mechs}
    # a tracker whose memo is refilled by a query made while it consumes the batch: invisible with lists and silent
    # generators, seen when the iterable looks at the tracker; a tracker that keeps half of a refused delivery: invisible
    # when the refusal comes before anything was consumed, seen (under the key of that input class) when it comes later;
    # the correct model registers what it read before the refusal and reports it at the next delivery - also fine
    for broken, feed, expect in ((None, "peek", None), ("stale_when_read_while_consuming", "gen", None),
                                 ("stale_when_read_while_consuming", "peek", "chain.nonmax"),
                                 (None, "refuse", None), ("leak_on_refusal", "refuse0", None),
                                 ("leak_on_refusal", "refuse", "chain.wrong_after_refused_delivery")):
        factory = lambda anchor, unlocked_block_storage=None, b=broken: _ModelChain(anchor, broken=b)
        mechs, runs = {}, 0
        anchor, labels, unknown = make_labels("asc", "shared", 3, rng)
        for pf in RC.parent_functions(3):
            hdrs = [(labels[i], anchor if pf[i] == RC.ANCHOR else unknown[i] if pf[i] == RC.UNKNOWN else labels[pf[i]], 1)
                    for i in range(3)]
            for order in itertools.permutations(range(3)):
                if feed.startswith("refuse"):
                    kind = BAD_KINDS[runs % len(BAD_KINDS)]
                    pos = 0 if feed == "refuse0" else 1 + runs % 2
                    if pos == 0 and kind in BAD_HEADERS:    # (this model reads all hashes first: it would keep the damaged copy's)
                        kind = "hash_raises"
                    events = [("d", [order[0]]), ("x", list(order[1:]), pos, kind, order[runs % 3]), ("d", list(order[1:])),
                              ("L", "none"), ("d", [])]
                    mode = dict(MODE0, feed=("list", "gen", "peek")[runs % 3], peek0=runs)
                else:
                    events = [("d", [order[0]]), ("d", list(order[1:]))]
                    mode = dict(MODE0, feed=feed, peek0=runs, cbq=True)
                bad, _ = run_history(factory, anchor, hdrs, events, rec, None, mode)
                runs += 1
                if bad:
                    mechs[bad[0]] = mechs.get(bad[0], 0) + 1
        assert (not mechs) if expect is None else (set(mechs) == {expect}), ("queries/refusals", broken, feed, mechs)
        out["%s/%s" % (broken, feed)] = {"histories": runs, "mechanisms": mechs}
    # a tracker that only tells its first listener: invisible with one listener, seen with two
    for ncb, expect in ((1, None), (2, "chain.callback_ops_replay_differs_from_chain")):
        factory = lambda anchor, unlocked_block_storage=None: _ModelChain(anchor, broken="one_listener")
        mechs, runs = {}, 0
        anchor, labels, unknown = make_labels("asc", "shared", 3, rng)
        for pf in RC.parent_functions(3):
            hdrs = [(labels[i], anchor if pf[i] == RC.ANCHOR else unknown[i] if pf[i] == RC.UNKNOWN else labels[pf[i]], 1)
                    for i in range(3)]
            bad, _ = run_history(factory, anchor, hdrs, [("d", [0, 1]), ("d", [2])], rec, None, dict(MODE0, cbs=ncb))
            runs += 1
            if bad:
                mechs[bad[0]] = mechs.get(bad[0], 0) + 1
        assert (not mechs) if expect is None else (set(mechs) == {expect}), ("listeners", ncb, mechs)
        out["one_listener/%d listeners" % ncb] = {"histories": runs, "mechanisms": mechs}
    return out
