"""C15 — header-chain tracking reports a heaviest chain whatever the arrival order.

A case is a *history*: headers (hash, parent, weight), then a list of events, each a delivery
["d", [header indices]] handed to BlockChain.add_headers as one batch, or a lock ["l", k] = lock_to_index(k).
After every delivery the reported chain and both lookup directions are read back through the public API and
judged against vmon/refs/chain.py; the ops returned and the ops sent to a registered callback are replayed on
two lists that must equal the reported chain.
"""
import hashlib
import itertools

from vmon.probe import shard_rng, observe
from vmon.refs import chain as RC

PROPERTY = "C15"
LEVEL = "exploration"
TECHNIQUE = ("offline checker over API histories of BlockChain vs a from-the-definition heaviest-chain oracle; exhaustive "
             "enumeration of forests x delivery orders x batchings x single locks for small N under several hash labelings")
RULE = ("histories = headers (hash, parent, weight>0) + events (batches handed to add_headers, lock_to_index calls). "
        "Exhaustive part: every acyclic parent function on N labelled headers (parent = anchor | another header | never-"
        "delivered hash) x every delivery permutation x every batching, N<=4 (quick) / N<=5 (thorough), each also with "
        "every single lock_to_index(k), 1<=k<=length, between two batches (N<=4, in quick for three of the five labelings and sampled for the others; "
        "sampled for N=5) and, for N<=3 (N<=4 in thorough for two labelings), with every single re-delivery of one header, "
        "under hash labelings "
        "ascending / descending / scattered ints / 32-byte strings with several PYTHONHASHSEEDs. Sampled part: N=6..14, "
        "random positive integer weights, re-delivered headers, several locks. A history is distinct by (forest renamed "
        "by first-delivery position, delivery order, batch sizes, locks, weights when not all 1) - labelings of the same "
        "history are NOT counted as distinct - and non-trivial when it contains a fork or an orphan (a header delivered "
        "before its parent or whose parent never arrives); plain in-order chains are counted under history.plain. In the "
        "thorough N=5 sweep only every 8th history is entered in the distinct set (memory), so that count is a lower bound.")
ASSUMPTIONS = [
    "vmon/refs/chain.py (max-weight chain by definition; DP cross-checked against brute-force path enumeration on every "
    "run) is correct",
    "a hash identifies a header: a re-delivered hash always carries the same parent and weight (duplicates are the same "
    "header again); weights are positive integers; the anchor hash is never delivered; no cycles",
    "the reported chain is [hash_for_index(i) for i in range(length())]; ties between equal-weight chains may be broken "
    "either way, but the ops must then reproduce whichever chain is reported",
    "lock_to_index(k) is only called with 0 <= k <= length(); the locked prefix is the first k entries of the chain "
    "reported (and judged correct) after the preceding delivery",
    "the statement speaks about the state after each delivery; nothing is judged between a lock and the next delivery",
]
EXPLANATION = ("after each add_headers: chain parent-linked from the anchor through delivered headers, starts with the locked "
               "prefix, has the oracle's maximum weight, index_for_hash/hash_for_index/tuple_for_index/last_block_hash agree "
               "with it, returned ops and callback ops replayed from an empty list equal it. The first violating step ends a "
               "history (later steps run on corrupted state).")
TIMEOUT = {"quick": 900, "thorough": 3 * 3600}

ZERO = b"\0" * 32


def exhaustive(tier):
    return False      # the N<=4 / N<=5 sub-space is enumerated completely, the property's quantifier is not


def configurations(tier):
    return ["labeling=%s unknown-parents=%s weights=%s PYTHONHASHSEED=%s" % c for c in _label_configs(tier)]


def _label_configs(tier):
    # (labeling, never-delivered parents shared or one per header, weights, PYTHONHASHSEED)
    cfg = [("asc", "shared", "unit", 0), ("desc", "shared", "unit", 0), ("scat", "distinct", "mixed", 0),
           ("bytes", "distinct", "unit", 0), ("bytes", "shared", "mixed", 1)]
    if tier != "quick":
        cfg += [("desc", "distinct", "mixed", 0), ("scat", "shared", "unit", 0), ("bytes", "distinct", "unit", 2)]
    return cfg


def plan(tier, seed):
    shards = []
    cfgs = _label_configs(tier)
    if tier == "quick":
        for ci, (sch, unk, wm, hs) in enumerate(cfgs):
            parts = 3
            for p in range(parts):
                shards.append({"kind": "exh", "nmax": 4, "scheme": sch, "unk": unk, "weights": wm, "part": p, "parts": parts,
                               "locks": "all" if ci in (0, 2, 4) else "sample", "dups": 3,
                               "env": {"PYTHONHASHSEED": hs}, "label": "exh4-%s-%s-%d" % (sch, unk, p)})
        for i in range(16):
            shards.append({"kind": "rand", "n": 5000, "env": {"PYTHONHASHSEED": i % 3}, "label": "rand%d" % i})
    else:
        parts5 = 32
        for sch, unk, wm, hs in cfgs[:4]:
            for p in range(parts5):
                shards.append({"kind": "exh", "nmin": 5, "nmax": 5, "scheme": sch, "unk": unk, "weights": wm, "part": p,
                               "parts": parts5, "locks": "sample", "distinct_every": 8, "env": {"PYTHONHASHSEED": hs},
                               "label": "exh5-%s-%s-%d" % (sch, unk, p)})
        for ci, (sch, unk, wm, hs) in enumerate(cfgs):
            parts = 8 if ci in (0, 3) else 2
            for p in range(parts):
                shards.append({"kind": "exh", "nmax": 4, "scheme": sch, "unk": unk, "weights": wm, "part": p, "parts": parts,
                               "locks": "all", "dups": 4 if ci in (0, 3) else 3, "env": {"PYTHONHASHSEED": hs},
                               "label": "exh4-%s-%s-%d" % (sch, unk, p)})
        for i in range(32):
            shards.append({"kind": "rand", "n": 100000, "env": {"PYTHONHASHSEED": i % 4}, "label": "rand%d" % i})
    return shards


def selftest(rec):
    r = RC.selftest()
    # the monitor itself on a correct toy implementation and on a deliberately wrong one
    r["monitor_on_models"] = _selftest_monitor()
    return r


# ---------------------------------------------------------------------------------------------------------

class Hdr(object):
    """What BlockChain needs from a header: hash(), previous_block_hash, difficulty."""
    __slots__ = ("h", "previous_block_hash", "difficulty")

    def __init__(self, h, parent, weight):
        self.h = h
        self.previous_block_hash = parent
        self.difficulty = weight

    def hash(self):
        return self.h

    def __repr__(self):
        return "Hdr(%r<-%r w=%r)" % (self.previous_block_hash, self.h, self.difficulty)


def _imports():
    from pycoin.blockchain.BlockChain import BlockChain
    return BlockChain


def _new_chain(BlockChain, anchor):
    return BlockChain(anchor, unlocked_block_storage={})


def _ops_plain(ops):
    out = []
    for op in ops:
        try:
            out.append([op[0], op[1].hash(), op[2]])
        except Exception:
            out.append(repr(op)[:80])
    return out


def _midpath_predicate(hdrs, events):
    """F15-a's input class, label-independent: some batch first-delivers a header m while (i) a child of m was
    delivered in an earlier batch (an orphan tree waits on m) and (ii) the same batch first-delivers a proper
    descendant of m (so m can land in the middle of a merged path instead of at its bottom)."""
    known = set()
    parent = {}
    for ev in events:
        if ev[0] != "d":
            continue
        new = []
        for i in ev[1]:
            h, p, _w = hdrs[i]
            if h not in known and h not in new:
                new.append(h)
                parent[h] = p
        for m in new:
            if not any(parent[c] == m for c in known):
                continue
            for d in new:
                cur, steps = parent.get(d), 0
                while cur is not None and steps < 1000:
                    if cur == m:
                        return True
                    cur = parent.get(cur)
                    steps += 1
        known.update(new)
    return False


class Session(object):
    """One BlockChain under observation."""

    def __init__(self, BlockChain, anchor, rec):
        self.bc = _new_chain(BlockChain, anchor)
        self.anchor = anchor
        self.rec = rec
        self.delivered = {}
        self.locked = []
        self.replayed = []
        self.cb_replayed = []
        self.cb_pending = []
        self.chain = []
        self.relocked_delivery = False
        self.lock_on_tie = False
        pend = self.cb_pending

        def callback(_bc, ops):
            pend.append(list(ops))
        self._callback = callback           # BlockChain keeps callbacks in a WeakSet: hold a strong reference
        self.bc.add_change_callback(callback)

    def lock(self, k):
        """-> None or (mech, observed, expected)"""
        self.rec.ev("lock_to_index")
        if k > len(self.locked) and RC.count_best(self.delivered, self.anchor, self.locked) > 1:
            self.lock_on_tie = True
        st, r = observe(self.bc.lock_to_index, k)
        if st != "ok":
            return ("chain.lock_to_index_raises", r, "no exception")
        if k > len(self.locked):
            self.locked = list(self.chain[:k])
        return None

    def deliver(self, batch):
        """batch: list of Hdr. -> None or (mech, observed, expected)."""
        rec = self.rec
        bc = self.bc
        delivered = self.delivered
        lockset = set(self.locked)
        for hd in batch:
            if hd.h not in delivered:
                delivered[hd.h] = (hd.previous_block_hash, hd.difficulty)
            elif hd.h in lockset:
                self.relocked_delivery = True
        rec.ev("add_headers")
        st, ops = observe(bc.add_headers, batch)
        if st != "ok":
            return ("chain.add_headers_raises", ops, "a list of ops")
        # --- read the reported chain back
        rec.ev("length")
        st, n = observe(bc.length)
        if st != "ok":
            return ("chain.length_raises", n, "an int")
        chain = []
        for i in range(n):
            st, h = observe(bc.hash_for_index, i)
            if st != "ok":
                return ("chain.hash_for_index_raises", {"index": i, "length": n, "exc": h}, "a hash")
            chain.append(h)
        rec.ev("hash_for_index", n)
        self.chain = chain
        # (a) parent-linked from the anchor through delivered headers
        why = RC.linked_defect(chain, delivered, self.anchor)
        if why:
            return ("chain.not_linked", {"chain": chain, "why": why}, "a parent-linked chain from the anchor")
        # locked prefix kept
        if chain[:len(self.locked)] != self.locked:
            return ("chain.locked_prefix_changed", {"chain": chain}, {"locked_prefix": self.locked})
        # (b) maximum weight
        got_w = RC.chain_weight(chain, delivered)
        best = RC.best_weight(delivered, self.anchor, self.locked)
        if best is None:
            raise AssertionError("oracle: locked prefix is not a chain")
        if got_w != best:
            return ("chain.nonmax", {"chain": chain, "weight": got_w}, {"max_weight": best})
        # (c) lookups in both directions
        pos = {h: i for i, h in enumerate(chain)}
        rec.ev("index_for_hash", len(delivered))
        for h in delivered:
            st, idx = observe(bc.index_for_hash, h)
            if st != "ok":
                return ("chain.index_for_hash_raises", {"hash": h, "exc": idx}, pos.get(h))
            if idx != pos.get(h) or (idx is not None and type(idx) is not int):
                if h in pos:
                    return ("chain.index_for_hash_wrong_index", {"hash": h, "index_for_hash": idx, "chain": chain}, pos[h])
                return ("chain.index_for_hash_knows_offchain_hash", {"hash": h, "index_for_hash": idx, "chain": chain}, None)
        rec.ev("tuple_for_index", n)
        for i, h in enumerate(chain):
            st, t = observe(bc.tuple_for_index, i)
            want = (h, chain[i - 1] if i else self.anchor, delivered[h][1])
            if st != "ok" or tuple(t) != want:
                return ("chain.tuple_for_index_mismatch", {"index": i, "tuple": t, "chain": chain}, want)
        rec.ev("last_block_hash")
        st, last = observe(bc.last_block_hash)
        want = chain[-1] if chain else self.anchor
        if st != "ok" or last != want:
            return ("chain.last_block_hash_mismatch", {"last_block_hash": last, "chain": chain}, want)
        # (d) ops replay: returned ops, then callback ops
        rec.ev("ops_returned", len(ops))
        for op in ops:
            st, hh = observe(lambda: (op[0], op[1].hash(), op[2]))
            bad = "malformed op" if st != "ok" else RC.replay_op(self.replayed, *hh)
            if bad:
                return ("chain.ops_not_applicable", {"ops": _ops_plain(ops), "why": bad, "chain": chain}, "ops that replay")
        if self.replayed != chain:
            return ("chain.ops_replay_differs_from_chain", {"ops": _ops_plain(ops), "replayed": self.replayed, "chain": chain}, chain)
        for cops in self.cb_pending:
            rec.ev("ops_callback", len(cops))
            for op in cops:
                st, hh = observe(lambda: (op[0], op[1].hash(), op[2]))
                bad = "malformed op" if st != "ok" else RC.replay_op(self.cb_replayed, *hh)
                if bad:
                    return ("chain.callback_ops_not_applicable", {"ops": _ops_plain(cops), "why": bad, "chain": chain}, "ops that replay")
        del self.cb_pending[:]
        if self.cb_replayed != chain:
            return ("chain.callback_ops_replay_differs_from_chain", {"replayed": self.cb_replayed, "chain": chain}, chain)
        return None


CAUSES = {
    "chain.locked_header_redelivered": "a header that is already in the locked prefix was handed to add_headers again",
    "chain.lock_with_tied_chains": "lock_to_index was called while two different chains had the maximum weight",
    "chain.orphan_parent_midpath": "an orphan's missing parent arrived in the same batch as another of its descendants",
}


def classify(symptom, hdrs, events, sess):
    """Mechanism key = the input class (a predicate over the witness, never values) when one of the three classes
    with a recorded root cause applies, else the symptom itself."""
    if sess is not None and sess.relocked_delivery:
        return "chain.locked_header_redelivered"
    if sess is not None and sess.lock_on_tie:
        return "chain.lock_with_tied_chains"
    if _midpath_predicate(hdrs, events):
        return "chain.orphan_parent_midpath"
    return symptom


def run_history(BlockChain, anchor, hdrs, events, rec, objs=None):
    """Run one concrete history. Returns (verdict, lengths) where verdict is None or
    (mech, case, observed, expected) and lengths[i] = reported length after event i (None for locks)."""
    sess = Session(BlockChain, anchor, rec)
    if objs is None:
        objs = [Hdr(*h) for h in hdrs]
    lengths = []
    seen_idx = set()
    for k, ev in enumerate(events):
        if ev[0] == "l":
            bad = sess.lock(ev[1])
            lengths.append(None)
        else:
            batch = []
            for i in ev[1]:
                if i in seen_idx:       # a re-delivery is a fresh object with the same fields
                    batch.append(Hdr(*hdrs[i]))
                else:
                    seen_idx.add(i)
                    batch.append(objs[i])
            bad = sess.deliver(batch)
            lengths.append(len(sess.chain))
        if bad:
            done = [list(e) if e[0] == "l" else ["d", list(e[1])] for e in events[:k + 1]]
            case = {"anchor": anchor, "hdrs": [list(h) for h in hdrs], "events": done}
            mech = classify(bad[0], hdrs, done, sess)
            return (mech, case, {"symptom": bad[0], "seen": bad[1]}, bad[2]), lengths
    return None, lengths


# ---------------------------------------------------------------------------------------------------------
# labelings

def make_labels(scheme, unk, n, rng):
    """-> (anchor, [hash of header i], [hash used as header i's never-delivered parent])"""
    if scheme == "asc":
        anchor, labels = 0, list(range(1, n + 1))
        unknown = [100 + i for i in range(n)]
    elif scheme == "desc":
        anchor, labels = 0, [9 + n - i for i in range(n)]
        unknown = [100 + i for i in range(n)]
    elif scheme == "scat":
        pool = set()
        while len(pool) < 2 * n + 1:
            r = rng.random()
            if r < 0.35:
                pool.add(8 * rng.randrange(1, 64))                    # all in one slot of a small table
            elif r < 0.6:
                pool.add(rng.randrange(1, 1 << 12))
            elif r < 0.8:
                pool.add(-rng.randrange(2, 1 << 20))
            else:
                pool.add(rng.randrange(1 << 40, 1 << 52))
        pool = list(pool)
        rng.shuffle(pool)
        anchor, labels, unknown = pool[0], pool[1:n + 1], pool[n + 1:2 * n + 1]
    elif scheme == "bytes":
        salt = b"%d" % rng.randrange(1 << 30)
        mk = lambda tag, i: hashlib.blake2b(b"%s:%s:%d" % (salt, tag, i), digest_size=32).digest()
        anchor, labels, unknown = ZERO, [mk(b"h", i) for i in range(n)], [mk(b"u", i) for i in range(n)]
    else:
        raise ValueError(scheme)
    if unk == "shared":
        unknown = [unknown[0]] * n
    return anchor, labels, unknown


def history_key(hdrs, events, anchor):
    """Label-independent identity of a history (see RULE)."""
    pos = {}
    order = []
    shape = []
    for ev in events:
        if ev[0] == "d":
            for i in ev[1]:
                h = hdrs[i][0]
                if h not in pos:
                    pos[h] = len(pos)
                order.append(pos[h])
            shape.append(len(ev[1]))
        else:
            shape.append(-ev[1] - 1)
    by_pos = sorted(pos, key=pos.get)
    par = {h[0]: h[1] for h in reversed(hdrs)}
    parents = tuple(-1 if par[h] == anchor else pos.get(par[h], -2) for h in by_pos)
    wts = tuple({h[0]: h[2] for h in reversed(hdrs)}[h] for h in by_pos)
    if all(w == 1 for w in wts):
        wts = ()
    return parents, tuple(order), tuple(shape), wts


def nontrivial(key):
    parents = key[0]
    fork = len([p for p in parents if p != -2]) != len(set(p for p in parents if p != -2))
    orphan = any(p == -2 or p > i for i, p in enumerate(parents))
    return fork or orphan


def _count_case(rec, hdrs, events, anchor, counted=True):
    key = history_key(hdrs, events, anchor)
    nt = nontrivial(key)
    rec.case(key, nontrivial=nt and counted)
    if not nt:
        rec.ev("history.plain")
    return key


# ---------------------------------------------------------------------------------------------------------
# exhaustive shards

def _with_locks(BlockChain, rec, anchor, hdrs, objs, events, lengths, lock_mode, lrng, tick):
    """every (or one sampled) single lock_to_index(k), 1 <= k <= reported length, between two batches"""
    variants = [(j, k) for j in range(len(events) - 1) for k in range(1, lengths[j] + 1)]
    if lock_mode == "sample":
        if not variants or lrng.random() > 0.12:
            return
        variants = [lrng.choice(variants)]
    for j, k in variants:
        ev2 = events[:j + 1] + [("l", k)] + events[j + 1:]
        rec.ev("history.exhaustive_with_lock")
        _count_case(rec, hdrs, ev2, anchor, tick())
        bad, _ = run_history(BlockChain, anchor, hdrs, ev2, rec, objs)
        if bad:
            rec.violation(*bad)


def _split(order, sizes):
    events, k = [], 0
    for s in sizes:
        events.append(("d", order[k:k + s]))
        k += s
    return events


def run_exh(spec, rec, BlockChain):
    rng = shard_rng(spec["seed"], PROPERTY, "labels", spec["scheme"] + spec["unk"])
    lrng = shard_rng(spec["seed"], PROPERTY, spec["tier"], spec["shard"], "locks")
    part, parts = spec["part"], spec["parts"]
    lock_mode = spec.get("locks", "none")
    every = spec.get("distinct_every", 1)
    counter = [0]

    def tick():
        counter[0] += 1
        return counter[0] % every == 0
    fcount = 0
    for n in range(spec.get("nmin", 1), spec["nmax"] + 1):
        anchor, labels, unknown = make_labels(spec["scheme"], spec["unk"], n, rng)
        wts = [1] * n if spec.get("weights", "unit") == "unit" else [(3 * i + 2) % 4 + 1 for i in range(n)]
        perms = list(itertools.permutations(range(n)))
        sizes_all = list(RC.batchings(n))
        sizes_dup = list(RC.batchings(n + 1))
        for pf in RC.parent_functions(n):
            fcount += 1
            if fcount % parts != part:
                continue
            hdrs = [(labels[i], anchor if pf[i] == RC.ANCHOR else unknown[i] if pf[i] == RC.UNKNOWN else labels[pf[i]], wts[i])
                    for i in range(n)]
            objs = [Hdr(*h) for h in hdrs]
            for order in perms:
                for sizes in sizes_all:
                    events = _split(order, sizes)
                    rec.ev("history.exhaustive")
                    _count_case(rec, hdrs, events, anchor, tick())
                    bad, lengths = run_history(BlockChain, anchor, hdrs, events, rec, objs)
                    if bad:
                        rec.violation(*bad)
                    elif lock_mode != "none" and len(events) > 1:
                        _with_locks(BlockChain, rec, anchor, hdrs, objs, events, lengths, lock_mode, lrng, tick)
                if n > spec.get("dups", 0):
                    continue
                # one header delivered twice: every header x every later position x every batching (x locks)
                for a in range(n):
                    for b in range(a + 1, n + 1):
                        order2 = order[:b] + (order[a],) + order[b:]
                        for sizes in sizes_dup:
                            events = _split(order2, sizes)
                            rec.ev("history.exhaustive_with_duplicate")
                            _count_case(rec, hdrs, events, anchor, tick())
                            bad, lengths = run_history(BlockChain, anchor, hdrs, events, rec, objs)
                            if bad:
                                rec.violation(*bad)
                            elif lock_mode != "none" and len(events) > 1:
                                _with_locks(BlockChain, rec, anchor, hdrs, objs, events, lengths, lock_mode, lrng, tick)
    rec.sample({"kind": "exhaustive", "scheme": spec["scheme"], "anchor": anchor, "hdrs": hdrs,
                "events": [[e[0], list(e[1])] for e in events]})


# ---------------------------------------------------------------------------------------------------------
# sampled shards

def gen_history(rng):
    """-> (anchor, hdrs, plan) where plan is a list of batches of header indices (with re-deliveries) and a lock
    decision per gap; lock indices are chosen at run time from the reported length."""
    n = rng.choice([6, 7, 8, 9, 10, 11, 12, 13, 14])
    scheme = rng.choice(["asc", "desc", "scat", "scat", "bytes", "bytes"])
    anchor, labels, unknown = make_labels(scheme, rng.choice(["shared", "distinct"]), n, rng)
    rng.shuffle(labels)
    style = rng.random()
    par = []
    for i in range(n):
        r = rng.random()
        if i == 0 or r < 0.07:
            par.append(RC.ANCHOR if (i == 0 and rng.random() < 0.9) or r < 0.04 else RC.UNKNOWN)
        elif style < 0.4:
            par.append(i - 1 if rng.random() < 0.75 else rng.randrange(i))      # long chains with forks
        elif style < 0.7:
            par.append(rng.randrange(i))                                        # bushy
        else:
            par.append(rng.randrange(max(0, i - 3), i))                         # forks near the tip
    wmode = rng.random()
    if wmode < 0.4:
        wts = [1] * n
    elif wmode < 0.8:
        wts = [rng.randrange(1, 5) for _ in range(n)]
    else:
        wts = [rng.choice([1, 2, 3, 1000, 10**6, 2**64 + 1, rng.randrange(1, 10**4)]) for _ in range(n)]
    hdrs = [(labels[i], anchor if par[i] == RC.ANCHOR else unknown[i] if par[i] == RC.UNKNOWN else labels[par[i]], wts[i])
            for i in range(n)]
    order = list(range(n))
    o = rng.random()
    if o < 0.25:
        order.reverse()                                  # children before parents
    elif o < 0.5:
        for _ in range(rng.randrange(1, 4)):             # mostly in order, a few displaced
            a, b = rng.randrange(n), rng.randrange(n)
            order[a], order[b] = order[b], order[a]
    else:
        rng.shuffle(order)
    for _ in range(rng.choice([0, 0, 1, 2, 4])):         # re-deliveries
        src = rng.randrange(len(order))
        order.insert(rng.randrange(src, len(order) + 1), order[src])
    cut = rng.choice([0.15, 0.4, 0.7])
    batches = [[]]
    for i in order:
        if batches[-1] and rng.random() < cut:
            batches.append([])
        batches[-1].append(i)
    if rng.random() < 0.1:
        batches.insert(rng.randrange(len(batches) + 1), [])      # an empty delivery
    lockp = rng.choice([0.0, 0.15, 0.35, 0.6])
    return anchor, hdrs, batches, lockp


def run_rand(spec, rec, BlockChain):
    rng = shard_rng(spec["seed"], PROPERTY, spec["tier"], spec["shard"])
    for it in range(spec["n"]):
        anchor, hdrs, batches, lockp = gen_history(rng)
        sess = Session(BlockChain, anchor, rec)
        events = []
        seen = set()
        bad = None
        for bi, b in enumerate(batches):
            batch = []
            for i in b:
                batch.append(Hdr(*hdrs[i]))
                seen.add(i)
            events.append(["d", list(b)])
            bad = sess.deliver(batch)
            if bad:
                break
            if bi < len(batches) - 1 and rng.random() < lockp:
                n = len(sess.chain)
                k = rng.choice([n, max(0, n - 1), rng.randrange(0, n + 1), rng.randrange(0, n + 1), 1 if n else 0])
                events.append(["l", k])
                bad = sess.lock(k)
                if bad:
                    break
        rec.ev("history.sampled")
        _count_case(rec, hdrs, events, anchor)
        if bad:
            case = {"anchor": anchor, "hdrs": [list(h) for h in hdrs], "events": events}
            mech = classify(bad[0], hdrs, events, sess)
            small = shrink(BlockChain, case, mech, bad[0])
            if small:
                rec.violation(*small)
            else:       # not reproducible from the recorded events: report as seen
                rec.violation(mech, case, {"symptom": bad[0], "seen": bad[1], "note": "did not reproduce on re-run"}, bad[2])
        elif it < 2:
            rec.sample({"kind": "sampled", "anchor": anchor, "hdrs": hdrs, "events": events,
                        "final_chain": sess.chain})


class _NullRec(object):
    def ev(self, *a, **k):
        pass


def _rerun(BlockChain, case):
    bad, _ = run_history(BlockChain, case["anchor"], [tuple(h) for h in case["hdrs"]], case["events"], _NullRec())
    return bad


def shrink(BlockChain, case, mech, symptom, budget=400):
    """Greedy: drop whole events, then single headers, while the same mechanism key and symptom are reported.
    -> (mech, case, observed, expected) of the smallest history found, or None."""
    cur = _rerun(BlockChain, case)
    if cur is None or cur[0] != mech:
        return None
    changed = True
    while changed and budget > 0:
        changed = False
        c0 = cur[1]
        cands = []
        for k in range(len(c0["events"])):
            cands.append({"anchor": c0["anchor"], "hdrs": c0["hdrs"], "events": c0["events"][:k] + c0["events"][k + 1:]})
        used = sorted({i for e in c0["events"] if e[0] == "d" for i in e[1]})
        for i in used:
            evs = [[e[0], [x for x in e[1] if x != i]] if e[0] == "d" else list(e) for e in c0["events"]]
            cands.append({"anchor": c0["anchor"], "hdrs": c0["hdrs"], "events": evs})
        for c in cands:
            budget -= 1
            if budget <= 0:
                break
            try:
                r = _rerun(BlockChain, c)
            except Exception:
                continue
            if r is not None and r[0] == mech and r[2]["symptom"] == symptom:
                cur = r
                changed = True
                break
    # drop unused headers
    c0 = cur[1]
    used = sorted({i for e in c0["events"] if e[0] == "d" for i in e[1]})
    ren = {i: k for k, i in enumerate(used)}
    small = {"anchor": c0["anchor"], "hdrs": [c0["hdrs"][i] for i in used],
             "events": [[e[0], [ren[x] for x in e[1]]] if e[0] == "d" else list(e) for e in c0["events"]]}
    r = _rerun(BlockChain, small)
    return r if r is not None and r[0] == mech else cur


# ---------------------------------------------------------------------------------------------------------

def run_shard(spec, rec):
    BlockChain = _imports()
    rec.require("add_headers", "hash_for_index", "index_for_hash", "tuple_for_index", "last_block_hash",
                "ops_returned", "ops_callback")
    if spec["kind"] == "exh":
        if spec.get("locks", "none") != "none":
            rec.require("lock_to_index")
        run_exh(spec, rec, BlockChain)
    else:
        rec.require("lock_to_index")
        run_rand(spec, rec, BlockChain)


def replay_case(case, rec):
    BlockChain = _imports()
    hdrs = [tuple(h) for h in case["hdrs"]]
    events = [tuple(e) if e[0] == "l" else ("d", list(e[1])) for e in case["events"]]
    bad, lengths = run_history(BlockChain, case["anchor"], hdrs, events, rec)
    rec.case(history_key(hdrs, events, case["anchor"]))
    rec.note("reported lengths after each event: %r" % (lengths,))
    if bad:
        rec.violation(*bad)


# ---------------------------------------------------------------------------------------------------------
# the monitor judged on two models that do not come from pycoin: a correct one and a broken one

class _ModelChain(object):
    """Straightforward tracker: recompute the best chain from scratch after every delivery."""

    def __init__(self, anchor, unlocked_block_storage=None, broken=None):
        self.anchor, self.broken = anchor, broken
        self.d, self.objs, self.chain, self.nlocked, self.cbs = {}, {}, [], 0, []

    def add_change_callback(self, f):
        self.cbs.append(f)

    def length(self):
        return len(self.chain)

    def tuple_for_index(self, i):
        h = self.chain[i]
        return (h, self.chain[i - 1] if i else self.anchor, self.d[h][1])

    def hash_for_index(self, i):
        return self.tuple_for_index(i)[0]

    def index_for_hash(self, h):
        if self.broken == "stale_index" and h in self.d and h not in self.chain and h in getattr(self, "ever", ()):
            return 0
        return self.chain.index(h) if h in self.chain else None

    def last_block_hash(self):
        return self.chain[-1] if self.chain else self.anchor

    def lock_to_index(self, k):
        self.nlocked = max(self.nlocked, k)

    def add_headers(self, batch):
        for hd in batch:
            self.d.setdefault(hd.hash(), (hd.previous_block_hash, hd.difficulty))
            self.objs.setdefault(hd.hash(), hd)
        locked = self.chain[:self.nlocked]
        best = self.chain
        bw = RC.chain_weight(best, self.d)
        for c in RC.all_chains(self.d, self.anchor):
            if c[:len(locked)] == locked:
                w = RC.chain_weight(c, self.d)
                if self.broken == "no_reorg" and c[:len(self.chain)] != self.chain:
                    continue
                if w > bw:
                    best, bw = c, w
        k = 0
        while k < min(len(best), len(self.chain)) and best[k] == self.chain[k]:
            k += 1
        ops = [("remove", self.objs[self.chain[i]], i) for i in range(len(self.chain) - 1, k - 1, -1)]
        adds = [("add", self.objs[best[i]], i) for i in range(k, len(best))]
        if self.broken == "add_before_remove":
            ops = adds + ops
        else:
            ops = ops + adds
        self.ever = set(getattr(self, "ever", ())) | set(self.chain)
        self.chain = list(best)
        for f in self.cbs:
            f(self, ops)
        return ops


def _selftest_monitor():
    import random
    rng = random.Random(11)
    rec = _NullRec()
    out = {}
    for broken, expect in ((None, None), ("no_reorg", "chain.nonmax"), ("add_before_remove", "chain.ops_not_applicable"),
                           ("stale_index", "chain.index_for_hash_knows_offchain_hash")):
        factory = lambda anchor, unlocked_block_storage=None, b=broken: _ModelChain(anchor, broken=b)
        mechs = {}
        runs = 0
        for n in (2, 3):
            anchor, labels, unknown = make_labels("asc", "shared", n, rng)
            for pf in RC.parent_functions(n):
                hdrs = [(labels[i], anchor if pf[i] == RC.ANCHOR else unknown[i] if pf[i] == RC.UNKNOWN else labels[pf[i]], 1 + (i == 1))
                        for i in range(n)]
                for order in itertools.permutations(range(n)):
                    for sizes in RC.batchings(n):
                        events, k = [], 0
                        for s in sizes:
                            events.append(("d", order[k:k + s]))
                            k += s
                        bad, lengths = run_history(factory, anchor, hdrs, events, rec)
                        runs += 1
                        if not bad and len(events) > 1 and lengths[0]:
                            events.insert(1, ("l", 1))
                            bad, _ = run_history(factory, anchor, hdrs, events, rec)
                            runs += 1
                        if bad:
                            base = bad[2]["symptom"]
                            mechs[base] = mechs.get(base, 0) + 1
        if expect is None:
            assert not mechs, ("monitor fires on a correct model", mechs)
        else:
            assert expect in mechs, ("monitor misses a broken model", broken, mechs)
        out[str(broken)] = {"histories": runs, "mechanisms": mechs}
    return out
