"""C05 — signing standard inputs yields valid canonical signatures, changing nothing else."""
import hashlib
import itertools

from vmon.probe import shard_rng, observe
from vmon.refs import script as RS
from vmon.refs import sighash as SH
from vmon.refs.ec import SECP256K1 as C
from vmon.gen import scriptgen as G

PROPERTY = "C05"
PRELOAD_NETWORK_ORDERS = [["btc", "xtn", "ltc", "bch", "grs", "doge", "dash", "btg"], ["btg", "grs", "bch", "doge", "ltc", "xtn", "btc"]]
LEVEL = "exploration"
TECHNIQUE = "offline checker over recorded signing histories: after every tx.sign / sign_tx step the real transaction is re-validated by pycoin and by the reference interpreter, signatures are checked for canonical form, and a field-level frame snapshot is compared"
RULE = ("signing histories: a transaction of 1-5 inputs over the standard puzzle kinds (P2PK, P2PKH, P2WPKH, P2SH-P2WPKH, bare/P2SH/P2WSH/P2SH-P2WSH "
        "m-of-n with every 1<=m<=n<=4 plus n=7,15 under P2SH and n=16,20 under P2WSH, m up to 12), compressed/uncompressed keys, hash types "
        "ALL/NONE/SINGLE x ANYONECANPAY, key supply by dict lookup / WIF list / Keychain with BIP32 paths, signed all at once, in two passes, "
        "restricted to an index set, or one multisig key at a time in a chosen order, with wrong or too few keys mixed in; on BTC, XTN, LTC, BCH, "
        "BTG, GRS, DOGE, DASH and a rotating sample of the other networks. Distinct by (network, puzzle kinds, key form, hash type, supply, order).")
ASSUMPTIONS = [
    "standard policy flag set = all 16 verification flags pycoin defines (on fork-id coins without STRICTENC, as the statement prescribes)",
    "validity is decided twice: by pycoin's own is_solution_ok under that flag set and by the reference interpreter (vmon/refs/script.py) on the "
    "bytes pycoin produced; for BCH/BTG the reference uses the BIP143 digest with the fork id folded in for every signature and requires the 0x40 bit",
    "puzzle scripts are built by the harness from the templates' byte definitions, not by pycoin's contract API",
    "an input is 'asked for' when its index is in tx_in_idx_set (default: all); inputs already valid before a pass must come out byte-identical",
    "hierarchical-keychain histories use compressed keys only (BIP32 keys are compressed by definition; Keychain.add_key_paths indexes the "
    "compressed hash160); they keep ONE keychain for the whole history, register public paths first and add cosigner secrets pass by pass",
]
EXPLANATION = "validity (pycoin and reference), canonical signature form, frame condition and the m-distinct-keys model are checked after every signing step"
TIMEOUT = {"quick": 900, "thorough": 4 * 3600}

ALL16 = 0xffff
CORE_NETS = ["BTC", "XTN", "LTC", "BCH", "BTG", "GRS", "DOGE", "DASH"]
FORK = {"BCH": ("bch", 0), "XCH": ("bch", 0), "BTG": ("btg", 79 << 8), "XTG": ("btg", 79 << 8)}
GRS_NETS = ("GRS", "TGRS", "GRSRT")


def plan(tier, seed):
    q = tier == "quick"
    shards = []
    n = 16 if q else 64
    for i in range(n):
        shards.append({"kind": "hist", "n": 80 if q else 700, "slot": i, "env": {"PYTHONHASHSEED": str(i % 5)}})
    return shards


def configurations(tier):
    return CORE_NETS + ["rotating sample of the other registered networks"]


def selftest(rec):
    import os
    import pycoin
    from vmon.refs import coretext
    d = os.path.join(os.path.dirname(os.path.dirname(pycoin.__file__)), "tests", "btc", "data")
    return coretext.selftest(d)


def sha256(b):
    return hashlib.sha256(b).digest()


hash160 = G.hash160


# ---------------------------------------------------------------------------------------------------
# reference checker with fork-id support

class ForkChecker(RS.TxChecker):
    def __init__(self, tx, n_in, amount, fork):
        kind, fork_or = fork
        H = SH.sha if kind == "grs" else SH.dsha
        RS.TxChecker.__init__(self, tx, n_in, amount, H=H, fork_or=fork_or)
        self.kind = kind

    def check_sig(self, sig, pubkey, script_code, sigversion):
        if self.kind in ("bch", "btg") and sig and not (sig[-1] & 0x40) and sigversion == RS.SIGVERSION_BASE:
            # (witness-v0 checks are left out of the refusal clause: these coins have no segwit, and the statement's
            # "fork-id variants" are the digests that replace the legacy algorithm)
            # fork-id coins REFUSE a hash type without the fork-id bit: the signature check does not merely come out
            # false (which "... CHECKSIG NOT" would turn into success), the spend fails (BCH: SCRIPT_ERR_MUST_USE_FORKID)
            raise RS.ScriptErr("MUST_USE_FORKID")
        return RS.TxChecker.check_sig(self, sig, pubkey, script_code, sigversion)

    def sighash(self, script_code, hash_type, sigversion):
        if self.kind in ("bch", "btg"):
            return SH.bip143(self.tx, self.n_in, script_code, self.amount, hash_type, self.H, self.fork_or)
        return RS.TxChecker.sighash(self, script_code, hash_type, sigversion)


# ---------------------------------------------------------------------------------------------------

class HDKeys(G.Keys):
    """keys that are BIP32 children of a few cosigner roots, for the hierarchical Keychain supply mechanism.
    (Derivation itself is C09's business; here pycoin derives, the harness only needs to know the keys.)"""

    def __init__(self, net, count=24, roots=4):
        self.roots = [net.keys.bip32_seed(b"vmon-cosigner-%d" % j) for j in range(roots)]
        self.path = ["%d/%d%s" % (i % 3, i, "" if i % 4 else "/7") for i in range(count)]
        self.root_of = [i % roots for i in range(count)]
        self.d = [self.roots[self.root_of[i]].subkey_for_path(self.path[i]).secret_exponent() for i in range(count)]
        self.P = [C.mul(d, C.G) for d in self.d]
        self._sig = {}


class Puzzle:
    """one input's locking arrangement"""

    def __init__(self, kind, spk, scripts, key_idx, m, compressed, amount):
        self.kind, self.spk, self.scripts, self.key_idx, self.m, self.compressed, self.amount = kind, spk, scripts, key_idx, m, compressed, amount

    def brief(self):
        return "%s%s" % (self.kind, "" if self.m is None else "(%d/%d)" % (self.m, len(self.key_idx)))


def make_puzzle(rng, keys, kind, nkeys_total, amount, force_compressed=False):
    push = G.push
    if kind in ("p2pk", "p2pkh", "p2wpkh", "p2sh-p2wpkh"):
        ki = rng.randrange(nkeys_total)
        comp = True if (kind in ("p2wpkh", "p2sh-p2wpkh") or force_compressed) else rng.random() < 0.7
        pub = keys.sec(ki, comp)
        if kind == "p2pk":
            return Puzzle(kind, push(pub) + b"\xac", [], [ki], None, [comp], amount)
        if kind == "p2pkh":
            return Puzzle(kind, b"\x76\xa9\x14" + hash160(pub) + b"\x88\xac", [], [ki], None, [comp], amount)
        prog = b"\x00\x14" + hash160(pub)
        if kind == "p2wpkh":
            return Puzzle(kind, prog, [], [ki], None, [comp], amount)
        return Puzzle(kind, b"\xa9\x14" + hash160(prog) + b"\x87", [prog], [ki], None, [comp], amount)
    wrapper = kind.split(":")[1]
    limit = {"bare": 4, "p2sh": 15, "p2wsh": 20, "p2sh-p2wsh": 20}[wrapper]
    r = rng.random()
    if r < 0.7:
        n = rng.randrange(1, 5)
    elif wrapper == "p2sh":
        n = rng.choice([7, 15])
    elif wrapper in ("p2wsh", "p2sh-p2wsh"):
        n = rng.choice([7, 15, 16, 20])
    else:
        n = rng.randrange(1, 5)
    n = min(n, limit)
    m = rng.randrange(1, min(n, 12) + 1) if n > 4 else rng.randrange(1, n + 1)
    if n > 4 and rng.random() < 0.5:
        m = rng.choice([1, 2, min(n, 9), min(n, 10), min(n, 11), min(n, 12)])
    idx = [i % nkeys_total for i in rng.sample(range(max(n, nkeys_total)), n)] if n <= nkeys_total else list(range(n))
    witness_kind = wrapper in ("p2wsh", "p2sh-p2wsh")
    comp = [True if (witness_kind or force_compressed or wrapper == "p2sh" and n > 7) else rng.random() < 0.8 for _ in idx]
    pubs = [keys.sec(i, c) for i, c in zip(idx, comp)]
    script = G.num(m) + b"".join(push(p) for p in pubs) + G.num(n) + b"\xae"
    if wrapper == "bare":
        return Puzzle(kind, script, [], idx, m, comp, amount)
    if wrapper == "p2sh":
        return Puzzle(kind, b"\xa9\x14" + hash160(script) + b"\x87", [script], idx, m, comp, amount)
    prog = b"\x00\x20" + sha256(script)
    if wrapper == "p2wsh":
        return Puzzle(kind, prog, [script], idx, m, comp, amount)
    return Puzzle(kind, b"\xa9\x14" + hash160(prog) + b"\x87", [prog, script], idx, m, comp, amount)


KINDS = ["p2pk", "p2pkh", "p2pkh", "p2wpkh", "p2sh-p2wpkh", "ms:bare", "ms:p2sh", "ms:p2sh", "ms:p2wsh", "ms:p2sh-p2wsh"]


class History:
    def __init__(self, rec, net, netcode, rng, keys):
        self.rec, self.net, self.netcode, self.rng, self.keys = rec, net, netcode, rng, keys
        self.fork = FORK.get(netcode, ("grs", 0) if netcode in GRS_NETS else ("", 0))
        self.flags = ALL16 & ~RS.STRICTENC if self.fork[0] in ("bch", "btg") else ALL16
        self.log = []
        self.kc = None

    # -- construction ------------------------------------------------------------------------------
    def build(self):
        rng, Tx = self.rng, self.net.tx
        n_in = rng.choice([1, 1, 2, 2, 3, 5])
        hd = isinstance(self.keys, HDKeys)      # BIP32 keys are compressed by definition
        self.puzzles = [make_puzzle(rng, self.keys, rng.choice(KINDS), len(self.keys.d), rng.choice([1000, 600000000, 21 * 10 ** 14]), force_compressed=hd)
                        for _ in range(n_in)]
        ins = [Tx.TxIn(G.rand_prev(rng), rng.randrange(4), b"", rng.choice([0xffffffff, 0xfffffffe, 0, 12345])) for _ in self.puzzles]
        n_out = rng.choice([1, 2, 3]) if rng.random() < 0.85 else max(1, n_in - 1)
        outs = [Tx.TxOut(rng.choice([0, 1, 5000, 10 ** 8]), rng.choice([b"\x51", b"\x76\xa9\x14" + bytes(20) + b"\x88\xac", b"\x6a\x01\x07"])) for _ in range(n_out)]
        unspents = [Tx.TxOut(p.amount, p.spk) for p in self.puzzles]
        self.tx = Tx(rng.choice([1, 2]), ins, outs, rng.choice([0, 0, 17, 500000001]), unspents)
        self.hash_type = rng.choice([None, 1, 1, 2, 3, 0x81, 0x82, 0x83])
        if self.fork[0] in ("bch", "btg") and rng.random() < 0.3:
            # the caller may already include the fork-id bit in the requested type
            self.hash_type = rng.choice([0x41, 0x42, 0x43, 0xc1, 0xc2, 0xc3])
        self.signed_keys = [set() for _ in self.puzzles]     # key indices that have signed each input so far

    # -- observation ---------------------------------------------------------------------------------
    def frame(self):
        t = self.tx
        return {"version": t.version, "lock_time": t.lock_time, "outpoints": [(i.previous_hash, i.previous_index) for i in t.txs_in],
                "sequences": [i.sequence for i in t.txs_in], "outs": [(o.coin_value, bytes(o.script)) for o in t.txs_out],
                "unspents": [(u.coin_value, bytes(u.script)) for u in t.unspents],
                "unlock": [(bytes(i.script), tuple(bytes(w) for w in i.witness)) for i in t.txs_in]}

    def as_ref_tx(self):
        t = self.tx
        return {"version": t.version, "lock_time": t.lock_time,
                "ins": [{"prev": i.previous_hash, "index": i.previous_index, "script": bytes(i.script), "sequence": i.sequence,
                         "witness": [bytes(w) for w in i.witness]} for i in t.txs_in],
                "outs": [{"value": o.coin_value, "script": bytes(o.script)} for o in t.txs_out]}

    def shared_checker_verdicts(self, flags, order):
        """one SolutionChecker instance used for every input (the alternative public entry point to Tx.is_solution_ok,
        which builds a fresh checker per call): verdicts must not depend on what the instance checked before"""
        from pycoin.coins.SolutionChecker import ScriptError
        sc = self.tx.SolutionChecker(self.tx)
        out = {}
        for i in order:
            try:
                sc.check_solution(sc.tx_context_for_idx(i), flags=flags)
                out[i] = True
            except ScriptError:
                out[i] = False
            except Exception as e:
                out[i] = "EXC:%s" % type(e).__name__
        self.rec.ev("SolutionChecker.check_solution(shared instance)", len(out))
        return [out[i] for i in range(len(order))]

    def verdicts(self):
        """(pycoin verdict, reference verdict) per input under the standard flag set"""
        ref_tx = self.as_ref_tx()
        out = []
        n = len(self.puzzles)
        if n > 1:
            fresh = [observe(self.tx.is_solution_ok, i, flags=self.flags)[1] for i in range(n)]
            for order in (list(range(n)), list(range(n - 1, -1, -1))):
                shared = self.shared_checker_verdicts(self.flags, order)
                if shared != fresh:
                    self.rec.violation("validity.shared_checker_instance_differs", self.case({"order": order}), shared, fresh)
        for i, p in enumerate(self.puzzles):
            st, ok = observe(self.tx.is_solution_ok, i, flags=self.flags)
            self.rec.ev("Tx.is_solution_ok")
            chk = ForkChecker(ref_tx, i, p.amount, self.fork)
            ti = ref_tx["ins"][i]
            r = RS.result_of(RS.verify_script, ti["script"], p.spk, ti["witness"], self.flags, chk)
            out.append((ok if st == "ok" else "EXC:%s" % type(ok).__name__, r))
        return out

    def case(self, extra=None):
        d = {"net": self.netcode, "coord": getattr(self, "coord", None), "puzzles": [p.brief() for p in self.puzzles], "hash_type": self.hash_type, "steps": self.log,
             "compressed": [p.compressed for p in self.puzzles]}
        d.update(extra or {})
        return d

    # -- key supply ------------------------------------------------------------------------------------
    def scripts_lookup(self):
        scripts = [s for p in self.puzzles for s in p.scripts]
        return self.net.tx.solve.build_p2sh_lookup(scripts), scripts

    def sign_with(self, key_indices, mechanism, idx_set=None):
        """one signing pass supplying exactly these keys"""
        net, tx = self.net, self.tx
        secrets = [self.keys.d[k] for k in sorted(key_indices)]
        p2sh_lookup, scripts = self.scripts_lookup()
        kwargs = {}
        if self.hash_type is not None:
            kwargs["hash_type"] = self.hash_type
        if idx_set is not None:
            # any collection spelling of the index set, the empty one included
            form = self.rng.choice([set, list, tuple, frozenset, sorted])
            kwargs["tx_in_idx_set"] = form(idx_set) if idx_set else self.rng.choice([set(), [], (), frozenset(), range(0)])
        self.log.append({"keys": sorted(key_indices), "via": mechanism, "idx_set": sorted(idx_set) if idx_set is not None else None})
        if mechanism == "dict":
            lookup = net.tx.solve.build_hash160_lookup(secrets)
            st, r = observe(tx.sign, lookup, p2sh_lookup=p2sh_lookup, **kwargs)
            self.rec.ev("Tx.sign")
        elif mechanism == "wif":
            wifs = []
            for k in sorted(key_indices):
                # a WIF carries one compression flag; supply both forms so either script form can be solved
                wifs.append(net.keys.private(self.keys.d[k], is_compressed=True).wif())
            st, r = observe(net.tx_utils.sign_tx, tx, wifs, p2sh_lookup=p2sh_lookup, **kwargs)
            self.rec.ev("tx_utils.sign_tx")
        elif mechanism == "keychain_hd":
            # one persistent hierarchical keychain per history: public paths registered up front, cosigner secrets
            # arrive pass by pass (a key is available once its root's secret has been added)
            if self.kc is None:
                self.kc = net.keychain()
                # the same leaves can be described from the master ("a/b...") or from an account node ("b..."): histories
                # alternate, so that keychains living in one process describe one leaf under different (root, path) pairs
                self.kc_via_account = self.rng.random() < 0.5
                self.kc_roots = set()
                if not self.kc_via_account:
                    for j, root in enumerate(self.keys.roots):
                        self.kc.add_key_paths(root.public_copy(), [self.keys.path[i] for i in range(len(self.keys.d)) if self.keys.root_of[i] == j])
                else:
                    for j, root in enumerate(self.keys.roots):
                        for acct in ("0", "1", "2"):
                            rest = [self.keys.path[i].split("/", 1)[1] for i in range(len(self.keys.d))
                                    if self.keys.root_of[i] == j and self.keys.path[i].split("/", 1)[0] == acct]
                            if rest:
                                self.kc.add_key_paths(root.subkey_for_path(acct).public_copy(), rest)
                self.kc.add_p2s_scripts(scripts)
            for k in sorted(key_indices):
                self.kc_roots.add(self.keys.root_of[k])
            if not self.kc_via_account:
                self.kc.add_secrets([self.keys.roots[j] for j in sorted(self.kc_roots)])
            else:
                self.kc.add_secrets([self.keys.roots[j].subkey_for_path(acct) for j in sorted(self.kc_roots) for acct in ("0", "1", "2")])
            st, r = observe(tx.sign, self.kc, p2sh_lookup=self.kc, **kwargs)
            self.rec.ev("Tx.sign(keychain_hd)")
        else:
            kc = net.keychain()
            kc.add_secrets([net.keys.private(s) for s in secrets])
            kc.add_p2s_scripts(scripts)
            st, r = observe(tx.sign, kc, p2sh_lookup=kc, **kwargs)
            self.rec.ev("Tx.sign(keychain)")
        if st != "ok":
            self.rec.violation("sign.raises.%s" % type(r).__name__, self.case(), r, "signing returns")
            return False
        return True

    def effective_keys(self, key_indices, mechanism):
        """keys really available to the signer in this pass"""
        if mechanism != "keychain_hd":
            return set(key_indices)
        roots = set(getattr(self, "kc_roots", set())) | {self.keys.root_of[k] for k in key_indices}
        return {i for i in range(len(self.keys.d)) if self.keys.root_of[i] in roots}

    def generator(self):
        from pycoin.ecdsa.secp256k1 import secp256k1_generator
        return secp256k1_generator

    # -- oracles --------------------------------------------------------------------------------------
    def expected_valid(self, i):
        p = self.puzzles[i]
        have = self.signed_keys[i] & set(p.key_idx)
        need = p.m if p.m is not None else 1
        # positions matter: distinct *listed keys*; the same key listed twice counts per listing in Core, but the harness never lists duplicates
        return len(have) >= need

    def check_canonical(self, i):
        """signatures inside a valid input's unlocking data: strict DER, low S, requested hash type, minimal pushes"""
        p = self.puzzles[i]
        ti = self.tx.txs_in[i]
        items, pc, script = [], 0, bytes(ti.script)
        while pc < len(script):
            ok, opcode, data, npc = SH.get_op(script, pc)
            if not ok or opcode > 0x60:
                self.rec.violation("canonical.scriptsig_not_push_only", self.case({"input": i, "script": script}), opcode, "push only")
                return
            if opcode <= 0x4e and not RS.check_minimal_push(data, opcode):
                self.rec.violation("canonical.nonminimal_push", self.case({"input": i, "script": script}), opcode, "minimal push")
            items.append(data if opcode <= 0x4e else RS.num_encode(opcode - 0x50))
            pc = npc
        items += [bytes(w) for w in ti.witness]
        known_scripts = set(p.scripts)
        pubs = {self.keys.sec(k, c) for k, c in zip(p.key_idx, p.compressed)}
        want_ht = (self.hash_type or 1) | (0x40 if self.fork[0] in ("bch", "btg") else 0)
        nsig = 0
        for it in items:
            if it in known_scripts or it in pubs or len(it) == 0:
                continue
            nsig += 1
            self.rec.ev("signature_inspected")
            if not RS.is_valid_signature_encoding(it):
                self.rec.violation("canonical.not_strict_der", self.case({"input": i, "sig": it}), it, "strict DER")
                continue
            rs = RS.parse_der_lax(it[:-1])
            if rs is None or rs[1] > C.n // 2 or rs[1] == 0:
                self.rec.violation("canonical.high_s", self.case({"input": i, "sig": it}), it, "s <= n/2")
            if it[-1] != want_ht:
                self.rec.violation("canonical.wrong_hash_type", self.case({"input": i, "sig": it}), it[-1], want_ht)
        need = p.m if p.m is not None else 1
        if nsig != need:
            self.rec.violation("canonical.signature_count", self.case({"input": i, "items": items}), nsig, need)

    def check_step(self, before, asked, already_valid, what):
        """after a signing pass: validity model, frame condition, canonical form"""
        after = self.frame()
        v = self.verdicts()
        for k in ("version", "lock_time", "outpoints", "sequences", "outs", "unspents"):
            if before[k] != after[k]:
                self.rec.violation("frame.%s_changed" % k, self.case(), after[k], before[k])
        for i, p in enumerate(self.puzzles):
            if i not in asked and before["unlock"][i] != after["unlock"][i]:
                self.rec.violation("frame.unasked_input_changed", self.case({"input": i}), after["unlock"][i], before["unlock"][i])
            if i in already_valid and before["unlock"][i] != after["unlock"][i]:
                self.rec.violation("frame.valid_input_resigned", self.case({"input": i}), after["unlock"][i], before["unlock"][i])
            py_ok, ref = v[i]
            exp = self.expected_valid(i)
            kind = p.kind.replace(":", "_")
            if py_ok is not exp:
                if exp:
                    self.rec.violation("validity.signed_input_invalid.%s%s" % (kind, ".m>=9" if (p.m or 0) >= 9 else ""), self.case({"input": i, "ref": ref}), py_ok, True)
                else:
                    self.rec.violation("validity.underSigned_input_reported_valid.%s" % kind, self.case({"input": i, "ref": ref}), py_ok, False)
            if (ref == "OK") is not exp:
                if exp:
                    self.rec.violation("validity.reference_rejects_signed_input.%s.%s" % (kind, ref), self.case({"input": i}), ref, "OK")
                else:
                    self.rec.violation("validity.reference_accepts_undersigned_input.%s" % kind, self.case({"input": i}), ref, "not OK")
            if exp and py_ok is True and ref == "OK":
                self.check_canonical(i)
                self.rec.ev("input_validated_both")
        st, bad = observe(self.tx.bad_solution_count, flags=self.flags)
        want_bad = sum(0 if self.expected_valid(i) else 1 for i in range(len(self.puzzles)))
        self.rec.ev("Tx.bad_solution_count")
        if st != "ok" or bad != want_bad:
            self.rec.violation("validity.bad_solution_count", self.case(), bad, want_bad)
        return after, v

    # -- scenarios --------------------------------------------------------------------------------------
    def run(self):
        rng = self.rng
        mech = rng.choice(["dict", "dict", "wif", "keychain", "keychain_hd", "keychain_hd"])
        if self.netcode in GRS_NETS and mech == "wif":
            mech = "dict"       # WIF text needs groestlcoin_hash, absent here
        if mech == "keychain_hd":
            self.keys = hd_universe(self.net, self.netcode)
        self.build()
        uncompressed_needed = any(not c for p in self.puzzles for c in p.compressed)
        if mech == "keychain" and False:
            pass
        scenario = rng.choice(["all", "all", "two_pass", "idx_set", "one_key_at_a_time", "wrong_keys", "resign_after_edit"])
        self.scenario = scenario + "/" + mech
        n = len(self.puzzles)
        before = self.frame()
        if scenario == "all":
            keys = {k for p in self.puzzles for k in p.key_idx[:p.m] if p.m is not None} | {k for p in self.puzzles if p.m is None for k in p.key_idx}
            # sign multisig with a chosen m-subset rather than the first m keys
            keys = set()
            chosen = []
            for p in self.puzzles:
                sub = sorted(rng.sample(p.key_idx, p.m)) if p.m is not None else list(p.key_idx)
                chosen.append(set(sub))
                keys |= set(sub)
            if self.sign_with(keys, mech):
                eff = self.effective_keys(keys, mech)
                for i, p in enumerate(self.puzzles):
                    self.signed_keys[i] |= (eff & set(p.key_idx))
                self.check_step(before, set(range(n)), set(), "all")
        elif scenario == "two_pass":
            first = set(rng.sample(range(n), max(1, n // 2)))
            k1 = {k for i in first for k in self.puzzles[i].key_idx}
            if self.sign_with(k1, mech):
                eff = self.effective_keys(k1, mech)
                for i, p in enumerate(self.puzzles):
                    self.signed_keys[i] |= (eff & set(p.key_idx))
                mid, _ = self.check_step(before, set(range(n)), set(), "pass1")
                valid_now = {i for i in range(n) if self.expected_valid(i)}
                k2 = {k for p in self.puzzles for k in p.key_idx}
                if self.sign_with(k2, mech):
                    for i, p in enumerate(self.puzzles):
                        self.signed_keys[i] |= set(p.key_idx)
                    self.check_step(mid, set(range(n)), valid_now, "pass2")
        elif scenario == "idx_set":
            asked = set(rng.sample(range(n), rng.randrange(0, n + 1)))
            keys = {k for p in self.puzzles for k in p.key_idx}
            if self.sign_with(keys, mech, idx_set=asked):
                for i in asked:
                    self.signed_keys[i] |= set(self.puzzles[i].key_idx)
                self.check_step(before, asked, set(), "idx_set")
        elif scenario == "one_key_at_a_time":
            # every listed key of every input, one pass per key, in a random order; stop adding once all are valid
            order = sorted({k for p in self.puzzles for k in p.key_idx})
            rng.shuffle(order)
            cur = before
            for k in order[:10]:
                valid_now = {i for i in range(n) if self.expected_valid(i)}
                if not self.sign_with({k}, mech):
                    break
                eff = self.effective_keys({k}, mech)
                for i, p in enumerate(self.puzzles):
                    if i not in valid_now:
                        self.signed_keys[i] |= (eff & set(p.key_idx))
                cur, _ = self.check_step(cur, set(range(n)), valid_now, "key %d" % k)
        elif scenario == "resign_after_edit":
            # sign everything, then the caller edits the transaction (stale signatures stay in place) and signs again
            keys = {k for p in self.puzzles for k in p.key_idx}
            if self.sign_with(keys, mech):
                eff = self.effective_keys(keys, mech)
                for i, p in enumerate(self.puzzles):
                    self.signed_keys[i] |= (eff & set(p.key_idx))
                mid, _ = self.check_step(before, set(range(n)), set(), "first")
                edit = rng.choice(["out_value", "lock_time", "add_output", "sequence"])
                if edit == "out_value":
                    self.tx.txs_out[0].coin_value += 1
                elif edit == "lock_time":
                    self.tx.lock_time += 1
                elif edit == "add_output":
                    self.tx.txs_out.append(self.net.tx.TxOut(3, b"\x51"))
                else:
                    self.tx.txs_in[-1].sequence ^= 2
                self.log.append({"edit": edit})
                still_valid = {i for i in range(n) if self.tx.is_solution_ok(i, flags=self.flags)}
                self.rec.ev("resign.inputs_invalidated_by_edit", n - len(still_valid))
                mid2 = self.frame()
                if self.sign_with(keys, mech):
                    self.check_step(mid2, set(range(n)), still_valid, "resign")
        else:   # wrong_keys: keys that are not listed, or too few
            listed = {k for p in self.puzzles for k in p.key_idx}
            others = [k for k in range(len(self.keys.d)) if k not in listed]
            supply = set(rng.sample(others, min(len(others), 2))) if others else set()
            for p in self.puzzles:
                if p.m is not None and p.m > 1:
                    supply |= set(rng.sample(p.key_idx, p.m - 1))       # too few
            if self.sign_with(supply, mech):
                eff = self.effective_keys(supply, mech)
                for i, p in enumerate(self.puzzles):
                    self.signed_keys[i] |= (eff & set(p.key_idx))
                self.check_step(before, set(range(n)), set(), "wrong_keys")
        kinds = tuple(sorted(p.brief() for p in self.puzzles))
        self.rec.case((self.netcode, kinds, tuple(tuple(p.compressed) for p in self.puzzles), self.hash_type, self.scenario, tuple(tuple(s.get("keys") or [s.get("edit")]) for s in self.log)))
        self.rec.ev("scenario:" + scenario)
        self.rec.ev("net:" + self.netcode)


_HD = {}


def hd_universe(net, code):
    if code not in _HD:
        _HD[code] = HDKeys(net)
    return _HD[code]


def networks_for_slot(slot):
    from pycoin.networks.registry import network_codes
    codes = sorted(network_codes())
    others = [c for c in codes if c not in CORE_NETS]
    return CORE_NETS[slot % len(CORE_NETS)], others[slot % len(others)], others[(slot * 7 + 3) % len(others)]


def run_shard(spec, rec):
    from pycoin.networks.registry import network_for_netcode
    rec.require("Tx.is_solution_ok", "input_validated_both")
    keys = G.Keys(24)
    core, o1, o2 = networks_for_slot(spec["slot"] + spec["seed"])
    plan_nets = [core] * 6 + [o1, o2]
    for k in range(spec["n"]):
        code = plan_nets[k % len(plan_nets)]
        net = network_for_netcode(code)
        # every history has its own generator, so a stored case can be re-run exactly from its coordinates
        rng = shard_rng(spec["seed"], PROPERTY, spec["tier"], spec["shard"], salt=k)
        h = History(rec, net, code, rng, keys)
        h.coord = [spec["seed"], spec["tier"], spec["shard"], k]
        try:
            h.run()
        except Exception as e:          # harness or library crash: make it visible with the history that caused it
            import traceback
            rec.violation("history.crash.%s" % type(e).__name__, h.case({"tb": traceback.format_exc()[-1500:]}), repr(e), "no exception")
        if k < 2:
            rec.sample({"net": code, "puzzles": [p.brief() for p in h.puzzles], "hash_type": h.hash_type, "scenario": getattr(h, "scenario", "?"), "steps": h.log})


def replay_case(case, rec):
    """re-run exactly the stored history: its generator is a function of (seed, tier, shard, k)"""
    from pycoin.networks.registry import network_for_netcode
    keys = G.Keys(24)
    net = network_for_netcode(case["net"])
    seed, tier, shard, k = case["coord"]
    h = History(rec, net, case["net"], shard_rng(seed, PROPERTY, tier, shard, salt=k), keys)
    h.coord = case["coord"]
    try:
        h.run()
    except Exception as e:
        rec.violation("history.crash.%s" % type(e).__name__, h.case(), repr(e), "no exception")
    rec.note("history replayed: %s" % h.log)
