"""C05 — signing standard inputs yields valid canonical signatures, changing nothing else."""
import hashlib
import itertools

from vmon.probe import shard_rng, observe
from vmon.refs import script as RS
from vmon.refs import sighash as SH
from vmon.refs.ec import SECP256K1 as C
from vmon.gen import scriptgen as G

PROPERTY = "C05"
PRELOAD_NETWORK_ORDERS = [["btc", "xtn", "ltc", "bch", "grs", "doge", "dash", "btg"], ["btg", "grs", "bch", "doge", "ltc", "xtn", "btc"]]
LEVEL = "exploration"
TECHNIQUE = "offline checker over recorded signing histories: after every tx.sign / sign_tx step the real transaction is re-validated by pycoin and by the reference interpreter, signatures are checked for canonical form, and a field-level frame snapshot is compared"
RULE = ("signing histories: a transaction of 1-5 inputs over the standard puzzle kinds (P2PK, P2PKH, P2WPKH, P2SH-P2WPKH, bare/P2SH/P2WSH/P2SH-P2WSH "
        "m-of-n with every 1<=m<=n<=4 plus 5<=n<=20 for bare / P2WSH / P2SH-P2WSH and 5<=n<=15 under P2SH (mixed key forms up to the 520-byte "
        "redeem script), every 1<=m<=n biased to 1, 2, 13, n-1, n), compressed/uncompressed keys, hash types ALL/NONE/SINGLE x ANYONECANPAY "
        "(with the fork-id bit pre-set or not on fork-id coins), possibly changing from one pass to the next, key supply by dict lookup / WIF list "
        "(either compression flag) / Keychain / Keychain with BIP32 paths, signed all at once, in two passes, restricted to an index set, one "
        "multisig key at a time in a chosen order (then a closing pass with exactly the missing number of keys, the largest multisig receiving "
        "its last key alone), signed-edited-signed again, with wrong or too few keys; on BTC, XTN, LTC, BCH, BTG, GRS, DOGE, DASH and, walking "
        "shard by shard, every other registered network. Distinct by (network, puzzle kinds, key form, hash type, supply, order). Every puzzle "
        "kind, supply mechanism, hash-type byte, network and partial-signing situation has a required evidence counter. "
        "Key supply by ONE keychain holding several secrets (keychain_multi): four wallets - two of them unrelated masters whose root "
        "fingerprints collide - registered from the public or private master, from account nodes, from both, or by add_keys_path, "
        "their secrets arriving as the master alone, the master plus its own root key as a plain compressed / uncompressed key, the "
        "same master as two objects, account nodes plus master, in one shuffled order, wallets added again in later passes, inputs "
        "paying to the root keys themselves. Between judged passes, calls the library refuses: the same transaction holding for "
        "that call a value that does not fit its field or has the wrong type (lock time, version, sequence, outpoint index, amounts, "
        "output script, unknown spent output), unusable arguments (hash type, index set, non-integer secret, lookup without get, "
        "non-bytes scripts, non-integer secret to build_hash160_lookup, non-WIF to sign_tx), another transaction of this or "
        "another coin with such a value; Tx.sign or one kept Solver per transaction. Argument objects of the caller (lookup "
        "dicts, WIF / key / script lists, index collections) are compared after every call and either rebuilt, handed over again "
        "or emptied by the caller. Exact boundary values of every hashed field (amounts 0, 2**32-1 .. 2**64-1, sequence / index / "
        "lock time / version at 16-, 31-, 32-bit edges, 252-254 outputs, output scripts of 252-254 and 65535-65536 bytes). One "
        "long-run shard: ONE keychain, ONE transaction object, more than 2**16 + 100 secrets added one by one (thorough: 2**17 + 100), "
        "every answer of the keychain compared with the reference's running point sum, signing sampled and dense at the boundaries. "
        "One history in three hands the caller's collections of secrets, keys, BIP32 paths and redeem / witness scripts to every entry "
        "point that takes an iterable (build_hash160_lookup, build_p2sh_lookup, Keychain.add_secrets / add_p2s_scripts / add_key_paths / "
        "add_keys_path) not as a list but as a generator, iter(), map(), itertools.chain, a bare iterator object (walk-once-only, three "
        "times in four), a tuple, a dict key view or an object with __iter__ only; one spelling per entry point for the whole history, "
        "drawn from a generator of its own so that all other choices of the history are unchanged. Every entry point (scripts: in "
        "the redeem-script and in the witness-script role) has a required counter as the source of a validated input.")
ASSUMPTIONS = [
    "standard policy flag set = all 16 verification flags pycoin defines (on fork-id coins without STRICTENC, as the statement prescribes)",
    "validity is decided twice: by pycoin's own is_solution_ok under that flag set and by the reference interpreter (vmon/refs/script.py) on the "
    "bytes pycoin produced; for BCH/BTG the reference uses the BIP143 digest with the fork id folded in for every signature and requires the 0x40 bit",
    "puzzle scripts are built by the harness from the templates' byte definitions, not by pycoin's contract API",
    "an input is 'asked for' when its index is in tx_in_idx_set (default: all); inputs already valid before a pass must come out byte-identical "
    "(after an edit of the transaction, 'already valid' is the reference interpreter's verdict, not pycoin's)",
    "no hash type requested = SIGHASH_ALL; when the request changes between passes every signature must carry the type of one of the passes "
    "that could have signed its input",
    "pycoin's verdict is read by truthiness; an exception from tx.sign / sign_tx is a violation only when it leaves an input invalid although "
    "its keys were supplied (mechanism sign.raises.<type>), not when nothing was solvable",
    "hierarchical-keychain histories use compressed keys only (BIP32 keys are compressed by definition; Keychain.add_key_paths indexes the "
    "compressed hash160); they keep ONE keychain for the whole history, register public paths first and add cosigner secrets pass by pass",
    "a key held by a keychain counts as supplied when the private node its path was registered under has been added (whatever else "
    "was added before or after it, under the same 4-byte fingerprint or not); a leaf registered under two nodes needs either",
    "a call the library refuses is never judged by itself; the judged pass that follows uses the same keys and request, so whatever "
    "the refused call managed to write is what the pass would have written",
    "the caller's argument objects are compared by value (dict / list / set contents and list order) before and after the call",
    "'the caller supplies the needed keys and redeem scripts' does not depend on the container: wherever the library's parameter is an "
    "iterable of secrets / keys / paths / scripts, any iterable yielding the same elements in the same order supplies the same keys and "
    "scripts, a walk-once-only one included (judged by the signed transaction only, never by the contents of a lookup table; the WIF "
    "list of sign_tx and the index set stay what their names say)",
    "long run: Keychain.get is the interface the signer reads a keychain through; an answer that is not the supplied key is only a "
    "suspect and becomes a violation when an input paying to that key, signed with the keychain and with exactly that answer, "
    "does not validate",
]
EXPLANATION = "validity (pycoin and reference), canonical signature form, frame condition and the m-distinct-keys model are checked after every signing step"
TIMEOUT = {"quick": 900, "thorough": 4 * 3600}

ALL16 = 0xffff
# two unrelated BIP32 masters whose root keys share the 4-byte BIP32 fingerprint hash160(sec(P))[:4] (a 32-bit birthday
# collision, the pair published with seeded/C05-h; verified through the reference curve and base58 in selftest)
COLLIDING_XPRV = (
    "xprv9s21ZrQH143K3kuerPq45iQpGz5AXdAQv5axLDfMajM4EhqJ2EhuhRi7facqjWa3iCyQcuPcZycYRqjZau549yuoNXSZx1vUPDhicDGVfw8",
    "xprv9s21ZrQH143K3vmFZ8DKt9gYfy7LK1xCFBY5db3nhcygUaP63YyKXHDvopmSb6kAUc85kk5stgXg9shWvM325FUNR7TvHLZycCy8SPbK4yJ",
)
CORE_NETS = ["BTC", "XTN", "LTC", "BCH", "BTG", "GRS", "DOGE", "DASH"]
FORK = {"BCH": ("bch", 0), "XCH": ("bch", 0), "BTG": ("btg", 79 << 8), "XTG": ("btg", 79 << 8)}
GRS_NETS = ("GRS", "TGRS", "GRSRT")


def plan(tier, seed):
    q = tier == "quick"
    shards = []
    n = 16 if q else 64
    # the long run first, so that it works in parallel with all the others: ONE keychain taking more than 2**16 + 100 secrets
    shards.append({"kind": "longrun", "ops": (2 ** 16 if q else 2 ** 17) + 100 + 28, "label": "longrun", "slot": 0, "n": 0})
    for i in range(n):
        shards.append({"kind": "hist", "n": 80 if q else 700, "slot": i, "env": {"PYTHONHASHSEED": str(i % 5)}})
    return shards


def configurations(tier):
    return CORE_NETS + ["rotating sample of the other registered networks"]


def selftest(rec):
    import os
    import pycoin
    from vmon.refs import coretext
    d = os.path.join(os.path.dirname(os.path.dirname(pycoin.__file__)), "tests", "btc", "data")
    out = coretext.selftest(d)
    out["colliding_fingerprint"] = colliding_pair_selftest()
    return out


def colliding_blobs():
    """the 78-byte BIP32 serialisations of the colliding pair (reference base58check)"""
    from vmon.refs import b58
    return [b58.decode_check(x) for x in COLLIDING_XPRV]


def colliding_pair_selftest():
    """the constant pair really is two different private masters with one fingerprint - by the reference curve, not by pycoin"""
    fps, ids = [], []
    for blob in colliding_blobs():
        assert len(blob) == 78 and blob[:4] == bytes.fromhex("0488ade4") and blob[4] == 0 and blob[45] == 0, "not a private BIP32 master"
        d = int.from_bytes(blob[46:], "big")
        assert 0 < d < C.n
        x, y = C.mul(d, C.G)
        ident = hash160(bytes([2 + (y & 1)]) + x.to_bytes(32, "big"))
        ids.append(ident)
        fps.append(ident[:4])
    assert fps[0] == fps[1] and ids[0] != ids[1], "the constant pair does not collide"
    return fps[0].hex()


def sha256(b):
    return hashlib.sha256(b).digest()


hash160 = G.hash160


# ---------------------------------------------------------------------------------------------------
# reference checker with fork-id support

class ForkChecker(RS.TxChecker):
    def __init__(self, tx, n_in, amount, fork):
        kind, fork_or = fork
        H = SH.sha if kind == "grs" else SH.dsha
        RS.TxChecker.__init__(self, tx, n_in, amount, H=H, fork_or=fork_or)
        self.kind = kind

    def check_sig(self, sig, pubkey, script_code, sigversion):
        if self.kind in ("bch", "btg") and sig and not (sig[-1] & 0x40) and sigversion == RS.SIGVERSION_BASE:
            # (witness-v0 checks are left out of the refusal clause: these coins have no segwit, and the statement's
            # "fork-id variants" are the digests that replace the legacy algorithm)
            # fork-id coins REFUSE a hash type without the fork-id bit: the signature check does not merely come out
            # false (which "... CHECKSIG NOT" would turn into success), the spend fails (BCH: SCRIPT_ERR_MUST_USE_FORKID)
            raise RS.ScriptErr("MUST_USE_FORKID")
        return RS.TxChecker.check_sig(self, sig, pubkey, script_code, sigversion)

    def sighash(self, script_code, hash_type, sigversion):
        if self.kind in ("bch", "btg"):
            return SH.bip143(self.tx, self.n_in, script_code, self.amount, hash_type, self.H, self.fork_or)
        return RS.TxChecker.sighash(self, script_code, hash_type, sigversion)


# ---------------------------------------------------------------------------------------------------

class HDKeys(G.Keys):
    """keys that are BIP32 children of a few cosigner roots, for the hierarchical Keychain supply mechanism.
    (Derivation itself is C09's business; here pycoin derives, the harness only needs to know the keys.)"""

    def __init__(self, net, count=24, roots=4):
        self.roots = [net.keys.bip32_seed(b"vmon-cosigner-%d" % j) for j in range(roots)]
        self.path = ["%d/%d%s" % (i % 3, i, "" if i % 4 else "/7") for i in range(count)]
        self.root_of = [i % roots for i in range(count)]
        self.d = [self.roots[self.root_of[i]].subkey_for_path(self.path[i]).secret_exponent() for i in range(count)]
        self.P = [C.mul(d, C.G) for d in self.d]
        self._sig = {}


class HDKeysMulti(HDKeys):
    """several wallets living in ONE keychain: wallets 0 and 1 are the two unrelated masters whose root fingerprints collide,
    wallets 2 and 3 are ordinary; the first key of every wallet is the root key itself (path "")."""

    def __init__(self, net, count=24, roots=4):
        self.roots = [net.keys.bip32_deserialize(b) for b in colliding_blobs()] + [net.keys.bip32_seed(b"vmon-wallet-%d" % j) for j in range(2, roots)]
        self.path = ["" if i < roots else "%d/%d%s" % (i % 3, i, "" if i % 4 else "/7") for i in range(count)]
        self.root_of = [i % roots for i in range(count)]
        self.d = [self.roots[self.root_of[i]].subkey_for_path(self.path[i]).secret_exponent() for i in range(count)]
        self.P = [C.mul(d, C.G) for d in self.d]
        self._sig = {}


# the forms in which one wallet's secret can be handed to a keychain (each list is shuffled together with the other wallets')
MULTI_FORMS = ("xprv", "xprv+root_as_wif", "xprv_twice", "accounts+master", "xprv+root_as_uncompressed_wif")
# the ways the public side of a wallet is registered
MULTI_REGS = ("master_public", "master_private", "account", "master_and_account", "keys_path")


# calls the library refuses (or may refuse), placed between judged passes
INTERLUDES = (["same_tx." + f for f in ("lock_time", "version", "sequence", "outpoint_index", "out_amount", "out_script", "spent_amount", "unknown_unspent")]
              + ["other_tx." + f for f in ("lock_time", "version", "sequence", "outpoint_index", "out_amount", "out_script", "spent_amount", "unknown_unspent")]
              + ["arg." + f for f in ("hash_type", "index_out_of_range", "index_not_an_int", "secret_not_an_int", "lookup_without_get", "p2sh_lookup_values_not_bytes",
                                      "lookup_built_from_non_int_secret", "wif_list_with_non_wif")])


# -- key and script collections handed over as iterables ---------------------------------------------------------------------
class OnePassIterator:
    """an iterator and nothing more: no len, no indexing, one pass"""
    def __init__(self, seq):
        self._it = iter(list(seq))

    def __iter__(self):
        return self

    def __next__(self):
        return next(self._it)


class PlainIterable:
    """an iterable and nothing more: every iter() starts afresh, but there is no len and no indexing"""
    def __init__(self, seq):
        self._seq = list(seq)

    def __iter__(self):
        return iter(self._seq)


# name -> (how the caller spells the collection, whether it can be walked through once only)
SPELLINGS = {
    "generator": (lambda s: (x for x in s), True),
    "iter": (lambda s: iter(s), True),
    "map": (lambda s: map(lambda x: x, s), True),
    "chain": (lambda s: itertools.chain(s[:len(s) // 2], s[len(s) // 2:]), True),
    "iterator_object": (OnePassIterator, True),
    "tuple": (tuple, False),
    "dict_keys": (lambda s: dict.fromkeys(s).keys(), False),
    "iterable_object": (PlainIterable, False),
}
# the entry points of the key-supply mechanisms whose collection parameter is an iterable (of secrets, keys, paths, scripts)
ITER_ENTRIES = ("build_hash160_lookup", "build_p2sh_lookup", "Keychain.add_secrets", "Keychain.add_p2s_scripts", "Keychain.add_key_paths",
                "Keychain.add_keys_path")
ITER_SCRIPT_ENTRIES = ("build_p2sh_lookup", "Keychain.add_p2s_scripts")
# which of them feed a judged pass of each supply mechanism
MECH_ENTRIES = {
    "dict": ("build_hash160_lookup", "build_p2sh_lookup"),
    "wif": ("build_p2sh_lookup",),
    "keychain": ("Keychain.add_secrets", "Keychain.add_p2s_scripts"),
    "keychain_hd": ("Keychain.add_key_paths", "Keychain.add_secrets", "Keychain.add_p2s_scripts"),
    "keychain_multi": ("Keychain.add_key_paths", "Keychain.add_keys_path", "Keychain.add_secrets", "Keychain.add_p2s_scripts"),
}
ITER_VALID = (["iterable.valid:" + e for e in ITER_ENTRIES if e not in ITER_SCRIPT_ENTRIES]
              + ["iterable.valid:%s.%s" % (e, w) for e in ITER_SCRIPT_ENTRIES for w in ("redeem_script", "witness_script")])


class Puzzle:
    """one input's locking arrangement"""

    def __init__(self, kind, spk, scripts, key_idx, m, compressed, amount):
        self.kind, self.spk, self.scripts, self.key_idx, self.m, self.compressed, self.amount = kind, spk, scripts, key_idx, m, compressed, amount

    def brief(self):
        return "%s%s" % (self.kind, "" if self.m is None else "(%d/%d)" % (self.m, len(self.key_idx)))


def make_puzzle(rng, keys, kind, nkeys_total, amount, force_compressed=False):
    push = G.push
    if kind in ("p2pk", "p2pkh", "p2wpkh", "p2sh-p2wpkh"):
        ki = rng.randrange(nkeys_total)
        comp = True if (kind in ("p2wpkh", "p2sh-p2wpkh") or force_compressed) else rng.random() < 0.7
        pub = keys.sec(ki, comp)
        if kind == "p2pk":
            return Puzzle(kind, push(pub) + b"\xac", [], [ki], None, [comp], amount)
        if kind == "p2pkh":
            return Puzzle(kind, b"\x76\xa9\x14" + hash160(pub) + b"\x88\xac", [], [ki], None, [comp], amount)
        prog = b"\x00\x14" + hash160(pub)
        if kind == "p2wpkh":
            return Puzzle(kind, prog, [], [ki], None, [comp], amount)
        return Puzzle(kind, b"\xa9\x14" + hash160(prog) + b"\x87", [prog], [ki], None, [comp], amount)
    wrapper = kind.split(":")[1]
    # n up to 20 wherever the script-size limit allows it: 520-byte redeem script under P2SH (15 compressed keys), 10,000-byte
    # witness script under P2WSH, 10,000-byte script for a bare puzzle
    limit = {"bare": 20, "p2sh": 15, "p2wsh": 20, "p2sh-p2wsh": 20}[wrapper]
    if rng.random() < 0.68:
        n = rng.randrange(1, 5)
    else:
        n = min(limit, rng.choice([limit, limit, 7, 9, 11, 16, 17, rng.randrange(5, limit + 1)]))
    if n <= 4:
        m = rng.randrange(1, n + 1)
    else:
        # every 1 <= m <= n, biased to the ends and to the first m past the old 12-signature cap
        m = rng.choice([1, 2, n, n, n - 1, min(n, 13), rng.randrange(1, n + 1), rng.randrange(1, n + 1)])
    idx = rng.sample(range(nkeys_total), n)
    witness_kind = wrapper in ("p2wsh", "p2sh-p2wsh")
    comp = [True if (witness_kind or force_compressed) else rng.random() < 0.8 for _ in idx]
    if wrapper == "p2sh":
        # mixed key forms right up to the 520-byte limit: turn uncompressed keys into compressed ones until the script fits
        def size(cs):
            return len(G.num(m)) + sum(34 if c else 66 for c in cs) + len(G.num(n)) + 1
        while size(comp) > 520:
            comp[comp.index(False)] = True
    pubs = [keys.sec(i, c) for i, c in zip(idx, comp)]
    script = G.num(m) + b"".join(push(p) for p in pubs) + G.num(n) + b"\xae"
    if wrapper == "bare":
        return Puzzle(kind, script, [], idx, m, comp, amount)
    if wrapper == "p2sh":
        return Puzzle(kind, b"\xa9\x14" + hash160(script) + b"\x87", [script], idx, m, comp, amount)
    prog = b"\x00\x20" + sha256(script)
    if wrapper == "p2wsh":
        return Puzzle(kind, prog, [script], idx, m, comp, amount)
    return Puzzle(kind, b"\xa9\x14" + hash160(prog) + b"\x87", [prog, script], idx, m, comp, amount)


EDGE_AMOUNTS = [0, 2 ** 32 - 1, 2 ** 32, 2 ** 63 - 1, 2 ** 63, 2 ** 64 - 1]
EDGE_FIELDS = ("spent_amount", "outpoint_index", "sequence", "n_out>=252", "out_amount", "out_script_length", "version", "lock_time")
KINDS = ["p2pk", "p2pkh", "p2pkh", "p2wpkh", "p2sh-p2wpkh", "ms:bare", "ms:p2sh", "ms:p2sh", "ms:p2wsh", "ms:p2sh-p2wsh"]


class History:
    def __init__(self, rec, net, netcode, rng, keys):
        self.rec, self.net, self.netcode, self.rng, self.keys = rec, net, netcode, rng, keys
        self.fork = FORK.get(netcode, ("grs", 0) if netcode in GRS_NETS else ("", 0))
        self.flags = ALL16 & ~RS.STRICTENC if self.fork[0] in ("bch", "btg") else ALL16
        self.log = []
        self.kc = None

    # -- construction ------------------------------------------------------------------------------
    def build(self):
        rng, Tx = self.rng, self.net.tx
        n_in = rng.choice([1, 1, 2, 2, 3, 5])
        hd = isinstance(self.keys, HDKeys)      # BIP32 keys are compressed by definition
        # exact boundary values of every field that is hashed (only where the history asks for them: C05's own histories)
        edge = getattr(self, "boundaries", False)
        self.edges = set()

        def pick(field, normal, extremes, p=0.1):
            if edge and rng.random() < p:
                self.edges.add(field)
                return rng.choice(extremes)
            return normal()
        self.puzzles = [make_puzzle(rng, self.keys, rng.choice(KINDS), len(self.keys.d),
                                    pick("spent_amount", lambda: rng.choice([1000, 600000000, 21 * 10 ** 14]), EDGE_AMOUNTS), force_compressed=hd)
                        for _ in range(n_in)]
        ins = [Tx.TxIn(G.rand_prev(rng), pick("outpoint_index", lambda: rng.randrange(4), [0xffffffff, 0xfffffffe, 0xffff, 0x10000, 252, 253]), b"",
                       pick("sequence", lambda: rng.choice([0xffffffff, 0xfffffffe, 0, 12345]), [0x7fffffff, 0x80000000, 0xffff, 0x10000, 0xfffffffd, 0x400000, 0x3fffff]))
               for _ in self.puzzles]
        n_out = rng.choice([1, 2, 3]) if rng.random() < 0.85 else max(1, n_in - 1)
        n_out = pick("n_out>=252", lambda: n_out, [252, 253, 254], p=0.04)
        outs = [Tx.TxOut(pick("out_amount", lambda: rng.choice([0, 1, 5000, 10 ** 8]), EDGE_AMOUNTS, p=0.1 if n_out < 9 else 0.002),
                         pick("out_script_length", lambda: rng.choice([b"\x51", b"\x76\xa9\x14" + bytes(20) + b"\x88\xac", b"\x6a\x01\x07"]),
                              [b"\x6a" + bytes(k - 1) for k in (252, 253, 254, 0xffff, 0x10000)], p=0.06 if n_out < 9 else 0.002)) for _ in range(n_out)]
        unspents = [Tx.TxOut(p.amount, p.spk) for p in self.puzzles]
        self.tx = Tx(pick("version", lambda: rng.choice([1, 2]), [0, 3, 0x7fffffff, 0x80000000, 0xffffffff]), ins, outs,
                     pick("lock_time", lambda: rng.choice([0, 0, 17, 500000001]), [0xffffffff, 499999999, 500000000, 0xffff, 0x10000]), unspents)
        self.hash_type = rng.choice([None, 1, 1, 2, 3, 0x81, 0x82, 0x83])
        if self.fork[0] in ("bch", "btg") and rng.random() < 0.3:
            # the caller may already include the fork-id bit in the requested type
            self.hash_type = rng.choice([0x41, 0x42, 0x43, 0xc1, 0xc2, 0xc3])
        self.signed_keys = [set() for _ in self.puzzles]     # key indices that have signed each input so far
        self.req_types = [set() for _ in self.puzzles]       # hash-type bytes requested in the passes that could sign each input
        self.sign_seq = [[] for _ in self.puzzles]           # listed positions in the order their keys arrived
        self.last_raise = None

    # -- observation ---------------------------------------------------------------------------------
    def frame(self):
        t = self.tx
        return {"version": t.version, "lock_time": t.lock_time, "outpoints": [(i.previous_hash, i.previous_index) for i in t.txs_in],
                "sequences": [i.sequence for i in t.txs_in], "outs": [(o.coin_value, bytes(o.script)) for o in t.txs_out],
                "unspents": [(u.coin_value, bytes(u.script)) for u in t.unspents],
                "unlock": [(bytes(i.script), tuple(bytes(w) for w in i.witness)) for i in t.txs_in]}

    def as_ref_tx(self):
        t = self.tx
        return {"version": t.version, "lock_time": t.lock_time,
                "ins": [{"prev": i.previous_hash, "index": i.previous_index, "script": bytes(i.script), "sequence": i.sequence,
                         "witness": [bytes(w) for w in i.witness]} for i in t.txs_in],
                "outs": [{"value": o.coin_value, "script": bytes(o.script)} for o in t.txs_out]}

    def shared_checker_verdicts(self, flags, order):
        """one SolutionChecker instance used for every input (the alternative public entry point to Tx.is_solution_ok,
        which builds a fresh checker per call): verdicts must not depend on what the instance checked before"""
        from pycoin.coins.SolutionChecker import ScriptError
        sc = self.tx.SolutionChecker(self.tx)
        out = {}
        for i in order:
            ctx = sc.tx_context_for_idx(i)
            try:
                sc.check_solution(ctx, flags=flags)
                out[i] = True
            except ScriptError:
                out[i] = False
            except Exception as e:
                out[i] = "EXC:%s" % type(e).__name__
        self.rec.ev("SolutionChecker.check_solution(shared instance)", len(out))
        return [out[i] for i in range(len(order))]

    def verdicts(self):
        """(pycoin verdict, reference verdict) per input under the standard flag set"""
        ref_tx = self.as_ref_tx()
        out = []
        n = len(self.puzzles)
        if n > 1:
            # (the statement speaks of is_solution_ok / bad_solution_count; the shared instance is the arrangement Solver.sign
            # itself uses. When that entry point cannot be driven the way this harness spells it, the probe is skipped.)
            fresh = [self.truth(*observe(self.tx.is_solution_ok, i, flags=self.flags)) for i in range(n)]
            # forward and backward order alternate from one step to the next
            self.n_steps = getattr(self, "n_steps", 0) + 1
            for order in (list(range(n)) if self.n_steps % 2 else list(range(n - 1, -1, -1)),):
                st, shared = observe(self.shared_checker_verdicts, self.flags, order)
                if st != "ok":
                    self.rec.ev("shared_checker.entry_point_unavailable")
                    break
                if shared != fresh:
                    self.rec.violation("validity.shared_checker_instance_differs", self.case({"order": order}), shared, fresh)
        for i, p in enumerate(self.puzzles):
            st, ok = observe(self.tx.is_solution_ok, i, flags=self.flags)
            self.rec.ev("Tx.is_solution_ok")
            chk = ForkChecker(ref_tx, i, p.amount, self.fork)
            ti = ref_tx["ins"][i]
            r = RS.result_of(RS.verify_script, ti["script"], p.spk, ti["witness"], self.flags, chk)
            out.append((self.truth(st, ok), r))
        return out

    @staticmethod
    def truth(st, value):
        """pycoin's verdict as the statement reads it: any truthy return is 'valid', any falsy one 'not valid'; an exception
        escaping from validation is kept apart"""
        return bool(value) if st == "ok" else "EXC:%s" % type(value).__name__

    def ref_verdict(self, i, ref_tx=None):
        ref_tx = ref_tx or self.as_ref_tx()
        p = self.puzzles[i]
        ti = ref_tx["ins"][i]
        return RS.result_of(RS.verify_script, ti["script"], p.spk, ti["witness"], self.flags, ForkChecker(ref_tx, i, p.amount, self.fork))

    def want_ht(self, hash_type=-1):
        """the hash-type byte a signature made in a pass with this request carries (no request = SIGHASH_ALL)"""
        ht = self.hash_type if hash_type == -1 else hash_type
        return (ht or 1) | (0x40 if self.fork[0] in ("bch", "btg") else 0)

    def case(self, extra=None):
        puzzles = getattr(self, "puzzles", [])
        d = {"net": self.netcode, "coord": getattr(self, "coord", None), "puzzles": [p.brief() for p in puzzles], "hash_type": getattr(self, "hash_type", None),
             "steps": self.log, "compressed": [p.compressed for p in puzzles]}
        d.update(extra or {})
        return d

    # -- key supply ------------------------------------------------------------------------------------
    def spell(self, entry, seq):
        """the collection as the caller hands it to this entry point: the list itself, or (histories with self.spellings) another
        iterable over the same elements in the same order - a generator, an iterator, a view, an object that has __iter__ only"""
        sp = getattr(self, "spellings", None)
        if not sp:
            return seq
        name = sp[entry]
        self.rec.ev("iterable.handed_over:%s" % entry)
        self.rec.ev("iterable.spelling:%s" % name)
        self.iter_used[entry] = name
        return SPELLINGS[name][0](list(seq))

    def scripts_lookup(self):
        scripts = [s for p in self.puzzles for s in p.scripts]
        return self.net.tx.solve.build_p2sh_lookup(self.spell("build_p2sh_lookup", scripts)), scripts

    def sign_with(self, key_indices, mechanism, idx_set=None, report_raise=True):
        """one signing pass supplying exactly these keys. With report_raise=False an exception from the signing call is not
        a violation by itself (the statement only says what the inputs look like afterwards): it is kept in self.last_raise
        and the caller goes on to check the transaction."""
        self.last_raise = None
        net, tx = self.net, self.tx
        secrets = [self.keys.d[k] for k in sorted(key_indices)]
        p2sh_lookup, scripts = self.scripts_lookup()
        kwargs = {}
        if self.hash_type is not None:
            kwargs["hash_type"] = self.hash_type
        if idx_set is not None:
            # any collection spelling of the index set, the empty one included
            form = self.rng.choice([set, list, tuple, frozenset, sorted])
            kwargs["tx_in_idx_set"] = form(idx_set) if idx_set else self.rng.choice([set(), [], (), frozenset(), range(0)])
        self.log.append({"keys": sorted(key_indices), "via": mechanism, "idx_set": sorted(idx_set) if idx_set is not None else None})
        judge_args = getattr(self, "arg_mode", None) is not None
        fk = frozenset(key_indices)
        owned = {}          # argument objects that belong to the caller: name -> object
        if judge_args:
            if isinstance(kwargs.get("tx_in_idx_set"), list):
                self.rng.shuffle(kwargs["tx_in_idx_set"])           # the caller's list need not be sorted - and stays as it is
            if "tx_in_idx_set" in kwargs and not isinstance(kwargs["tx_in_idx_set"], (tuple, frozenset, range)):
                owned["tx_in_idx_set"] = kwargs["tx_in_idx_set"]
            p2sh_lookup = self.caller_object("p2sh_lookup", (), lambda: p2sh_lookup)
            owned["scripts"] = scripts
            if mechanism in ("dict", "wif"):
                owned["p2sh_lookup"] = p2sh_lookup
        # Solver(tx).sign is what Tx.sign does with a fresh Solver every time; a caller may as well keep one Solver per transaction
        sign = tx.sign
        if getattr(self, "keep_solver", False) and mechanism in ("dict", "keychain", "keychain_hd", "keychain_multi"):
            if getattr(self, "solver", None) is None:
                self.solver = tx.Solver(tx)
            sign = self.solver.sign
            self.log[-1]["kept_solver"] = True
            self.rec.ev("Solver.sign(kept instance)")
        if mechanism == "dict":
            lookup = self.caller_object("hash160_lookup", fk, lambda: net.tx.solve.build_hash160_lookup(self.spell("build_hash160_lookup", secrets)))
            owned["hash160_lookup"] = lookup
            snap = self.snapshot(owned)
            st, r = observe(sign, lookup, p2sh_lookup=p2sh_lookup, **kwargs)
            self.rec.ev("Tx.sign")
        elif mechanism == "wif":
            def make_wifs():
                # a WIF carries one compression flag, which says nothing about the form the puzzle lists the key in
                return [net.keys.private(self.keys.d[k], is_compressed=self.rng.random() < 0.6).wif() for k in sorted(key_indices)]
            wifs = self.caller_object("wifs", fk, make_wifs)
            owned["wifs"] = wifs
            snap = self.snapshot(owned)
            st, r = observe(net.tx_utils.sign_tx, tx, wifs, p2sh_lookup=p2sh_lookup, **kwargs)
            self.rec.ev("tx_utils.sign_tx")
        elif mechanism == "keychain_hd":
            # one persistent hierarchical keychain per history: public paths registered up front, cosigner secrets
            # arrive pass by pass (a key is available once its root's secret has been added)
            if self.kc is None:
                self.kc = net.keychain()
                # the same leaves can be described from the master ("a/b...") or from an account node ("b..."): histories
                # alternate, so that keychains living in one process describe one leaf under different (root, path) pairs
                self.kc_via_account = self.rng.random() < 0.5
                self.kc_roots = set()
                if not self.kc_via_account:
                    for j, root in enumerate(self.keys.roots):
                        self.kc.add_key_paths(root.public_copy(), self.spell("Keychain.add_key_paths", [self.keys.path[i] for i in range(len(self.keys.d)) if self.keys.root_of[i] == j]))
                else:
                    for j, root in enumerate(self.keys.roots):
                        for acct in ("0", "1", "2"):
                            rest = [self.keys.path[i].split("/", 1)[1] for i in range(len(self.keys.d))
                                    if self.keys.root_of[i] == j and self.keys.path[i].split("/", 1)[0] == acct]
                            if rest:
                                self.kc.add_key_paths(root.subkey_for_path(acct).public_copy(), self.spell("Keychain.add_key_paths", rest))
                self.kc.add_p2s_scripts(self.spell("Keychain.add_p2s_scripts", scripts))
            for k in sorted(key_indices):
                self.kc_roots.add(self.keys.root_of[k])
            if not self.kc_via_account:
                self.kc.add_secrets(self.spell("Keychain.add_secrets", [self.keys.roots[j] for j in sorted(self.kc_roots)]))
            else:
                self.kc.add_secrets(self.spell("Keychain.add_secrets", [self.keys.roots[j].subkey_for_path(acct) for j in sorted(self.kc_roots) for acct in ("0", "1", "2")]))
            snap = self.snapshot(owned)
            st, r = observe(sign, self.kc, p2sh_lookup=self.kc, **kwargs)
            self.rec.ev("Tx.sign(keychain_hd)")
        elif mechanism == "keychain_multi":
            self.multi_supply(key_indices, scripts)
            snap = self.snapshot(owned)
            st, r = observe(sign, self.kc, p2sh_lookup=self.kc, **kwargs)
            self.rec.ev("Tx.sign(keychain_multi)")
        else:
            kc = net.keychain()
            owned["secret_keys"] = [net.keys.private(s) for s in secrets]
            snap = self.snapshot(owned)
            kc.add_secrets(self.spell("Keychain.add_secrets", owned["secret_keys"]))
            kc.add_p2s_scripts(self.spell("Keychain.add_p2s_scripts", scripts))
            st, r = observe(sign, kc, p2sh_lookup=kc, **kwargs)
            self.rec.ev("Tx.sign(keychain)")
        if judge_args:
            self.judge_caller_objects(owned, snap)
        if st != "ok":
            self.last_raise = r
            if report_raise:
                self.rec.violation("sign.raises.%s" % type(r).__name__, self.case(), r, "signing returns")
            return False
        return True

    # -- caller-owned argument objects -------------------------------------------------------------------
    def caller_object(self, name, key, make):
        """an argument object that belongs to the caller: built afresh for every call, or (arg_mode 'reuse') the very object
        that was handed over in an earlier pass of this history"""
        if getattr(self, "arg_mode", None) != "reuse":
            return make()
        kept = self.__dict__.setdefault("_kept", {})
        if (name, key) in kept:
            self.rec.ev("args.same_object_passed_again")
        else:
            kept[name, key] = make()
        return kept[name, key]

    @staticmethod
    def snapshot(owned):
        return {k: (list(v) if isinstance(v, list) else dict(v) if isinstance(v, dict) else set(v)) for k, v in owned.items()}

    def judge_caller_objects(self, owned, snap):
        """signing changes the transaction's unlocking data and nothing else: lookup tables, key lists, script lists and
        index collections handed over by the caller come back as they went in. Afterwards the caller may do with them what
        it likes (arg_mode 'scrub': they are emptied) without any effect on later passes."""
        for name, obj in owned.items():
            now = list(obj) if isinstance(obj, list) else dict(obj) if isinstance(obj, dict) else set(obj)
            self.rec.ev("args.caller_object_compared")
            self.rec.ev("args.compared:" + name)
            if now != snap[name]:
                self.rec.violation("frame.caller_argument_modified." + name, self.case({"argument": name}), repr(now)[:300], repr(snap[name])[:300])
            elif self.arg_mode == "scrub" and not isinstance(obj, (tuple, frozenset, range)):
                obj.clear()
                self.rec.ev("args.returned_container_emptied_by_caller")

    def multi_supply(self, key_indices, scripts):
        """ONE keychain holding several wallets: every wallet is registered in one of MULTI_REGS ways and its secret arrives in
        one of MULTI_FORMS (the master alone, the master plus its own root key as a plain WIF-style key, the same master as two
        objects, account nodes plus master ...), all secrets of a pass in one shuffled order. A key counts as supplied when
        the secret of the node its path was registered under is in the keychain - which the harness makes sure of for every
        wallet it adds, whatever else is added around it."""
        rng, net, K = self.rng, self.net, self.keys
        nroots = len(K.roots)
        accounts = ("0", "1", "2")
        if self.kc is None:
            self.kc = net.keychain()
            self.kc_roots = set()
            self.kc_order = []                  # wallets in the order their secrets were first added
            self.kc_reg = [rng.choice(MULTI_REGS) for _ in range(nroots)]
            self.kc_form = [rng.choice(MULTI_FORMS) for _ in range(nroots)]
            order = list(range(nroots))
            rng.shuffle(order)
            for j in order:
                root, reg = K.roots[j], self.kc_reg[j]
                mine = [i for i in range(len(K.d)) if K.root_of[i] == j]
                full = [K.path[i] for i in mine]
                by_acct = {a: [K.path[i].split("/", 1)[1] for i in mine if K.path[i] and K.path[i].split("/", 1)[0] == a] for a in accounts}
                steps = []
                if reg in ("master_public", "master_private", "master_and_account"):
                    node = root if reg == "master_private" else root.public_copy()
                    steps.append(lambda node=node, full=full: self.kc.add_key_paths(node, self.spell("Keychain.add_key_paths", list(full))))
                if reg in ("account", "master_and_account"):
                    for a in accounts:
                        if by_acct[a]:
                            steps.append(lambda a=a: self.kc.add_key_paths(root.subkey_for_path(a).public_copy(), self.spell("Keychain.add_key_paths", list(by_acct[a]))))
                    # the root key itself is not below any account node
                    steps.append(lambda: self.kc.add_key_paths(root.public_copy(), self.spell("Keychain.add_key_paths", [""])))
                if reg == "keys_path":
                    # add_keys_path(keys, path): one path, any number of wallets - this wallet alone, or together with its
                    # fingerprint twin / a bystander (whose leaves on this wallet's paths pay nobody here)
                    mates = [root.public_copy()] + ([K.roots[j ^ 1].public_copy()] if rng.random() < 0.5 else [])
                    for path in full:
                        steps.append(lambda path=path: self.kc.add_keys_path(self.spell("Keychain.add_keys_path", list(mates)), path))
                rng.shuffle(steps)
                for f in steps:
                    f()
            self.kc.add_p2s_scripts(self.spell("Keychain.add_p2s_scripts", scripts))
        new = sorted({K.root_of[k] for k in key_indices} - self.kc_roots)
        if {0, 1} & (set(new) | self.kc_roots) and rng.random() < 0.6:
            # the fingerprint twin moves in as well (its keys are then supplied, too)
            new = sorted(set(new) | ({0, 1} - self.kc_roots))
        again = [j for j in sorted(self.kc_roots) if rng.random() < 0.3]       # a wallet already present is added once more
        secrets = []
        for j in new + again:
            root, form = K.roots[j], self.kc_form[j]
            mine = [root]
            if form == "xprv+root_as_wif":
                mine.append(net.keys.private(root.secret_exponent(), is_compressed=True))
            elif form == "xprv+root_as_uncompressed_wif":
                mine.append(net.keys.private(root.secret_exponent(), is_compressed=False))
            elif form == "xprv_twice":
                # the same master once more, as a second object (a wallet file read twice)
                mine.append(net.keys.bip32_deserialize(bytes(4) + root.serialize(as_private=True)))
            if form == "accounts+master" or self.kc_reg[j] in ("account", "master_and_account"):
                mine.extend(root.subkey_for_path(a) for a in accounts)
            secrets.append(mine)
        flat = [(j, s) for j, mine in zip(new + again, secrets) for s in mine]
        rng.shuffle(flat)
        for j, _ in flat:
            if j not in self.kc_order:
                self.kc_order.append(j)
        self.kc_roots |= set(new)
        if rng.random() < 0.5:
            self.kc.add_secrets(self.spell("Keychain.add_secrets", [s for _, s in flat]))
        else:
            for _, s in flat:
                self.kc.add_secret(s)
        self.log[-1]["multi"] = {"new": new, "again": again, "order": [j for j, _ in flat], "reg": self.kc_reg, "form": self.kc_form}

    def apply_pass(self, key_indices, mechanism, asked, already_valid):
        """model update for one pass: every asked, not yet valid input gains the supplied keys it lists"""
        eff = self.effective_keys(key_indices, mechanism)
        for i, p in enumerate(self.puzzles):
            if i not in asked or i in already_valid:
                continue
            new = [pos for pos, k in enumerate(p.key_idx) if k in eff and k not in self.signed_keys[i]]
            if new or (eff & set(p.key_idx)):
                self.req_types[i].add(self.want_ht())
            self.sign_seq[i].extend(new)
            self.signed_keys[i] |= (eff & set(p.key_idx))

    def signing_pass(self, before, key_indices, mechanism, asked, already_valid, what, idx_set=None):
        """sign, update the model, check; returns the frame after the pass"""
        if getattr(self, "interludes", False) and self.rng.random() < 0.5:
            self.refused_interlude(key_indices, mechanism, idx_set)
        ok = self.sign_with(key_indices, mechanism, idx_set=idx_set, report_raise=False)
        self.pass_mech = mechanism
        self.apply_pass(key_indices, mechanism, asked, already_valid)
        after, _ = self.check_step(before, asked, already_valid, what, raised=None if ok else self.last_raise)
        return after

    # -- calls the library refuses, between the judged ones -----------------------------------------------------
    def refused_interlude(self, key_indices, mechanism, idx_set):
        """A call that cannot succeed, made just before a judged pass: the same transaction holding - for the time of that
        call - a value that does not fit its wire field, a scalar of the wrong type, an unknown spent output; a bad
        argument; or another transaction (of this or another coin) with such a value. Whether and how the library refuses is
        not judged. The judged pass that follows (same keys, same request) must leave everything as the statement says."""
        rng, tx, rec = self.rng, self.tx, self.rec
        kind = rng.choice(INTERLUDES)
        self.log.append({"interlude": kind})
        n = len(tx.txs_in)
        i = rng.randrange(n)
        bad_int = rng.choice([2 ** 32, 2 ** 64, -1, 1.5, None, "1"])
        if kind.startswith("same_tx."):
            field = kind.split(".", 1)[1]
            if field == "lock_time":
                saved, tx.lock_time = tx.lock_time, bad_int
            elif field == "version":
                saved, tx.version = tx.version, rng.choice([2 ** 32, 2 ** 64, 1.5, None, "1"])
            elif field == "sequence":
                saved, tx.txs_in[i].sequence = tx.txs_in[i].sequence, bad_int
            elif field == "outpoint_index":
                saved, tx.txs_in[i].previous_index = tx.txs_in[i].previous_index, bad_int
            elif field == "out_amount":
                saved, tx.txs_out[0].coin_value = tx.txs_out[0].coin_value, rng.choice([2 ** 64, -1, 1.5, None, "1"])
            elif field == "out_script":
                saved, tx.txs_out[0].script = tx.txs_out[0].script, rng.choice(["51", None, 81, [0x51]])
            elif field == "spent_amount":
                saved, tx.unspents[i].coin_value = tx.unspents[i].coin_value, rng.choice([2 ** 64, -1, 1.5, None, "1"])
            elif field == "unknown_unspent":
                saved, tx.unspents[i] = tx.unspents[i], None
            try:
                ok = self.sign_with(key_indices, mechanism, idx_set=idx_set, report_raise=False)
            finally:
                if field == "lock_time":
                    tx.lock_time = saved
                elif field == "version":
                    tx.version = saved
                elif field == "sequence":
                    tx.txs_in[i].sequence = saved
                elif field == "outpoint_index":
                    tx.txs_in[i].previous_index = saved
                elif field == "out_amount":
                    tx.txs_out[0].coin_value = saved
                elif field == "out_script":
                    tx.txs_out[0].script = saved
                elif field == "spent_amount":
                    tx.unspents[i].coin_value = saved
                elif field == "unknown_unspent":
                    tx.unspents[i] = saved
            self.log[-1]["refused_call"] = True
            rec.ev("interlude.%s:%s" % ("accepted" if ok else "refused", kind))
            return
        if kind.startswith("arg."):
            what = kind.split(".", 1)[1]
            p2sh_lookup, _ = self.scripts_lookup()
            lookup = self.net.tx.solve.build_hash160_lookup([self.keys.d[k] for k in sorted(key_indices)])
            kw = {"p2sh_lookup": p2sh_lookup}
            if self.hash_type is not None:
                kw["hash_type"] = self.hash_type
            if idx_set is not None:
                kw["tx_in_idx_set"] = set(idx_set)
            if what == "hash_type":
                kw["hash_type"] = rng.choice(["ALL", 1.5, b"\x01", [1]])
            elif what == "index_out_of_range":
                kw["tx_in_idx_set"] = sorted(set(idx_set if idx_set is not None else range(n)) | {n + rng.randrange(3)})
            elif what == "index_not_an_int":
                kw["tx_in_idx_set"] = [rng.choice(["0", None, 0.5])]
            elif what == "secret_not_an_int":
                bad = rng.choice([None, "1", 1.5, b"\x01"])
                lookup = {h: (bad if v[0] is not None else v[0],) + tuple(v[1:]) for h, v in lookup.items()}
            elif what == "lookup_without_get":
                lookup = rng.choice([None, 7, [1]])
            elif what == "p2sh_lookup_values_not_bytes":
                kw["p2sh_lookup"] = {h: rng.choice(["51", 7]) for h in p2sh_lookup}
            if what == "lookup_built_from_non_int_secret":
                # the key-supply helpers themselves, given a secret that is no integer (after one that is)
                st, r = observe(self.net.tx.solve.build_hash160_lookup, [self.keys.d[0], rng.choice([None, "1", 1.5, b"\x01"])])
            elif what == "wif_list_with_non_wif":
                st, r = observe(self.net.tx_utils.sign_tx, tx, [rng.choice([None, 5, b"5", "", "not a wif"])], **kw)
            else:
                st, r = observe(tx.sign, lookup, **kw)
            rec.ev("interlude.%s:%s" % ("accepted" if st == "ok" else "refused", kind))
            return
        # another transaction object, of this or another coin, in the same process
        from pycoin.networks.registry import network_for_netcode
        code = rng.choice([self.netcode, self.netcode, "BTC", "BCH", "LTC", "BTG", "GRS", "DOGE"])
        net = network_for_netcode(code)
        Tx = net.tx
        field = kind.split(".", 1)[1]
        K = G.Keys(2) if not hasattr(History, "_ikeys") else History._ikeys
        History._ikeys = K
        pub = K.sec(1, True)
        spks = [b"\x00\x14" + hash160(pub), b"\x76\xa9\x14" + hash160(pub) + b"\x88\xac", G.push(pub) + b"\xac"]
        rng.shuffle(spks)
        vals = {"lock_time": 0, "version": 1, "sequence": 0xffffffff, "outpoint_index": 1, "out_amount": 5000, "spent_amount": 7000, "out_script": b"\x51"}
        if field in vals:
            vals[field] = rng.choice([2 ** 32, 2 ** 64, -1, 1.5, None, "1"]) if field != "out_script" else rng.choice(["51", None, 81])
            if field in ("out_amount", "spent_amount") and vals[field] == 2 ** 32:
                vals[field] = 2 ** 64

        def build_and_sign():
            ins = [Tx.TxIn(bytes([j + 1]) * 32, vals["outpoint_index"], b"", vals["sequence"]) for j in range(len(spks))]
            outs = [Tx.TxOut(1000, b"\x51"), Tx.TxOut(vals["out_amount"], vals["out_script"])]
            other = Tx(vals["version"], ins, outs, vals["lock_time"], [Tx.TxOut(vals["spent_amount"], spk) for spk in spks])
            if field == "unknown_unspent":
                other.unspents[rng.randrange(len(spks))] = None
            other.sign(net.tx.solve.build_hash160_lookup([K.d[1]]), hash_type=rng.choice([1, 3, 0x81, 0x83]))
            return other
        st, r = observe(build_and_sign)
        self.log[-1]["on"] = code
        rec.ev("interlude.%s:%s" % ("accepted" if st == "ok" else "refused", kind))
        if code != self.netcode:
            rec.ev("interlude.on_another_coin")

    def effective_keys(self, key_indices, mechanism):
        """keys really available to the signer in this pass"""
        if mechanism not in ("keychain_hd", "keychain_multi"):
            return set(key_indices)
        roots = set(getattr(self, "kc_roots", set())) | {self.keys.root_of[k] for k in key_indices}
        return {i for i in range(len(self.keys.d)) if self.keys.root_of[i] in roots}

    def generator(self):
        from pycoin.ecdsa.secp256k1 import secp256k1_generator
        return secp256k1_generator

    # -- oracles --------------------------------------------------------------------------------------
    def expected_valid(self, i):
        p = self.puzzles[i]
        have = self.signed_keys[i] & set(p.key_idx)
        need = p.m if p.m is not None else 1
        # positions matter: distinct *listed keys*; the same key listed twice counts per listing in Core, but the harness never lists duplicates
        return len(have) >= need

    def check_canonical(self, i):
        """signatures inside a valid input's unlocking data: strict DER, low S, requested hash type, minimal pushes"""
        p = self.puzzles[i]
        ti = self.tx.txs_in[i]
        items, pc, script = [], 0, bytes(ti.script)
        while pc < len(script):
            ok, opcode, data, npc = SH.get_op(script, pc)
            if not ok or opcode > 0x60:
                self.rec.violation("canonical.scriptsig_not_push_only", self.case({"input": i, "script": script}), opcode, "push only")
                return
            if opcode <= 0x4e and not RS.check_minimal_push(data, opcode):
                self.rec.violation("canonical.nonminimal_push", self.case({"input": i, "script": script}), opcode, "minimal push")
            items.append(data if opcode <= 0x4e else RS.num_encode(opcode - 0x50))
            pc = npc
        items += [bytes(w) for w in ti.witness]
        known_scripts = set(p.scripts)
        pubs = {self.keys.sec(k, c) for k, c in zip(p.key_idx, p.compressed)}
        # the type requested in a pass that could sign this input (one value unless the request changed between passes)
        admissible = self.req_types[i] or {self.want_ht()}
        nsig, seen_types = 0, set()
        for it in items:
            if it in known_scripts or it in pubs or len(it) == 0:
                continue
            nsig += 1
            self.rec.ev("signature_inspected")
            if not RS.is_valid_signature_encoding(it):
                self.rec.violation("canonical.not_strict_der", self.case({"input": i, "sig": it}), it, "strict DER")
                continue
            rs = RS.parse_der_lax(it[:-1])
            if rs is None or rs[1] > C.n // 2 or rs[1] == 0:
                self.rec.violation("canonical.high_s", self.case({"input": i, "sig": it}), it, "s <= n/2")
            if it[-1] not in admissible:
                self.rec.violation("canonical.wrong_hash_type", self.case({"input": i, "sig": it}), it[-1], sorted(admissible))
            else:
                self.rec.ev("sig_type:0x%02x" % it[-1])
                seen_types.add(it[-1])
        if len(seen_types) > 1:
            self.rec.ev("partial.mixed_hash_types_valid")
        need = p.m if p.m is not None else 1
        if nsig != need:
            self.rec.violation("canonical.signature_count", self.case({"input": i, "items": items}), nsig, need)

    def one_pass_entries(self, i, mech):
        """the iterable-taking entry points that, in this history, were handed a walk-once-only collection holding something
        input i needs under this supply mechanism; script entry points come with the role the script plays for the input"""
        used = getattr(self, "iter_used", None)
        if not used:
            return []
        p, out = self.puzzles[i], []
        for e in MECH_ENTRIES.get(mech, ()):
            if e not in used or not SPELLINGS[used[e]][1]:
                continue
            if e in ITER_SCRIPT_ENTRIES:
                wrapper = p.kind.split(":")[-1]
                if p.scripts and wrapper.startswith("p2sh"):
                    out.append(e + ".redeem_script")            # found by its hash160
                if p.scripts and wrapper.endswith("p2wsh"):
                    out.append(e + ".witness_script")           # found by its sha256
            elif e == "Keychain.add_keys_path":
                if any(self.kc_reg[self.keys.root_of[k]] == "keys_path" for k in p.key_idx):
                    out.append(e)
            elif e == "Keychain.add_key_paths" and mech == "keychain_multi":
                if any(self.kc_reg[self.keys.root_of[k]] != "keys_path" for k in p.key_idx):
                    out.append(e)
            else:
                out.append(e)
        return out

    def check_step(self, before, asked, already_valid, what, raised=None):
        """after a signing pass: validity model, frame condition, canonical form"""
        rec = self.rec
        after = self.frame()
        v = self.verdicts()
        mech = getattr(self, "pass_mech", "?")
        single_key = what.startswith("key ")
        for k in ("version", "lock_time", "outpoints", "sequences", "outs", "unspents"):
            if before[k] != after[k]:
                rec.violation("frame.%s_changed" % k, self.case(), after[k], before[k])
        broken_by_raise = []
        for i, p in enumerate(self.puzzles):
            if i not in asked:
                rec.ev("frame.unasked_input_compared")
                if before["unlock"][i] != after["unlock"][i]:
                    rec.violation("frame.unasked_input_changed", self.case({"input": i}), after["unlock"][i], before["unlock"][i])
            if i in already_valid:
                rec.ev("frame.already_valid_input_compared")
                if before["unlock"][i] != after["unlock"][i]:
                    rec.violation("frame.valid_input_resigned", self.case({"input": i}), after["unlock"][i], before["unlock"][i])
            py_ok, ref = v[i]
            exp = self.expected_valid(i)
            kind = p.kind.replace(":", "_")
            if exp and raised is not None and (py_ok is not True or ref != "OK"):
                broken_by_raise.append(i)
                continue
            if py_ok is not exp:
                if exp:
                    once = self.one_pass_entries(i, mech)
                    rec.violation("validity.signed_input_invalid.%s%s%s%s" % (kind, ".m>=9" if (p.m or 0) >= 9 else "", ".several_secrets_in_one_keychain" if mech == "keychain_multi" else "",
                                                                               ".collection_handed_over_as_iterator" if once else ""),
                                  self.case({"input": i, "ref": ref, "walk_once_collections": once}), py_ok, True)
                elif py_ok is True:
                    rec.violation("validity.underSigned_input_reported_valid.%s" % kind, self.case({"input": i, "ref": ref}), py_ok, False)
                else:
                    rec.violation("validity.validation_raises.%s" % kind, self.case({"input": i, "ref": ref}), py_ok, False)
            if (ref == "OK") is not exp:
                if exp:
                    rec.violation("validity.reference_rejects_signed_input.%s.%s" % (kind, ref), self.case({"input": i}), ref, "OK")
                else:
                    rec.violation("validity.reference_accepts_undersigned_input.%s" % kind, self.case({"input": i}), ref, "not OK")
            if not exp:
                rec.ev("undersigned_input_checked")
                if what == "wrong_keys":
                    rec.ev("wrong_keys.input_checked")
                if p.m is not None and 0 < len(self.signed_keys[i] & set(p.key_idx)) < p.m:
                    rec.ev("partial.below_m_checked")
            if exp and py_ok is True and ref == "OK":
                self.check_canonical(i)
                rec.ev("input_validated_both")
                # which region of the quantified-over domain this validated input belongs to
                rec.ev("valid:" + kind)
                rec.ev("valid:via:" + mech)
                for e in self.one_pass_entries(i, mech):
                    # the caller's keys / paths / scripts for this input went in as a generator, an iterator, a map ...
                    rec.ev("iterable.valid:" + e)
                for f in getattr(self, "edges", ()):
                    rec.ev("valid:boundary_value:" + f)
                if mech == "keychain_multi" and (p.m is None or p.m == len(p.key_idx)):
                    # every listed key was needed: which wallets, registered and supplied how, next to whom
                    for k in p.key_idx:
                        j = self.keys.root_of[k]
                        rec.ev("multi.valid.form:" + self.kc_form[j])
                        rec.ev("multi.valid.reg:" + self.kc_reg[j])
                        if not self.keys.path[k]:
                            rec.ev("multi.valid.root_key_itself")
                        if j in (0, 1) and {0, 1} <= self.kc_roots:
                            first = [x for x in self.kc_order if x in (0, 1)][0]
                            rec.ev("multi.valid.colliding_fingerprints.wallet_added_%s" % ("first" if j == first else "last"))
                if not all(p.compressed):
                    rec.ev("valid:uncompressed_key")
                if p.m is not None:
                    n = len(p.key_idx)
                    if p.m >= 13:
                        rec.ev("valid:ms.m>=13")
                    if n == 20:
                        rec.ev("valid:ms.n=20")
                    if n > 4 and p.kind == "ms:bare":
                        rec.ev("valid:ms_bare.n>4")
                    if p.kind == "ms:p2sh" and len(p.scripts[0]) > 500:
                        rec.ev("valid:ms_p2sh.redeem_script>500_bytes")
                    if p.kind == "ms:p2sh" and n > 7 and not all(p.compressed):
                        rec.ev("valid:ms_p2sh.n>7_mixed_key_forms")
                    if i not in already_valid and p.m >= 13 and single_key:
                        rec.ev("partial.m>=13_completed_by_last_key")
                    if i not in already_valid and p.m >= 2 and single_key:
                        rec.ev("partial.became_valid_at_m")
                        if self.sign_seq[i] != sorted(self.sign_seq[i]):
                            rec.ev("partial.valid_after_out_of_order_signing")
        if broken_by_raise:
            rec.violation("sign.raises.%s" % type(raised).__name__, self.case({"inputs_left_invalid": broken_by_raise}), raised, "inputs with keys supplied are valid")
        elif raised is not None:
            rec.ev("sign.raised_with_nothing_solvable_left")
        st, bad = observe(self.tx.bad_solution_count, flags=self.flags)
        want_bad = sum(0 if self.expected_valid(i) else 1 for i in range(len(self.puzzles)))
        rec.ev("Tx.bad_solution_count")
        if (st != "ok" or bad != want_bad) and not broken_by_raise:
            rec.violation("validity.bad_solution_count", self.case(), bad, want_bad)
        return after, v

    def choose_spellings(self):
        """one history in three hands its key / path / script collections over as something other than a list - per entry point
        one spelling for the whole history. Decided by a generator of its own (a function of the history's coordinates), so
        that every other choice of the history is what it would be without this."""
        self.spellings, self.iter_used = None, {}
        coord = getattr(self, "coord", None)
        if not coord:
            return
        seed, tier, shard, k = coord
        irng = shard_rng(seed, PROPERTY, tier, shard, salt="iterables:%s" % k)
        if irng.random() < 1 / 3:
            names = sorted(SPELLINGS)
            once = [x for x in names if SPELLINGS[x][1]]
            # walk-once-only spellings three times in four
            self.spellings = {e: irng.choice(once) if irng.random() < 0.75 else irng.choice(names) for e in ITER_ENTRIES}
            self.log.append({"collections_as": dict(self.spellings)})

    # -- scenarios --------------------------------------------------------------------------------------
    def run(self):
        rng = self.rng
        mech = rng.choice(["dict", "dict", "wif", "keychain", "keychain_hd", "keychain_hd", "keychain_multi"])
        if self.netcode in GRS_NETS and mech == "wif":
            mech = "dict"       # WIF text needs groestlcoin_hash, absent here
        if mech == "keychain_hd":
            self.keys = hd_universe(self.net, self.netcode)
        if mech == "keychain_multi":
            self.keys = hd_universe(self.net, self.netcode, HDKeysMulti)
        self.boundaries = True
        self.build()
        self.choose_spellings()
        # what the caller does with the argument objects it owns: builds them afresh for every pass, hands the very same objects
        # over again in later passes, or empties them after each call
        self.arg_mode = rng.choice(["fresh", "reuse", "reuse", "scrub"])
        self.keep_solver = rng.random() < 0.3
        self.interludes = rng.random() < 0.6
        scenario = rng.choice(["all", "all", "two_pass", "idx_set", "one_key_at_a_time", "wrong_keys", "resign_after_edit"])
        self.scenario = scenario + "/" + mech
        n = len(self.puzzles)
        everything = set(range(n))
        before = self.frame()
        # the requested hash type may change from one pass to the next (a cosigner signs with SIGHASH_ALL, the next one with
        # NONE|ANYONECANPAY ...): signatures already in place keep their own type
        retype = rng.random() < 0.35

        def next_type():
            if retype:
                base = rng.choice([None, 1, 2, 3, 0x81, 0x82, 0x83])
                if base is not None and self.fork[0] in ("bch", "btg") and rng.random() < 0.3:
                    base |= 0x40
                self.hash_type = base
                self.log.append({"hash_type": base})

        def valid_now():
            return {i for i in range(n) if self.expected_valid(i)}

        if scenario == "all":
            # sign multisig with a chosen m-subset rather than the first m keys
            keys = set()
            for p in self.puzzles:
                keys |= set(rng.sample(p.key_idx, p.m)) if p.m is not None else set(p.key_idx)
            self.signing_pass(before, keys, mech, everything, set(), "all")
        elif scenario == "two_pass":
            first = set(rng.sample(range(n), max(1, n // 2)))
            k1 = {k for i in first for k in self.puzzles[i].key_idx}
            mid = self.signing_pass(before, k1, mech, everything, set(), "pass1")
            next_type()
            k2 = {k for p in self.puzzles for k in p.key_idx}
            self.signing_pass(mid, k2, mech, everything, valid_now(), "pass2")
        elif scenario == "idx_set":
            asked = set(rng.sample(range(n), rng.randrange(0, n + 1)))
            keys = {k for p in self.puzzles for k in p.key_idx}
            self.signing_pass(before, keys, mech, asked, set(), "idx_set", idx_set=asked)
        elif scenario == "one_key_at_a_time":
            # every listed key of every input, one pass per key, in a random order (ten single-key passes at most - four when a
            # large multisig is present, whose half-signed states are slow to validate; whatever is still missing then arrives
            # in one closing pass, so that large m also complete by partial signing)
            order = sorted({k for p in self.puzzles for k in p.key_idx})
            rng.shuffle(order)
            cur = before
            singles = 10 if all((p.m or 1) <= 6 for p in self.puzzles) else 4
            if singles == 4:
                # the few single-key passes go to the largest multisig first
                big = max(self.puzzles, key=lambda p: p.m or 0)
                order.sort(key=lambda k: k not in big.key_idx)
            for k in order[:singles]:
                done = len(valid_now()) == n
                cur = self.signing_pass(cur, {k}, mech, everything, valid_now(), "key %d" % k)
                next_type()
                if done:
                    break       # one more key offered to a complete transaction (nothing may change), then stop
            if len(valid_now()) < n:
                # exactly the missing number of further listed keys for every input still short of m: a signature lost from
                # the half-signed input would leave it short
                rest = set()
                for i, p in enumerate(self.puzzles):
                    have = self.signed_keys[i] & set(p.key_idx)
                    short = (p.m or 1) - len(have | (rest & set(p.key_idx)))
                    if short > 0:
                        rest |= set(rng.sample(sorted(set(p.key_idx) - have - rest), short))
                last = sorted(rest & set(big.key_idx))[-1:] if singles == 4 else []
                if last and len(rest) > 1:
                    # the large multisig gets its final key in a pass of its own: m - 1 signatures already in place are re-used
                    cur = self.signing_pass(cur, rest - set(last), mech, everything, valid_now(), "closing pass")
                    next_type()
                    self.signing_pass(cur, set(last), mech, everything, valid_now(), "key %d (last)" % last[0])
                else:
                    self.signing_pass(cur, rest, mech, everything, valid_now(), "closing pass")
        elif scenario == "resign_after_edit":
            # sign everything, then the caller edits the transaction (stale signatures stay in place) and signs again
            keys = {k for p in self.puzzles for k in p.key_idx}
            self.signing_pass(before, keys, mech, everything, set(), "first")
            edit = rng.choice(["out_value", "lock_time", "add_output", "sequence"])
            if edit == "out_value":
                self.tx.txs_out[0].coin_value += 1 if self.tx.txs_out[0].coin_value < 2 ** 64 - 1 else -1
            elif edit == "lock_time":
                self.tx.lock_time += 1 if self.tx.lock_time < 0xffffffff else -1
            elif edit == "add_output":
                self.tx.txs_out.append(self.net.tx.TxOut(3, b"\x51"))
            else:
                self.tx.txs_in[-1].sequence ^= 2
            self.log.append({"edit": edit})
            # which signatures the edit left standing is decided by the reference interpreter, not by the library under test
            ref_tx = self.as_ref_tx()
            still_valid = {i for i in range(n) if self.ref_verdict(i, ref_tx) == "OK"}
            self.rec.ev("resign.inputs_invalidated_by_edit", n - len(still_valid))
            next_type()
            mid2 = self.frame()
            for i in everything - still_valid:
                # stale signatures are replaced: the input is signed afresh in this pass
                self.req_types[i] = set()
                self.signed_keys[i] = set()
            self.signing_pass(mid2, keys, mech, everything, still_valid, "resign")
        else:   # wrong_keys: keys that are not listed, or too few
            listed = {k for p in self.puzzles for k in p.key_idx}
            others = [k for k in range(len(self.keys.d)) if k not in listed]
            supply = set(rng.sample(others, min(len(others), 2))) if others else set()
            for p in self.puzzles:
                if p.m is not None and p.m > 1:
                    supply |= set(rng.sample(p.key_idx, p.m - 1))       # too few
            self.signing_pass(before, supply, mech, everything, set(), "wrong_keys")
        kinds = tuple(sorted(p.brief() for p in self.puzzles))
        self.rec.case((self.netcode, kinds, tuple(tuple(p.compressed) for p in self.puzzles), self.hash_type, self.scenario, tuple(tuple(s.get("keys") or [s.get("edit"), s.get("hash_type")]) for s in self.log)))
        self.rec.ev("scenario:" + scenario)
        self.rec.ev("net:" + self.netcode)


_HD = {}


def hd_universe(net, code, cls=HDKeys):
    if (code, cls) not in _HD:
        _HD[code, cls] = cls(net)
    return _HD[code, cls]


def networks_for_slot(slot):
    from pycoin.networks.registry import network_codes
    codes = sorted(network_codes())
    others = [c for c in codes if c not in CORE_NETS]
    return CORE_NETS[slot % len(CORE_NETS)], others[slot % len(others)], others[(slot * 7 + 3) % len(others)]


HASH_TYPE_BYTES = [0x01, 0x02, 0x03, 0x81, 0x82, 0x83, 0x41, 0x42, 0x43, 0xc1, 0xc2, 0xc3]
REQUIRED = (
    # observation points the statement names
    ["Tx.is_solution_ok", "Tx.bad_solution_count", "input_validated_both", "signature_inspected"]
    # every puzzle kind, validated by pycoin and by the reference after signing
    + ["valid:" + k for k in ("p2pk", "p2pkh", "p2wpkh", "p2sh-p2wpkh", "ms_bare", "ms_p2sh", "ms_p2wsh", "ms_p2sh-p2wsh")]
    # every key-supply mechanism, as the source of a validated input
    + ["valid:via:" + m for m in ("dict", "wif", "keychain", "keychain_hd", "keychain_multi")]
    # several wallets / several forms of one wallet in ONE keychain: every form, every registration, the root key itself, and
    # the two wallets with one fingerprint whichever was added first
    + ["multi.valid.form:" + f for f in MULTI_FORMS] + ["multi.valid.reg:" + r for r in MULTI_REGS]
    + ["multi.valid.root_key_itself", "multi.valid.colliding_fingerprints.wallet_added_first", "multi.valid.colliding_fingerprints.wallet_added_last"]
    # key forms and the m-of-n range
    + ["valid:uncompressed_key", "valid:ms.m>=13", "valid:ms.n=20", "valid:ms_bare.n>4", "valid:ms_p2sh.redeem_script>500_bytes",
       "valid:ms_p2sh.n>7_mixed_key_forms"]
    # every hash type, on the coins without and with a fork id, read off an inspected signature
    + ["sig_type:0x%02x" % t for t in HASH_TYPE_BYTES]
    # partial signing: below m, reaching m one key at a time, out of script order, with the request changing between passes
    + ["partial.below_m_checked", "partial.became_valid_at_m", "partial.m>=13_completed_by_last_key", "partial.valid_after_out_of_order_signing", "partial.mixed_hash_types_valid"]
    # too few / wrong keys; frame condition on inputs not asked for and on inputs already valid
    + ["undersigned_input_checked", "wrong_keys.input_checked", "frame.unasked_input_compared", "frame.already_valid_input_compared",
       "resign.inputs_invalidated_by_edit"]
    + ["scenario:" + s for s in ("all", "two_pass", "idx_set", "one_key_at_a_time", "wrong_keys", "resign_after_edit")]
    # a call the library refuses - every kind: a value that does not fit its field or is of the wrong type, in this transaction
    # or in another one of this or another coin; an argument that cannot be used - right before a judged pass
    + ["interlude.refused:" + k for k in INTERLUDES] + ["interlude.on_another_coin", "Solver.sign(kept instance)"]
    # argument objects owned by the caller: compared after the call, handed over again, emptied by the caller
    + ["args.compared:" + a for a in ("hash160_lookup", "p2sh_lookup", "scripts", "secret_keys", "tx_in_idx_set", "wifs")]
    + ["args.same_object_passed_again", "args.returned_container_emptied_by_caller"]
    # exact boundary values of the hashed fields, in a transaction with a validated input
    + ["valid:boundary_value:" + f for f in EDGE_FIELDS]
    # keys, paths and scripts handed over as a walk-once-only iterable, to every entry point that takes an iterable, as the
    # source of a validated input (scripts: in the redeem-script and in the witness-script role); every spelling driven
    + ITER_VALID + ["iterable.spelling:" + x for x in sorted(SPELLINGS)]
)


def nets_for_shard(slot, seed, n):
    """six of eight histories on one core network; the other two walk through ALL other registered networks, shard after
    shard, so that a run of 16 shards x 80 histories visits every supported coin"""
    from pycoin.networks.registry import network_codes
    others = [c for c in sorted(network_codes()) if c not in CORE_NETS]
    core = CORE_NETS[(slot + seed) % len(CORE_NETS)]
    per_shard = 2 * ((n + 7) // 8)
    out = []
    for k in range(n):
        if k % 8 < 6:
            out.append(core)
        else:
            j = (k // 8) * 2 + (k % 8 - 6)
            out.append(others[((slot + seed) * per_shard + j) % len(others)])
    return out


LONGRUN_REQUIRED = ["longrun.secrets_in_one_keychain>2**16+100", "longrun.keychain_answer_judged", "longrun.signed_and_validated",
                    "longrun.signed_and_validated.reference", "longrun.signed_near_2**16_boundary", "longrun.oldest_key_signed_after_boundary"]


def run_longrun(spec, rec, stop_after=None):
    """ONE keychain (and ONE transaction object, ONE process, hence one generator) through more than 2**16 + 100 key-supply
    operations: plain secrets d0, d0+1, d0+2 ... are added one by one. The reference keeps the public points by repeated
    addition of G (no multiplication), so every secret's two hash160s are known independently. After every addition the
    keychain is asked - the way the signer asks - for the new key under both hashes, for the oldest key and for a
    pseudo-random earlier one. An answer that is not the key supplied is a suspect, not yet a violation: the statement
    speaks about signing, so the suspect is confirmed by signing an input that pays to that key, with the keychain and
    with exactly the answer the keychain gave. Besides, every 64th operation - and every one around the 2**15 / 2**16 key and
    cache-entry boundaries - signs and validates an input for a new or an old key outright."""
    from pycoin.networks.registry import network_for_netcode
    rec.require(*LONGRUN_REQUIRED)
    net = network_for_netcode("BTC")
    Tx = net.tx
    rng = shard_rng(spec["seed"], PROPERTY, spec["tier"], "longrun")
    total = spec["ops"]
    d0 = rng.randrange(2 ** 200, C.n - total - 2)
    kc = net.keychain()
    tx = Tx(1, [Tx.TxIn(b"\x5a" * 32, 1)], [Tx.TxOut(900, b"\x51")], 0, [Tx.TxOut(1000, b"")])
    known = []                          # (compressed hash160, uncompressed hash160) of every secret supplied so far
    P = None
    boundaries = [b for k in range(15, 18) for b in (2 ** k, 2 ** k // 2)]
    flags = ALL16
    n_signed = 0

    def pay_to(h, kind):
        tx.unspents[0].script = b"\x76\xa9\x14" + h + b"\x88\xac" if kind == "p2pkh" else b"\x00\x14" + h
        tx.txs_in[0].script = b""
        tx.set_witness(0, [])
        tx.lock_time = (tx.lock_time + 1) % 400000000

    def signed_ok(lookup, with_reference):
        st, r = observe(tx.sign, lookup)
        ok = History.truth(*observe(tx.is_solution_ok, 0, flags=flags))
        if ok is True and with_reference:
            t = tx.txs_in[0]
            ref_tx = {"version": tx.version, "lock_time": tx.lock_time, "ins": [{"prev": t.previous_hash, "index": t.previous_index, "script": bytes(t.script),
                      "sequence": t.sequence, "witness": [bytes(w) for w in t.witness]}], "outs": [{"value": o.coin_value, "script": bytes(o.script)} for o in tx.txs_out]}
            ref = RS.result_of(RS.verify_script, bytes(t.script), bytes(tx.unspents[0].script), ref_tx["ins"][0]["witness"], flags, ForkChecker(ref_tx, 0, 1000, ("", 0)))
            rec.ev("longrun.signed_and_validated.reference")
            return ref == "OK"
        return ok is True

    def judge_signing(i, j, why, answer=None, with_reference=False):
        """an input paying to secret number j, signed with the keychain at operation i (and, for a suspect, with the answer
        the keychain gave): must validate"""
        nonlocal n_signed
        n_signed += 1
        form = answer[1] if answer is not None else (1 if (i + j) % 4 == 0 else 0)
        h = known[j][form]
        kind = "p2wpkh" if (form == 0 and (i + j) % 3 == 0) else "p2pkh"
        pay_to(h, kind)
        ok = signed_ok(kc, with_reference)
        if ok and answer is not None:
            pay_to(h, kind)
            ok = signed_ok({h: answer[0]} if answer[0] is not None else {}, with_reference)
        if ok:
            rec.ev("longrun.signed_and_validated")
        else:
            rec.violation("validity.signed_input_invalid.%s.long_lived_keychain" % kind,
                          {"longrun": True, "coord": [spec["seed"], spec["tier"]], "operation": i, "key_number": j, "why": why, "ops": total},
                          "input left invalid", "valid: its secret was supplied to the keychain")
        return ok

    for i in range(total):
        d = d0 + i
        P = C.mul(d, C.G) if P is None else C.add(P, C.G)
        x, y = P
        known.append((hash160(bytes([2 + (y & 1)]) + x.to_bytes(32, "big")), hash160(b"\x04" + x.to_bytes(32, "big") + y.to_bytes(32, "big"))))
        kc.add_secret(net.keys.private(d, is_compressed=i % 3 != 1))
        # what the signer would be told, for the new key, the oldest and an earlier one
        suspects = 0
        for j, form in ((i, 0), (i, 1), (0, (i >> 1) & 1) if i & 1 else ((i * 7919 + 13) % (i + 1), (i >> 1) & 1)):
            ans = kc.get(known[j][form])
            rec.ev("longrun.keychain_answer_judged")
            if not (isinstance(ans, tuple) and len(ans) >= 1 and ans[0] == d0 + j):
                suspects += 1
                rec.ev("longrun.suspect_answer")
                if suspects <= 1 and rec.counters.get("longrun.suspect_answer", 0) <= 40:
                    judge_signing(i, j, "keychain answered %r for a supplied key" % (type(ans).__name__,), answer=(ans, form), with_reference=False)
        near = any(abs(i + 1 - b) <= 3 or abs(2 * (i + 1) - b) <= 3 for b in boundaries)
        if near or i % 64 == 0:
            ok = judge_signing(i, i if (i // 64) % 2 == 0 else (i * 31 + 7) % (i + 1), "sample", with_reference=(n_signed % 100 == 0))
            if near:
                rec.ev("longrun.signed_near_2**16_boundary")
                judge_signing(i, 0, "oldest key near a boundary")
                if i + 1 > 2 ** 16:
                    rec.ev("longrun.oldest_key_signed_after_boundary")
        if stop_after is not None and i >= stop_after:
            break
    if len(known) > 2 ** 16 + 100:
        rec.ev("longrun.secrets_in_one_keychain>2**16+100")
    if stop_after is None:
        judge_signing(total - 1, 0, "oldest key at the end", with_reference=True)
        judge_signing(total - 1, 2 ** 15 - 1, "key 2**15 at the end", with_reference=True)
        if len(known) > 2 ** 16:
            rec.ev("longrun.oldest_key_signed_after_boundary")
    rec.case(("longrun", total))
    rec.ev("scenario:longrun")


def run_shard(spec, rec):
    from pycoin.networks.registry import network_for_netcode, network_codes
    if spec.get("kind") == "longrun":
        return run_longrun(spec, rec)
    rec.require(*REQUIRED)
    rec.require(*["net:" + c for c in network_codes()])
    keys = G.Keys(24)
    plan_nets = nets_for_shard(spec["slot"], spec["seed"], spec["n"])
    for k in range(spec["n"]):
        code = plan_nets[k]
        net = network_for_netcode(code)
        # every history has its own generator, so a stored case can be re-run exactly from its coordinates
        rng = shard_rng(spec["seed"], PROPERTY, spec["tier"], spec["shard"], salt=k)
        h = History(rec, net, code, rng, keys)
        h.coord = [spec["seed"], spec["tier"], spec["shard"], k]
        try:
            h.run()
        except Exception as e:          # harness or library crash: make it visible with the history that caused it
            import traceback
            rec.violation("history.crash.%s" % type(e).__name__, h.case({"tb": traceback.format_exc()[-1500:]}), repr(e), "no exception")
        if k < 2:
            rec.sample({"net": code, "puzzles": [p.brief() for p in h.puzzles], "hash_type": h.hash_type, "scenario": getattr(h, "scenario", "?"), "steps": h.log})


def replay_case(case, rec):
    """re-run exactly the stored history: its generator is a function of (seed, tier, shard, k)"""
    from pycoin.networks.registry import network_for_netcode
    if case.get("longrun"):
        seed, tier = case["coord"]
        return run_longrun({"seed": seed, "tier": tier, "ops": case["ops"]}, rec, stop_after=case["operation"])
    keys = G.Keys(24)
    net = network_for_netcode(case["net"])
    seed, tier, shard, k = case["coord"]
    h = History(rec, net, case["net"], shard_rng(seed, PROPERTY, tier, shard, salt=k), keys)
    h.coord = case["coord"]
    try:
        h.run()
    except Exception as e:
        rec.violation("history.crash.%s" % type(e).__name__, h.case(), repr(e), "no exception")
    rec.note("history replayed: %s" % h.log)
