"""C10 — key and signature encodings (WIF, SEC, DER) are lossless and strict."""
from vmon.probe import shard_rng, observe
from vmon.refs import b58 as RB, bip32 as RBIP, der as RD, ec as REC, sec as RS, wif as RW

PROPERTY = "C10"
PRELOAD_NETWORK_ORDERS = [["btc", "xtn", "ltc", "bch", "grs", "doge", "dash", "btg"], ["btg", "grs", "bch", "doge", "ltc", "xtn", "btc"]]
LEVEL = "exploration"
TECHNIQUE = ("differential runtime monitor at the key / codec API boundary vs independent SEC, DER, WIF, Base58Check and "
             "curve-arithmetic references; acceptance-subset-of-canonical (re-encode identity) oracle over enumerated and random "
             "blobs and texts; stateful query / derivation histories against a stateless model")
RULE = ("cases: (network, secret exponent, compression flag) round trips through WIF / SEC / hash160 / address on every "
        "usable registered network in the OpenSSL and the pure-Python configuration; candidate SEC blobs = every prefix "
        "0..255 x lengths {0,1,32,33,34,64,65,66} over several valid bodies, x >= p and y >= p aliases of real points, "
        "hybrid keys, wrong-parity / off-curve / x-without-point bodies, mutated valid encodings, random strings of "
        "length 0..70, each through Key.from_sec, network.keys.public, sec_to_public_pair and, spelled as hex text, parse.sec and (a "
        "blob-determined share, it costs a point multiplication) parse.public_key; every key's sec_as_hex() text read back by parse.sec / "
        "parse.public_key; out-of-range secret exponents (classes 0, n, 2^256-1, n < v < 2^256, negative, >= 2^256) through keys.private / "
        "Key(secret_exponent=) and, written as decimal / hex text, through parse.secret_exponent / parse.private_key; "
        "off-curve pairs on every network; (r, s) boundary products and random pairs through "
        "sigencode_der / sigdecode_der, candidate DER blobs (trailing bytes after and inside the sequence, mutated and "
        "random strings of length 0..70). Public pairs (off-curve, on NIST P-256, genuine, the point at infinity) are handed "
        "over in every spelling: plain tuple, tuple subclass, namedtuple, pycoin Point bound to the key's own curve, to another "
        "curve over the same field (a = 0 / a = 3, b chosen so the pair lies on it), to secp256r1, and a list, through "
        "keys.public(pair[, is_compressed=False]) and Key(public_pair=). Fresh key objects are queried for sec / hash160 / "
        "address / wif (default, compressed, uncompressed) / public_pair / is_compressed / secret_exponent in a case-determined "
        "shuffled order, every query twice. Query histories over derived objects: a source key (built from an exponent, parsed from "
        "WIF, from SEC, from a pair, a BIP32 node, an Electrum key) is asked nothing / the default / compressed / uncompressed form "
        "(hash160, address, fingerprint), then an object is derived from it (public_copy, subkey / subkey_for_path / subkeys, BIP32 and "
        "Electrum children, re-parsing its WIF through parse.wif / private_key / secret / parse(), its SEC through keys.public / from_sec / "
        "parse.sec / parse.public_key, the Point it returned through keys.public / Key(public_pair=), its pair as text, its exponent through "
        "keys.private / Key / parse.secret_exponent) and that object is asked all three forms in every starting order, then the source "
        "again; random walks of queries, side steps (repr, as_text, sec_as_hex, ku_output) and derivations over a pool of objects. "
        "Constructed WIF texts on every network: valid Base58Check around prefix || body for bodies of length 0, 1, 30..36 and more, "
        "every value 0..255 of the 33rd byte, marker with a short / long exponent field, marker or padding in front, boundary exponents "
        "(0, 1, n-1, n, n+1, 2^256-1, leading zero bytes, fields that begin with the prefix byte), dropped / doubled / altered / foreign "
        "prefixes, random bodies, damaged checksums, each through parse.wif, parse.private_key, parse.secret and parse(), as str and as "
        "one reused parseable_str. Refused calls of every constructible kind (out-of-range aliases e+n / e-n / e+2^256 of the very exponent used next, "
        "None / float / str / bytes exponents, both or neither constructor argument, SEC relatives of the point decoded next: x+p alias, hybrid, "
        "truncated, extended, off-curve, str / None / list; malformed pairs; WIF relatives: bad checksum / marker / length / prefix / range, non-str; "
        "number and SEC texts; DER junk / trailing / truncated / non-bytes, sigencode_der of None / float / negative / str; sign / verify refusals on "
        "the object; generator * None / str / float) are placed between the judged calls of every round trip, in front of valid SEC blobs and "
        "between DER encode / decode (position recorded in the case). Caller-owned bytearray SEC / DER blobs and list pairs: unchanged by the call, "
        "same answer twice, same answer as for bytes; returned bytearray / list values are edited by the caller before the query is repeated. "
        "Exponents whose public point has short coordinates (x, y, both), int-subclass / bool exponents with 1 / 0 flags, special points "
        "(y = +-1, smallest x, x just below p) as pairs in every spelling. One long-run shard: 2^16 + 100 (thorough 2^17 + 100) private-key "
        "constructions (keys.private, parse.wif, Key(secret_exponent=), parse.secret_exponent over all networks that share the generator) in ONE "
        "process, every one judged against a running sum of points, with sec / hash160 / public_pair (+ one random query) asked of ONE "
        "private and ONE public key object on every step. Answered neighbour calls (two shards, OpenSSL and pure Python): for an "
        "exponent no earlier case of the process touched, the compressed SEC of e*G, of -(e*G) (the sibling encoding of the same x) through "
        "keys.public / Key.from_sec / sec_to_public_pair / parse.sec(hex) and the uncompressed SEC through one of them are decoded AFTER documented "
        "calls that SUCCEED on the generator and involve that very x / point / key: possible_public_pairs_for_signature with r = x (y_parity equal "
        "/ opposite to the key's, absent, both in turn, twice, and a genuine signature made with k = e), points_for_x(x) (indexed; kept, and edited by "
        "the caller when it is a list), generator.verify / Key.verify with the pair and its negative (true and false outcomes), Key.sign / "
        "generator.sign / sign_with_recid with e, parse.public_pair('x/even' / 'x/odd'), network.msg.pair_for_message_hash on a compact signature "
        "with r = x, decoding the sibling encoding first, Point arithmetic on the points returned; every (family, variant) cold (x never seen by "
        "the process) and warm (the same blobs decoded, and judged, once before the calls), through the network's own generator and through "
        "another network's. Distinct by (operation, network, input, spelling); non-trivial unless the blob is empty.")
ASSUMPTIONS = [
    "references vmon/refs/sec.py, der.py, b58.py, ec.py are correct (self-tested on every run: published secp256k1 "
    "encodings and hash160 values, exhaustive blob enumeration on toy curves, X.690 hand vectors, exhaustive small-alphabet DER)",
    "'accepted' is judged where the property observes it: Key.from_sec and network.keys.public (strict mode). "
    "sec_to_public_pair on its own is held to the length / prefix / coordinate-range rules and to correct decompression; an "
    "uncompressed off-curve body it passes through is refused by Key.__init__, which is where the property places that check",
    "'strict DER decoding' = sigdecode_der(..., use_broken_open_ssl_mechanism=False); it is required to refuse bytes after "
    "the sequence and after the second integer, to decode every sigencode_der(r, s) for 0 <= r, s < 2^256, and to agree in value "
    "with a BER-tolerant parse of whatever else it accepts; non-minimal lengths/integers are tolerated (the statement names only "
    "trailing bytes)",
    "WIF = Base58Check(prefix || 32-byte big-endian exponent [|| 01 when compressed]); address = Base58Check(prefix || hash160); "
    "the per-network prefixes are read off the first key and required to be constant, not compared with a table",
    "off-curve pairs are drawn with 0 <= x, y < p (pairs outside the field are outside the quantifier)",
    "an off-curve pair is an off-curve pair in whatever tuple type it arrives (incl. a pycoin Point of another curve): "
    "InvalidPublicPairError is demanded; for a list (not a documented spelling) and for the point at infinity only refusal is demanded",
    "answers of a key object do not depend on which other queries were made on it before, nor on what was asked of the object it "
    "was derived from; a public copy / subkey / re-parsed key answers like a fresh key with the same exponent or pair and flag "
    "(public_copy keeps the compression flag; BIP32 nodes are compressed, Electrum keys uncompressed; BIP32 / Electrum children are "
    "located with the independent derivation of refs/bip32.py, which C08 validates)",
    "a text is the WIF of a key iff it equals reference_encode(prefix, exponent, flag) of some key: the WIF parsers (parse.wif and the "
    "dispatchers parse.private_key, parse.secret, parse() that share it) may return a key only for such a text, and then the key for "
    "exactly that exponent and flag whose wif() is the text again; None and any exception count as refusal; a dispatcher that reads "
    "the text as something that is not a key (contract) is not judged; texts that read as a decimal / hex number are not given to the dispatchers",
    "ku_output rows wif / key_pair_as_sec / hash160 / address (compressed and uncompressed) are the key's encodings and are compared too",
    "networks GRS, GRSRT, TGRS need the absent groestlcoin_hash module and are reported as absent configurations",
    "fingerprint(flag) is hash160(flag)[:4] (BIP32 definition) and is compared like hash160",
    "a compression flag is compared by truth value; a public-only key asked for wif() / secret_exponent() may answer None or refuse, "
    "it must not give a value; hex text in ku_output rows is compared without regard to letter case; a Point object bound to another "
    "Curve object whose coordinates lie on secp256k1 may be refused (when accepted it must be that key)",
    "the hex text of a SEC blob is a spelling of that blob: parse.sec / parse.public_key return a key only for the unique encoding of a "
    "point, and then that point and flag (own mechanism keys sec.text_*); the number text of an out-of-range exponent gives no key",
    "a refused call is never judged where it is placed as a disturbance (only the judged calls around it are); a decoder that refuses a "
    "bytearray / list argument altogether is tolerated; what happens to a key when the caller edits a list / bytearray it handed in "
    "AFTER the call is not judged (the statement does not speak of it; Key(public_pair=[x, y]) keeps the caller's list today)",
    "long run: the point pycoin answers is tested with the cross-multiplied chord law against the previous point and the table "
    "point (accepted points become the running sum; every 512th step and every degenerate step is recomputed with the affine reference "
    "and e*G from scratch; disagreement between these formulations is INCONCLUSIVE, not a violation). Base58 texts (wif, address) are judged "
    "on every parse.wif step and every 8th other step on the quick tier (pycoin's Base58 costs a sixth of a multiplication), compressed-SEC "
    "decoding on every step only on the thorough tier; the pure-Python configuration has no long run (an hour of CPU)",
    "answered neighbour calls (recovery, verification, signing, points_for_x, pair texts, message-signature recovery, Point arithmetic) are "
    "never judged here; only the SEC decodes around them are, with the same demands as a first decode in a fresh process: the statement's "
    "'every public key round-trips through SEC' has no 'unless the process did something else before' (mechanism keys "
    "sec.after_answered_call.<family>.*). A sequence points_for_x returns belongs to the caller like every other returned container: when it "
    "is a list the caller edits it (own key sec.after_answered_call.points_for_x_edited.*); today it is a tuple and nothing is edited",
    "every clause has a required counter; counters are summed over shards, so what the PYCOIN_NATIVE=none shards reached is also "
    "recorded (and required) as purepython/<counter>, and each shard records the arithmetic it really ran with "
    "(config_active:<openssl|purepython>/<shard kind>, required for the planned one): a shard that silently ran the other "
    "configuration makes the run INCONCLUSIVE",
]
EXPLANATION = ("every pycoin call is compared with the reference value; decoders may accept a blob only if the strict "
               "reference accepts it and the accepted key re-encodes to the same bytes; named errors are checked by class; "
               "valid SEC encodings are decoded again after successful (unjudged) signature-recovery / verify / sign / points_for_x / pair-text calls on the "
               "same x coordinate and must decode as in a fresh process")
TIMEOUT = {"quick": 600, "thorough": 3 * 3600}

N = REC.SECP256K1.n
P_ = REC.SECP256K1.p
C = REC.SECP256K1
LENGTHS = [0, 1, 32, 33, 34, 64, 65, 66]
# one process, one generator object: more key constructions than a 16-bit counter holds (thorough: a 17-bit one)
LONGRUN_OPS = {"quick": (1 << 16) + 100, "thorough": (1 << 17) + 100}
_SEC_LENGTHS, _DER_LENGTHS = set(), set()


def exhaustive(tier):
    return False


def configurations(tier):
    return [{"name": "PYCOIN_NATIVE unset (OpenSSL libcrypto point multiplication)", "exercised": True},
            {"name": "PYCOIN_NATIVE=none (pure Python arithmetic)", "exercised": True},
            {"name": "libsecp256k1", "exercised": False, "why": "library not installed"},
            {"name": "networks GRS/GRSRT/TGRS", "exercised": False, "why": "groestlcoin_hash module absent"}]


def plan(tier, seed):
    shards = _plan_base(tier, seed)
    # the shards above keep the shard number (their random streams) and the process configuration they had before the long-run
    # shard was put in front of them (it starts first because it is the longest)
    for i, s in enumerate(shards):
        s["shard"] = i
        s["preload_networks"] = PRELOAD_NETWORK_ORDERS[(i % 3 - 1 + seed) % len(PRELOAD_NETWORK_ORDERS)] if i % 3 else []
    longrun = {"kind": "longrun", "ops": LONGRUN_OPS["quick" if tier == "quick" else "thorough"], "shard": len(shards), "preload_networks": [],
               "label": "longrun-one-process"}
    q = tier == "quick"
    neighbours = [{"kind": "neighbour", "rounds": 12 if q else 120, "shard": len(shards) + 1, "preload_networks": [], "label": "neighbour-calls-openssl"},
                  {"kind": "neighbour", "rounds": 1 if q else 8, "max_nets": 5 if q else 16, "shard": len(shards) + 2, "preload_networks": PRELOAD_NETWORK_ORDERS[seed % 2],
                   "env": {"PYCOIN_NATIVE": "none"}, "label": "neighbour-calls-purepython"}]
    return [longrun] + shards + neighbours


def _plan_base(tier, seed):
    q = tier == "quick"
    shards = []
    for part in range(6):
        shards.append({"kind": "roundtrip", "part": part, "parts": 6, "rand_keys": 16 if q else 120, "label": "roundtrip-openssl-%d" % part})
    for part in range(4 if q else 6):
        shards.append({"kind": "roundtrip", "part": part, "parts": 4 if q else 6, "rand_keys": 1 if q else 12, "bound_keys": 3 if q else 12,
                       "env": {"PYCOIN_NATIVE": "none"}, "label": "roundtrip-purepython-%d" % part})
    shards.append({"kind": "secret", "n": 40 if q else 600})
    shards.append({"kind": "secret", "n": 6 if q else 60, "env": {"PYCOIN_NATIVE": "none"}})
    for i in range(4 if q else 32):
        shards.append({"kind": "sec", "n": 7500 if q else 250000, "idx": i})
    shards.append({"kind": "sec", "n": 1500 if q else 100000, "idx": 99, "env": {"PYCOIN_NATIVE": "none"}})
    for i in range(2 if q else 12):
        shards.append({"kind": "der", "n": 12000 if q else 300000, "idx": i})
    for part in range(6):
        shards.append({"kind": "history", "part": part, "parts": 6, "sys_keys": 1 if q else 4, "walks": 3 if q else 60, "walk_len": 30 if q else 40,
                       "label": "history-openssl-%d" % part})
    shards.append({"kind": "history", "part": 0, "parts": 1, "max_nets": 2 if q else 12, "sys_keys": 1, "walks": 1 if q else 6, "walk_len": 12,
                   "light": True, "env": {"PYCOIN_NATIVE": "none"}, "label": "history-purepython"})
    for part in range(3 if q else 6):
        shards.append({"kind": "wif", "part": part, "parts": 3 if q else 6, "rand_exponents": 1 if q else 24, "rand_texts": 30 if q else 600,
                       "label": "wif-texts-%d" % part})
    return shards


def selftest(rec):
    for e, (xs, ys) in SHORT_COORDINATE_EXPONENTS.items():
        x, y = C.mul(e, C.G)
        assert (x < 1 << 248, y < 1 << 248) == (xs, ys) and C.mul_affine(e, C.G) == (x, y), e
    assert _is_sum(C.G, C.mul(2, C.G), C.mul(3, C.G)) and not _is_sum(C.G, C.mul(2, C.G), C.mul(4, C.G)) and not _is_sum(C.G, C.mul(2, C.G), C.neg(C.mul(3, C.G)))
    a, b = C.mul(0x1234567, C.G), C.mul(N - 99, C.G)
    assert _is_sum(a, b, C.add(a, b)) and not _is_sum(a, b, (C.add(a, b)[0], a[1]))
    return {"ec": REC.selftest(), "sec": RS.selftest(), "der": RD.selftest(), "b58_vectors": RB.selftest(), "wif": RW.selftest()}


# ---------------------------------------------------------------------------------------------

class M:
    """pycoin bindings (imported inside the worker)."""

    def __init__(self, rec):
        from pycoin.networks.registry import network_codes, network_for_netcode
        from pycoin.encoding.sec import sec_to_public_pair
        try:
            from pycoin.key.Key import InvalidSecretExponentError, InvalidPublicPairError
        except ImportError:                      # where the classes live is not part of the statement: network.keys.* names them
            InvalidSecretExponentError = InvalidPublicPairError = Exception
        from pycoin.satoshi import der
        self.sec_to_public_pair = sec_to_public_pair
        self.ISE, self.IPP = InvalidSecretExponentError, InvalidPublicPairError
        self.der = der
        self.nets = {}
        self.absent = []
        for code in sorted(network_codes()):
            try:
                net = network_for_netcode(code)
                k = net.keys.private(1)
                k.wif(), k.address()
                self.nets[code] = net
            except ImportError as e:
                self.absent.append(code)
                rec.note("network %s unusable here: %s" % (code, str(e)[:80]))
        self._pub = {}
        self._kc = {}
        import os
        self.pure = os.environ.get("PYCOIN_NATIVE") == "none"
        self.replay = False
        self.disturb = None                      # a Disturber, in the shards that interleave refused calls
        self._wp = {}

    def wif_prefix(self, code):
        if code not in self._wp:
            raw = RB.decode_check(observe(self.nets[code].keys.private(1).wif)[1] or "")
            self._wp[code] = raw[:-33] if raw is not None and len(raw) > 33 else b"\x80"
        return self._wp[code]

    def keyclass(self, code):
        if code not in self._kc:
            self._kc[code] = type(self.nets[code].keys.private(1))
        return self._kc[code]

    def refpub(self, se):
        if se not in self._pub:
            self._pub[se] = C.mul(se, C.G)
        return self._pub[se]


# exponents whose public point has coordinates with leading zero bytes: y short, x short, x two bytes short, both short at once
# (found with the reference arithmetic; selftest() checks the claim)
SHORT_COORDINATE_EXPONENTS = {122: (False, True), 153: (True, False), 44629: (True, False), 55959: (True, True)}


def boundary_exponents():
    return [1, 2, 3, N - 1, N - 2, (N - 1) // 2, (N + 1) // 2, 1 << 128, (1 << 255), 0xff, 1 << 248, (1 << 248) - 1,
            P_ - N, 0x0100, N - (1 << 128), 0x80 << 240, int("01" * 32, 16), int("7f" + "ff" * 31, 16)] + sorted(SHORT_COORDINATE_EXPONENTS)


class _IntT(int):
    """an integer that is not exactly an int"""


def _no_secret(observed):
    """a public key asked for its secret exponent / WIF: None or a refusal, never a value (the statement says no more)"""
    st, v = observed
    return st != "ok" or v is None


def _split_address(text):
    raw = RB.decode_check(text) if isinstance(text, str) else None
    if raw is None or len(raw) < 20:
        return None, None
    return raw[:-20], raw[-20:]


# ---------------------------------------------------------------------------------------------
# calls the library refuses, placed between the judged calls: what they leave behind must not change the next answers.
# A refusal is never judged here (nor is an acceptance: the strictness clauses are judged where the blobs / texts are enumerated).

REFUSED_KINDS = (
    # secret exponents: out-of-range aliases of the very exponent that is used next, and things that are not integers
    "secret:zero", "secret:alias_plus_n", "secret:alias_minus_n", "secret:alias_plus_2^256", "secret:none", "secret:float", "secret:str",
    "secret:bytes", "key:both", "key:neither",
    # SEC blobs derived from the point that is decoded next
    "sec:empty", "sec:truncated", "sec:extended", "sec:x_alias_plus_p", "sec:hybrid", "sec:off_curve", "sec:prefix_05", "sec:str", "sec:none",
    "sec:list",
    "pair:off_curve", "pair:infinity", "pair:none_y", "pair:str_y", "pair:short", "pair:none",
    "wif:bad_checksum", "wif:bad_marker", "wif:short_exponent", "wif:alias_plus_n", "wif:foreign_prefix", "wif:none", "wif:bytes", "wif:int",
    "text:exponent_zero", "text:exponent_alias", "text:exponent_none", "text:sec_none", "text:sec_bytes", "text:sec_odd_hex",
    "der:junk", "der:trailing", "der:truncated", "der:str", "der:none", "der:list", "der:encode_none", "der:encode_float", "der:encode_negative",
    "der:encode_str",
    "obj:sign_none", "obj:sign_public", "obj:verify_none", "obj:verify_junk",
    "generator:mul_none", "generator:mul_str", "generator:mul_float",
)
DER_REFUSED_KINDS = tuple(k for k in REFUSED_KINDS if k.startswith("der:"))
SEC_REFUSED_KINDS = tuple(k for k in REFUSED_KINDS if k.startswith(("sec:", "pair:", "text:sec")))


def refused_call(kind, n, net, code, rec, m, se=1, comp=True, P=None, key=None, r=1, s=1):
    """one call of the named kind; n (a running number) picks the entry point where several take the same input"""
    fam, _, what = kind.partition(":")
    if fam != "der":
        if P is None:
            P = m.refpub(se)
        KeyClass = m.keyclass(code)
        x, y = P
        sec_c, sec_u = RS.encode(P, True), RS.encode(P, False)
    if fam == "secret":
        v = {"zero": 0, "alias_plus_n": se + N, "alias_minus_n": se - N, "alias_plus_2^256": se + (1 << 256), "none": None,
             "float": 1.5 if n & 2 else float(se), "str": str(se), "bytes": se.to_bytes(32, "big")}[what]
        fn = [lambda: net.keys.private(v), lambda: KeyClass(secret_exponent=v, is_compressed=comp), lambda: net.keys.private(v, is_compressed=False)][n % 3]
    elif kind == "key:both":
        fn = lambda: KeyClass(secret_exponent=se, public_pair=P)
    elif kind == "key:neither":
        fn = lambda: KeyClass()
    elif fam == "sec":
        b = {"empty": b"", "truncated": (sec_c if n & 4 else sec_u)[:-1], "extended": (sec_u if n & 4 else sec_c) + b"\x00",
             "x_alias_plus_p": (bytes([2 + (y & 1)]) + _b32(x + P_)) if x + P_ < 1 << 256 else b"\x02" + _b32(P_),
             "hybrid": bytes([6 + (y & 1)]) + sec_u[1:], "off_curve": sec_u[:-1] + bytes([sec_u[-1] ^ 1]), "prefix_05": b"\x05" + sec_c[1:],
             "str": sec_c.hex(), "none": None, "list": list(sec_c)}[what]
        fn = [lambda: KeyClass.from_sec(b), lambda: net.keys.public(b), lambda: m.sec_to_public_pair(b, net.generator),
              lambda: net.parse.sec(b.hex() if isinstance(b, bytes) else b)][n % 4 if what != "str" else n % 3]
    elif fam == "pair":
        v = {"off_curve": (x, y ^ 1), "infinity": (None, None), "none_y": (x, None), "str_y": (x, "abc"), "short": (x,), "none": None}[what]
        fn = [lambda: net.keys.public(v), lambda: KeyClass(public_pair=v), lambda: net.keys.public(v, is_compressed=False)][n % 3]
    elif fam == "wif":
        pw = m.wif_prefix(code)
        body = se.to_bytes(32, "big")
        good = RW.encode(pw, se, comp)
        alphabet = "123456789ABCDEFGHJKLMNPQRSTUVWXYZabcdefghijkmnopqrstuvwxyz"
        v = {"bad_checksum": good[:-1] + alphabet[(alphabet.index(good[-1]) + 1 + n % 57) % 58],
             "bad_marker": RB.encode_check(pw + body + bytes([2 + n % 254])), "short_exponent": RB.encode_check(pw + body[2:] + (b"\x01" if comp else b"")),
             "alias_plus_n": RB.encode_check(pw + ((se + N) if se + N < 1 << 256 else 0).to_bytes(32, "big") + (b"\x01" if comp else b"")),
             "foreign_prefix": RB.encode_check(bytes([pw[0] ^ 1]) + pw[1:] + body + (b"\x01" if comp else b"")),
             "none": None, "bytes": good.encode(), "int": se}[what]
        P_api = net.parse
        fn = [lambda: P_api.wif(v), lambda: P_api.wif(v), lambda: P_api.private_key(v), lambda: P_api.wif(v), lambda: P_api.secret(v)][
            n % 5 if not m.pure and isinstance(v, str) else 0]
    elif fam == "text":
        if what.startswith("exponent"):
            v = {"exponent_zero": "0", "exponent_alias": str(se + N), "exponent_none": None}[what]
            fn = lambda: net.parse.secret_exponent(v)
        else:
            v = {"sec_none": None, "sec_bytes": sec_c, "sec_odd_hex": sec_c.hex()[:-1]}[what]
            fn = lambda: net.parse.sec(v)
    elif fam == "der":
        good = RD.encode(r, s)
        if what.startswith("encode"):
            v = {"encode_none": None, "encode_float": 1.5, "encode_negative": -1 - r, "encode_str": str(r)}[what]
            fn = (lambda: m.der.sigencode_der(v, s)) if n & 1 else (lambda: m.der.sigencode_der(r, v))
        else:
            v = {"junk": b"junk", "trailing": good + b"\x00", "truncated": good[:-1], "str": good.hex(), "none": None, "list": list(good)}[what]
            fn = lambda: m.der.sigdecode_der(v, use_broken_open_ssl_mechanism=False)
    elif fam == "obj":
        if key is None:
            st, key = observe(net.keys.public, sec_c if comp else sec_u)
            if st != "ok":
                return
        if what == "sign_none":
            fn = lambda: key.sign(None)
        elif what == "sign_public":
            fn = lambda: key.public_copy().sign(b"\x11" * 32)
        elif what == "verify_none":
            fn = lambda: key.verify(None, None)
        else:
            fn = lambda: key.verify(b"\x11" * 32, b"junk" if n & 1 else b"\x30\x06\x02\x01\x01\x02\x01")
    elif fam == "generator":
        v = {"mul_none": None, "mul_str": "2", "mul_float": 2.5}[what]
        fn = (lambda: net.generator * v) if n & 1 else (lambda: v * net.generator)
    else:
        raise ValueError(kind)
    st, v_ = observe(fn)
    rec.ev("refused_call:" + kind)
    if st == "ok" and v_ is not None and v_ is not False:
        rec.ev("refused_call_answered:" + fam)         # not judged here


def _scribble(v, rec):
    """the caller edits a mutable container it was handed; -> the value as it was (a copy) for the comparison"""
    if isinstance(v, bytearray):
        rec.ev("returned_container:mutable_edited")
        keep = bytes(v)
        if len(v):
            v[0] ^= 0xff
        return keep
    if isinstance(v, list):
        rec.ev("returned_container:mutable_edited")
        keep = list(v)
        if len(v):
            v[0] = None
        return keep
    if isinstance(v, (dict, set)):
        rec.ev("returned_container:mutable_edited")
        keep = type(v)(v)
        v.clear()
        return keep
    rec.ev("returned_container:immutable")
    return v


class Disturber(object):
    """rotates through the kinds of refused calls; the position is written into the case so that a replay places the same calls"""

    def __init__(self, rec, m, start=0, kinds=REFUSED_KINDS, per_call=2):
        self.rec, self.m, self.i, self.kinds, self.per_call = rec, m, start, kinds, per_call

    def __call__(self, net, code, **kw):
        for _ in range(self.per_call):
            kind = self.kinds[self.i % len(self.kinds)]
            refused_call(kind, self.i, net, code, self.rec, self.m, **kw)
            self.i += 1


def _sec_answer(obs):
    st, v = obs
    if st != "ok" or v is None:
        return ("refused",)
    if hasattr(v, "public_pair"):
        return ("key", tuple(v.public_pair()), bool(v.is_compressed()), observe(v.sec)[1])
    return ("pair", tuple(v))


def judge_mutable_sec(net, code, blob, rec, m):
    """a SEC blob handed over in a caller-owned bytearray: the call leaves it as it was and answers the same both times — and the same
    as for the bytes (a decoder that refuses bytearray altogether is tolerated)"""
    KeyClass = m.keyclass(code)
    for name, fn in (("Key.from_sec", KeyClass.from_sec), ("keys.public(sec)", net.keys.public),
                     ("sec_to_public_pair", lambda b: m.sec_to_public_pair(b, net.generator))):
        ba = bytearray(blob)
        rec.ev("mutable_arg:sec_bytearray")
        case = {"net": code, "blob": blob, "entry": name, "argument": "bytearray"}
        a1 = _sec_answer(observe(fn, ba))
        a2 = _sec_answer(observe(fn, ba))
        if bytes(ba) != blob:
            rec.violation("args.sec_bytearray_modified", case, bytes(ba), blob)
            continue
        if a1 != a2:
            rec.violation("args.sec_second_call_differs", case, a1, a2)
            continue
        if a1 == ("refused",):
            rec.ev("mutable_arg_refused")
            continue
        a0 = _sec_answer(observe(fn, bytes(blob)))
        if a0 != a1:
            rec.violation("args.sec_bytearray_answer_differs", case, a1, a0)


def check_key(net, code, se, comp, rec, m, prefixes):
    """All round trips for one (network, exponent, compression flag)."""
    case = {"net": code, "se": se, "compressed": comp}
    rec.case(("rt", code, se, comp))
    Pref = m.refpub(se)
    if m.disturb is not None:
        case["disturb_from"] = m.disturb.i           # refused calls are placed between the judged ones from here on
    disturb = (lambda key=None: m.disturb(net, code, se=se, comp=comp, P=Pref, key=key)) if m.disturb is not None else (lambda key=None: None)
    disturb()
    rec.ev("Key(secret_exponent)")
    st, k = observe(net.keys.private, se, is_compressed=comp)
    if st != "ok":
        rec.violation("key.valid_exponent_refused", case, k, "key")
        return
    if tuple(k.public_pair()) != Pref:
        rec.violation("key.public_pair_mismatch", case, tuple(k.public_pair()), Pref)
        return
    if bool(k.is_compressed()) is not comp or k.secret_exponent() != se:
        rec.violation("key.flag_or_exponent_mismatch", case, [k.is_compressed(), k.secret_exponent()], [comp, se])
    sec_c, sec_u = RS.encode(Pref, True), RS.encode(Pref, False)
    mine = sec_c if comp else sec_u
    other = sec_u if comp else sec_c
    if Pref[0] < 1 << 248 or Pref[1] < 1 << 248:
        rec.ev("short_coordinate_key:" + ("both" if Pref[0] < 1 << 248 and Pref[1] < 1 << 248 else "x" if Pref[0] < 1 << 248 else "y"))
    disturb(k)
    # --- SEC / hash160 / address straight from the private key
    rec.ev("key.sec")
    got = [observe(k.sec)[1], observe(k.sec, is_compressed=True)[1], observe(k.sec, is_compressed=False)[1]]
    if got != [mine, sec_c, sec_u]:
        rec.violation("sec.encode_mismatch", case, got, [mine, sec_c, sec_u])
    rec.ev("key.hash160")
    h_mine, h_other = RS.hash160(mine), RS.hash160(other)
    got = [observe(k.hash160)[1], observe(k.hash160, is_compressed=not comp)[1], observe(k.hash160)[1]]
    if got != [h_mine, h_other, h_mine]:
        rec.violation("hash160.mismatch", case, got, [h_mine, h_other, h_mine])
    disturb(k)
    rec.ev("key.address")
    st, addr = observe(k.address)
    st2, addr_o = observe(k.address, is_compressed=not comp)
    pa, ha = _split_address(addr) if st == "ok" else (None, None)
    pb, hb = _split_address(addr_o) if st2 == "ok" else (None, None)
    if ha != h_mine or hb != h_other or pa is None or pa != pb:
        rec.violation("address.not_base58check_of_hash160", case, [addr, addr_o], [h_mine, h_other])
    else:
        want = prefixes.setdefault("addr", pa)
        if want != pa:
            rec.violation("address.prefix_varies", case, pa, want)
    # --- WIF both ways
    for wc in (comp, not comp):
        disturb(k)
        rec.ev("key.wif")
        st, w = observe(k.wif) if wc == comp else observe(k.wif, is_compressed=wc)
        raw = RB.decode_check(w) if st == "ok" and isinstance(w, str) else None
        tail = se.to_bytes(32, "big") + (b"\x01" if wc else b"")
        if raw is None or not raw.endswith(tail):
            rec.violation("wif.not_wif_format", dict(case, wif_compressed=wc), w, tail)
            continue
        pw = raw[:-len(tail)]
        if prefixes.setdefault("wif", pw) != pw:
            rec.violation("wif.prefix_varies", dict(case, wif_compressed=wc), pw, prefixes["wif"])
        disturb()
        rec.ev("parse.wif")
        st, k2 = observe(net.parse.wif, w)
        if st != "ok" or k2 is None:
            rec.violation("wif.roundtrip_refused", dict(case, wif_compressed=wc), k2, "key")
            continue
        disturb(k2)
        exp_sec = sec_c if wc else sec_u
        exp_addr = addr if wc == comp else addr_o
        obs = [k2.secret_exponent(), bool(k2.is_compressed()), tuple(k2.public_pair()), observe(k2.sec)[1], observe(k2.hash160)[1],
               observe(k2.address)[1], observe(k2.wif)[1]]
        exp = [se, wc, Pref, exp_sec, RS.hash160(exp_sec), exp_addr, w]
        if obs != exp:
            names = ["secret_exponent", "compression_flag", "public_pair", "sec", "hash160", "address", "wif"]
            bad = [n for n, a, b in zip(names, obs, exp) if a != b]
            rec.violation("wif.roundtrip_changes_" + bad[0], dict(case, wif_compressed=wc), obs, exp)
    # --- SEC both forms through the public decoders
    KeyClass = type(k)
    for blob, bc in ((sec_c, True), (sec_u, False)):
        exp_addr = addr if bc == comp else addr_o
        for name, fn in (("keys.public(sec)", net.keys.public), ("Key.from_sec", KeyClass.from_sec)):
            disturb()
            rec.ev(name)
            st, pk = observe(fn, blob)
            if st != "ok":
                rec.violation("sec.rejects_valid", dict(case, blob=blob, entry=name), pk, "key")
                continue
            disturb(pk)
            obs = [tuple(pk.public_pair()), bool(pk.is_compressed()), observe(pk.sec)[1], observe(pk.hash160)[1], observe(pk.address)[1],
                   _no_secret(observe(pk.secret_exponent)), _no_secret(observe(pk.wif))]
            exp = [Pref, bc, blob, RS.hash160(blob), exp_addr, True, True]
            if obs != exp:
                names = ["public_pair", "compression_flag", "sec", "hash160", "address", "secret_exponent", "wif"]
                bad = [n for n, a, b in zip(names, obs, exp) if a != b]
                rec.violation("sec.roundtrip_changes_" + bad[0], dict(case, blob=blob, entry=name), obs, exp)
        judge_mutable_sec(net, code, blob, rec, m)
        disturb()
        rec.ev("sec_to_public_pair")
        st, pp = observe(m.sec_to_public_pair, blob, net.generator)
        if st != "ok" or tuple(pp) != Pref:
            rec.violation("sec.rejects_valid" if st != "ok" else "sec.decode_mismatch", dict(case, blob=blob, entry="sec_to_public_pair"), pp, Pref)
        # the key's own text form of that encoding, read back by the text parsers (whatever the text looks like)
        rec.ev("key.sec_as_hex")
        st, text = observe(k.sec_as_hex, is_compressed=bc)
        for name, fn in (("parse.sec", net.parse.sec), ("parse.public_key", net.parse.public_key)):
            if name == "parse.public_key" and (m.pure or bc != comp) and not m.replay:
                continue                         # the dispatcher multiplies a point per call: default configuration, the key's own form
            rec.ev("sec_text_roundtrip")
            st2, pk = observe(fn, text) if st == "ok" else ("exc", text)
            if st2 != "ok" or pk is None:
                rec.violation("sec.text_roundtrip_refused", dict(case, sec_text_compressed=bc, entry=name), pk, "key")
            elif [tuple(pk.public_pair()), bool(pk.is_compressed()), observe(pk.sec)[1], observe(pk.address)[1]] != [Pref, bc, blob, exp_addr]:
                rec.violation("sec.text_roundtrip_mismatch", dict(case, sec_text_compressed=bc, entry=name),
                              [tuple(pk.public_pair()), pk.is_compressed(), observe(pk.sec)[1], observe(pk.address)[1]], [Pref, bc, blob, exp_addr])
    disturb()
    rec.ev("Key(public_pair)")
    st, pk = observe(net.keys.public, Pref, is_compressed=comp)
    if st != "ok" or tuple(pk.public_pair()) != Pref or bool(pk.is_compressed()) is not comp or observe(pk.sec)[1] != mine \
            or observe(pk.address)[1] != addr or observe(pk.hash160)[1] != h_mine:
        rec.violation("key.public_pair_roundtrip", case, pk, Pref)
    # value-equal flavours of the arguments: the exponent as an int subclass (True for 1), the flag as 1 / 0
    if not m.pure or m.replay:
        rec.ev("argument_flavour:int_subclass_exponent_int_flag")
        fl = True if se == 1 and not comp else _IntT(se)
        st, kf = observe(net.keys.private, fl, is_compressed=int(comp))
        if st != "ok":
            rec.violation("key.valid_exponent_refused", dict(case, flavour=type(fl).__name__), kf, "key")
        else:
            obs = [observe(kf.secret_exponent)[1], bool(observe(kf.is_compressed)[1]), tuple(kf.public_pair()), observe(kf.sec)[1], observe(kf.hash160)[1],
                   observe(kf.address)[1], observe(kf.wif)[1]]
            exp = [se, comp, Pref, mine, h_mine, addr, observe(k.wif)[1]]
            if obs != exp:
                names = ["secret_exponent", "compression_flag", "public_pair", "sec", "hash160", "address", "wif"]
                rec.violation("key.flavour_changes_" + [n for n, a, b in zip(names, obs, exp) if a != b][0], dict(case, flavour=type(fl).__name__), obs, exp)
    # the same pair handed over as a Point object of the network's own curve / as a tuple subclass
    entry = "keys.public(pair)" if comp else "keys.public(pair, uncompressed)"
    for form in ("point_own", "tuple_subclass"):
        judge_pair(net, code, Pref, form, entry, rec, m)
    # --- fresh objects queried in a case-determined order, every query twice: answers do not depend on what was asked before
    if pa is not None and "wif" in prefixes and "addr" in prefixes:
        import random
        want = {("public_pair", None): Pref, ("is_compressed", None): comp}
        for flag, blob in ((None, mine), (True, sec_c), (False, sec_u)):
            want[("sec", flag)] = blob
            want[("hash160", flag)] = RS.hash160(blob)
            want[("address", flag)] = RB.encode_check(prefixes["addr"] + RS.hash160(blob))
        priv = dict(want)
        priv[("secret_exponent", None)] = se
        want[("secret_exponent", None)] = None
        for flag, c in ((None, comp), (True, True), (False, False)):
            priv[("wif", flag)] = RB.encode_check(prefixes["wif"] + se.to_bytes(32, "big") + (b"\x01" if c else b""))
            want[("wif", flag)] = None
        order_rng = random.Random(se * 2 + int(comp))
        import os
        objects = [("private", lambda: net.keys.private(se, is_compressed=comp), priv), ("public_from_sec", lambda: net.keys.public(mine), want)]
        if os.environ.get("PYCOIN_NATIVE") == "none":
            objects = objects[1:]                # a further pure-Python point multiplication per case is not worth its 20 ms
        for label, make, exp in objects:
            disturb()
            st, obj = observe(make)
            if st != "ok":
                continue                         # reported above
            queries = sorted(exp, key=lambda q: (q[0], str(q[1]))) * 2
            order_rng.shuffle(queries)
            rec.ev("key.query_history")
            for qi, (name, flag) in enumerate(queries):
                if qi % 6 == 3:
                    disturb(obj)
                meth = getattr(obj, name)
                st, got = observe(meth) if flag is None else observe(meth, is_compressed=flag)
                got = _scribble(got, rec)              # what the caller does with the value it was given changes no later answer
                if name == "public_pair" and st == "ok":
                    got = tuple(got)
                if name == "is_compressed" and st == "ok":
                    got = bool(got)
                if exp[(name, flag)] is None and name in ("wif", "secret_exponent") and _no_secret((st, got)):
                    continue
                if st != "ok" or got != exp[(name, flag)]:
                    rec.violation("key.history.%s_mismatch" % name, dict(case, object=label, query=[name, flag]),
                                  got, exp[(name, flag)])
                    break
    return {"net": code, "secret_exponent": se, "compressed": comp, "wif": observe(k.wif)[1], "sec": mine, "address": addr}


def run_roundtrip(spec, rec, m):
    rng = shard_rng(spec["seed"], PROPERTY, spec["tier"], spec["shard"])
    codes = [c for i, c in enumerate(sorted(m.nets)) if i % spec["parts"] == spec["part"]]
    bounds = boundary_exponents()
    m.disturb = Disturber(rec, m, start=spec["part"] * 11 + spec["seed"])
    for ci, code in enumerate(codes):
        net = m.nets[code]
        prefixes = {}
        if spec.get("bound_keys"):
            b = spec["bound_keys"]
            start = (ci * b + spec["part"]) % len(bounds)
            mine = [bounds[(start + j) % len(bounds)] for j in range(b)]
        else:
            mine = list(bounds)
        for _ in range(spec["rand_keys"]):
            mode = rng.random()
            if mode < 0.6:
                mine.append(rng.randrange(1, N))
            elif mode < 0.8:
                mine.append(rng.randrange(1, 1 << rng.choice([8, 16, 64, 120, 200, 248])))
            else:
                mine.append(N - rng.randrange(1, 1 << rng.choice([8, 64, 127])))
        for j, se in enumerate(mine):
            for comp in (True, False):
                s = check_key(net, code, se, comp, rec, m, prefixes)
                if s and j == len(mine) - 1 and comp and ci < 2:
                    rec.sample(dict(s, op="WIF/SEC/address round trip"))
        rec.ev("networks_usable")


# ---------------------------------------------------------------------------------------------
# query-order histories: one key object and the objects derived from it (public_copy, subkeys, re-parsed / re-built from
# what it returned), every encoding asked with is_compressed default / True / False in all orders

FLAGS = (None, True, False)
MEMO_QUERIES = ("hash160", "address", "fingerprint")
FLAG_QUERIES = ("sec", "hash160", "fingerprint", "address", "wif")
PLAIN_QUERIES = ("public_pair", "is_compressed", "secret_exponent", "is_private")
SIDE_STEPS = ("repr", "as_text", "sec_as_hex", "ku_output", "failing_call")
# derivations after which the new object could share state with the old one get the full pre x post enumeration
SHARING_KINDS = ("public_copy", "pair:keys.public", "pair:Key", "child", "child_pub")
SELF_KINDS = ("subkey", "subkey_for_path", "subkeys")
KU_NAMES = {"wif": ("wif", True), "wif_uncompressed": ("wif", False), "key_pair_as_sec": ("sec", True),
            "key_pair_as_sec_uncompressed": ("sec", False), "hash160": ("hash160", True), "hash160_uncompressed": ("hash160", False),
            "address": ("address", True), "address_uncompressed": ("address", False)}


class KM(object):
    """what one key-like object has to answer: secret exponent (or None), public pair, default compression flag;
    kind 'key' / 'bip32' / 'electrum' and, for BIP32 nodes, the reference node (for subkeys)"""

    def __init__(self, se, pub, comp, kind="key", hd=None, origin="source"):
        self.se, self.pub, self.comp, self.kind, self.hd, self.origin = se, pub, comp, kind, hd, origin

    def clone(self, origin):
        return KM(self.se, self.pub, self.comp, self.kind, self.hd, origin)


_H160 = {}


def _h160(pub, c):
    k = (pub, c)
    if k not in _H160:
        if len(_H160) > 20000:
            _H160.clear()
        _H160[k] = RS.hash160(RS.encode(pub, c))
    return _H160[k]


def km_expect(mo, name, flag, pf):
    c = mo.comp if flag is None else flag
    if name == "sec":
        return RS.encode(mo.pub, c)
    if name == "hash160":
        return _h160(mo.pub, c)
    if name == "fingerprint":
        return _h160(mo.pub, c)[:4]
    if name == "address":
        return RB.encode_check(pf["addr"] + _h160(mo.pub, c))
    if name == "wif":
        return None if mo.se is None else RW.encode(pf["wif"], mo.se, c)
    if name == "public_pair":
        return mo.pub
    if name == "is_compressed":
        return mo.comp
    if name == "secret_exponent":
        return mo.se
    if name == "is_private":
        return mo.se is not None
    raise ValueError(name)


def net_prefixes(net, code, rec):
    """address / WIF prefix of a network, read off the key with exponent 1 (the round-trip shards check they are constant)"""
    k = net.keys.private(1)
    w = RB.decode_check(observe(k.wif)[1]) if isinstance(observe(k.wif)[1], str) else None
    a = RB.decode_check(observe(k.address)[1]) if isinstance(observe(k.address)[1], str) else None
    if w is None or a is None or len(w) < 34 or len(a) < 21 or w[-33:] != (1).to_bytes(32, "big") + b"\x01":
        rec.violation("wif.not_wif_format", {"net": code, "se": 1, "compressed": True}, [observe(k.wif)[1], observe(k.address)[1]], "Base58Check texts")
        return None
    return {"wif": w[:-33], "addr": a[:-20]}


def make_source(net, code, src, m, pf):
    """-> (status, object, model)"""
    kind = src["kind"]
    if kind in ("bip32", "bip32_pub"):
        seed = bytes(src["seed"])
        ref = RBIP.derive(RBIP.master(seed), RBIP.parse_path(src.get("path", "")))
        st, obj = observe(lambda: net.keys.bip32_seed(seed).subkey_for_path(src.get("path", "")))
        if kind == "bip32_pub":
            ref = ref.neuter()
            if st == "ok":
                st, obj = observe(obj.public_copy)
        return st, obj, KM(ref.k, ref.K, True, "bip32", ref)
    se, comp = int(src["se"]), bool(src["comp"])
    pub = m.refpub(se)
    if kind == "private":
        st, obj = observe(net.keys.private, se, is_compressed=comp)
        return st, obj, KM(se, pub, comp)
    if kind == "wif":
        st, obj = observe(net.parse.wif, RW.encode(pf["wif"], se, comp))
        return st, obj, KM(se, pub, comp)
    if kind == "sec":
        st, obj = observe(net.keys.public, RS.encode(pub, comp))
        return st, obj, KM(None, pub, comp)
    if kind == "pair":
        st, obj = observe(net.keys.public, pub, is_compressed=comp)
        return st, obj, KM(None, pub, comp)
    if kind == "electrum":
        st, obj = observe(net.keys.electrum_private, master_private_key=se)
        return st, obj, KM(se, pub, False, "electrum")
    if kind == "electrum_pub":
        st, obj = observe(net.keys.electrum_public, master_public_key=RS.encode(pub, False)[1:])
        return st, obj, KM(None, pub, False, "electrum")
    raise ValueError(kind)


def derive_object(net, code, obj, mo, kind, arg, m, pf):
    """one derivation -> (status, new object, model) ; status 'skip' when it does not apply to this object"""
    base, _, entry = kind.partition(":")
    P = net.parse
    KeyClass = m.keyclass(code)
    if base == "public_copy":
        st, r = observe(obj.public_copy)
        return st, r, KM(None, mo.pub, mo.comp, mo.kind, mo.hd.neuter() if mo.hd is not None else None, kind)
    if base in ("subkey", "subkey_for_path", "subkeys"):
        if mo.kind != "key":
            return "skip", None, None
        if base == "subkey":
            st, r = observe(obj.subkey) if arg is None else observe(obj.subkey, "0")
        elif base == "subkey_for_path":
            st, r = observe(obj.subkey_for_path, "0/1" if arg is None else "")
        else:
            st, r = observe(lambda: next(iter(obj.subkeys("" if arg is None else "0-2"))))
        return st, r, mo.clone(kind)
    if base in ("child", "child_pub"):
        if mo.kind == "bip32":
            path = RBIP.parse_path(arg)
            if mo.se is None and any(i >= RBIP.HARD for i in path):
                return "skip", None, None
            ref = RBIP.derive(mo.hd, path)
            if base == "child_pub":
                st, r = observe(obj.subkey_for_path, arg + ".pub")
                ref = ref.neuter()
            elif len(path) == 1:
                st, r = observe(obj.subkey, i=path[0] % RBIP.HARD, is_hardened=path[0] >= RBIP.HARD)
            else:
                st, r = observe(obj.subkey_for_path, arg)
            return st, r, KM(ref.k, ref.K, True, "bip32", ref, kind)
        if mo.kind == "electrum" and base == "child":
            t = [int(v) for v in arg.split("/")]
            n, ch = (t[0], t[1]) if len(t) == 2 else (t[0], 0)
            cse, cpub = RBIP.electrum_child(mo.se, mo.pub, n, ch)
            st, r = observe(obj.subkey, arg) if n % 2 else observe(obj.subkey_for_path, arg)
            return st, r, KM(cse, cpub, False, "electrum", None, kind)
        return "skip", None, None
    c = mo.comp if arg is None else arg
    if base == "wif_text":
        if mo.se is None:
            return "skip", None, None
        text = RW.encode(pf["wif"], mo.se, c)
        fn = {"parse.wif": P.wif, "parse.private_key": P.private_key, "parse.secret": P.secret, "parse": P}[entry]
        st, r = observe(fn, text)
        return st, r, KM(mo.se, mo.pub, c, origin=kind)
    if base == "sec_bytes":
        st, r = observe(net.keys.public if entry == "keys.public" else KeyClass.from_sec, RS.encode(mo.pub, c))
        return st, r, KM(None, mo.pub, c, origin=kind)
    if base == "sec_hex":
        st, r = observe(P.sec if entry == "parse.sec" else P.public_key, RS.encode(mo.pub, c).hex())
        return st, r, KM(None, mo.pub, c, origin=kind)
    if base == "pair":
        # the very object public_pair() returned goes into a new key
        st, pair = observe(obj.public_pair)
        if st != "ok":
            return st, pair, None
        if entry == "keys.public":
            st, r = observe(net.keys.public, pair) if arg is None else observe(net.keys.public, pair, is_compressed=arg)
        else:
            st, r = observe(KeyClass, public_pair=pair) if arg is None else observe(KeyClass, public_pair=pair, is_compressed=arg)
        return st, r, KM(None, mo.pub, True if arg is None else arg, origin=kind)
    if base == "pair_text":
        x, y = mo.pub
        text = ("%d/%d" % (x, y)) if arg is None else ("%d,%s" % (x, "odd" if y & 1 else "even")) if arg else ("%x/%x" % (x, y))
        if arg is False and (("%x" % x).isdigit() or ("%x" % y).isdigit()):
            return "skip", None, None            # a hex spelling that reads as decimal
        st, r = observe(P.public_pair if entry == "parse.public_pair" else P.public_key, text)
        return st, r, KM(None, mo.pub, True, origin=kind)
    if base == "exponent":
        if mo.se is None:
            return "skip", None, None
        if entry == "keys.private":
            st, r = observe(net.keys.private, mo.se) if arg is None else observe(net.keys.private, mo.se, is_compressed=arg)
        elif entry == "Key":
            st, r = observe(KeyClass, secret_exponent=mo.se) if arg is None else observe(KeyClass, secret_exponent=mo.se, is_compressed=arg)
        else:
            arg = None
            text = "%x" % mo.se
            if mo.se % 2 or text.isdigit():
                text = str(mo.se)
            st, r = observe(P.secret_exponent, text)
        return st, r, KM(mo.se, mo.pub, True if arg is None else arg, origin=kind)
    raise ValueError(kind)


def run_history(net, code, src, steps, rec, m, pf):
    """steps: ["q", object index, query, flag] | ["x", object index, side step, flag] | ["d", object index, derivation, arg]"""
    case = {"net": code, "history": {"src": src, "steps": steps}}
    rec.case(("hist", code, repr(sorted(src.items())), repr(steps)))
    rec.ev("key.query_history")
    st, obj, mo = make_source(net, code, src, m, pf)
    if st != "ok" or obj is None:
        rec.violation("key.history.source_refused", case, obj, "key")
        return
    objs = [(obj, mo)]
    for si, step in enumerate(steps):
        op, idx, name, flag = step
        if idx >= len(objs):
            continue                                   # the derivation that would have made it did not apply
        obj, mo = objs[idx]
        where = dict(case, step=si)
        if op == "d":
            st, r, nm = derive_object(net, code, obj, mo, name, flag, m, pf)
            if st == "skip":
                objs.append(objs[idx])                 # keep the indices of later steps meaningful
                continue
            rec.ev("derive:" + name.partition(":")[0])
            if st != "ok" or r is None:
                rec.violation("key.derived.%s.refused" % name, where, r, "key")
                return
            objs.append((r, nm))
        elif op == "x":
            rec.ev("side_step:" + name)
            if name == "repr":
                observe(repr, obj)
            elif name == "as_text":
                observe(obj.as_text)
            elif name == "sec_as_hex":
                observe(obj.sec_as_hex) if flag is None else observe(obj.sec_as_hex, is_compressed=flag)
            elif name == "failing_call":
                # a call that is refused (or answers False) between two queries
                if mo.se is None:
                    st, r = observe(obj.sign, b"\x11" * 32)
                elif mo.kind == "bip32":
                    st, r = observe(obj.subkey, i=-1)
                else:
                    st, r = observe(obj.verify, b"\x11" * 32, b"\x30\x06\x02\x01\x01\x02\x01\x01" if flag else b"junk")
                observe(m.keyclass(code), secret_exponent=0, is_compressed=bool(flag))
                observe(net.parse.wif, "not a wif")
                # ... and three further kinds of refused calls, built from this object's own exponent / point
                d = Disturber(rec, m, start=si * 5 + (0 if flag is None else 1 + int(bool(flag))), per_call=3)
                d(net, code, se=mo.se if mo.se is not None else 1, comp=bool(mo.comp), P=mo.pub, key=obj)
            else:
                st, rows = observe(lambda: list(obj.ku_output()))
                if st == "ok":
                    for row in rows:
                        if row[0] in KU_NAMES:
                            qn, qf = KU_NAMES[row[0]]
                            exp = km_expect(mo, qn, qf, pf)
                            shown = row[1]
                            if isinstance(exp, bytes):
                                exp = exp.hex()
                                shown = shown.lower() if isinstance(shown, str) else shown      # hex text: letter case is free
                            if shown != exp:
                                rec.violation("key.history.ku_output_mismatch", dict(where, row=row[0]), row[1], exp)
                                return
        else:
            rec.ev("derived_query" if mo.origin != "source" else "source_query")
            meth = getattr(obj, name, None)
            if meth is None:
                st, got = "exc", AttributeError(name)
            else:
                st, got = observe(meth) if flag is None else observe(meth, is_compressed=flag)
            if name == "public_pair" and st == "ok" and got is not None:
                got = tuple(got)
            if name in ("is_compressed", "is_private") and st == "ok" and got is not None:
                got = bool(got)
            exp = km_expect(mo, name, flag, pf)
            if exp is None and name in ("wif", "secret_exponent") and _no_secret((st, got)):
                continue
            if st != "ok" or got != exp:
                mech = "key.history.%s_mismatch" % name if mo.origin == "source" else "key.derived.%s.%s_mismatch" % (mo.origin, name)
                rec.violation(mech, where, got, exp)
                return


def derivation_kinds(mo_kind, private):
    kinds = ["public_copy"]
    if mo_kind == "key":
        kinds += ["subkey", "subkey_for_path", "subkeys"]
    else:
        kinds += ["child", "child_pub"] if mo_kind == "bip32" else ["child"]
    kinds += ["pair:keys.public", "pair:Key", "sec_bytes:keys.public", "sec_bytes:Key.from_sec", "sec_hex:parse.sec", "sec_hex:parse.public_key",
              "pair_text:parse.public_pair", "pair_text:parse.public_key"]
    if private:
        kinds += ["wif_text:parse.wif", "wif_text:parse.private_key", "wif_text:parse.secret", "wif_text:parse",
                  "exponent:keys.private", "exponent:Key", "exponent:parse.secret_exponent"]
    return kinds


def _kind_arg(kind, mo_kind, j):
    if kind in ("child", "child_pub"):
        return ["0", "1/2", "3H", "2147483647", "0H/1"][j % 5] if mo_kind == "bip32" else ["0", "1/1", "7/0", "2"][j % 4]
    return FLAGS[j % 3]


def systematic_histories(src_kind, private, parity, light=False):
    """for every derivation: what was asked of the source before (nothing / default / compressed / uncompressed form, through
    hash160, address or fingerprint) x which form is asked of the derived object first; the source is asked again afterwards"""
    out = []
    mo_kind = "bip32" if src_kind.startswith("bip32") else "electrum" if src_kind.startswith("electrum") else "key"
    for ki, kind in enumerate(derivation_kinds(mo_kind, private)):
        full = kind in SHARING_KINDS
        if light and not full and kind not in SELF_KINDS and kind != "wif_text:parse.wif":
            continue
        for pi, pre in enumerate(("none",) + FLAGS):
            if not full and kind not in SELF_KINDS and not light and pi % 2 != (ki + parity) % 2:
                continue                               # re-built objects: two of the four starting states each
            for fi in range(3):
                if (not full or light) and fi != (pi + ki + parity) % 3:
                    continue
                d = 1 if (parity + ki + pi) % 2 else 2
                order = [FLAGS[(fi + d * j) % 3] for j in range(3)]
                steps = []
                if pre != "none":
                    steps.append(["q", 0, MEMO_QUERIES[(pi + ki + parity) % 3], pre])
                steps.append(["d", 0, kind, _kind_arg(kind, mo_kind, pi + fi + parity)])
                for f in order:
                    steps.append(["q", 1, "hash160", f])
                    steps.append(["q", 1, "address", f])
                if kind in ("public_copy", "wif_text:parse.wif") and fi == (pi + ki + parity) % 3:
                    steps.append(["x", 1 if pi % 2 else 0, "ku_output", None])      # every printed row of the copy / of the source, mid-history
                steps += [["q", 1, "fingerprint", order[2]], ["q", 1, "sec", order[0]], ["q", 1, "is_compressed", None], ["q", 1, "public_pair", None],
                          ["q", 1, "wif", order[1]], ["q", 1, "secret_exponent", None]]
                for f in order:
                    steps.append(["q", 0, MEMO_QUERIES[(fi + pi) % 2], f])
                steps += [["q", 0, "wif", order[2]], ["q", 0, "is_compressed", None], ["q", 1, "hash160", order[1]]]
                out.append(steps)
    return out


def random_history(rng, mo_kind, private, n_steps):
    """a random walk: queries, side steps and derivations over a growing pool of objects (later entries may alias earlier ones)"""
    kinds = derivation_kinds(mo_kind, private)
    steps = []
    pool = 1
    for _ in range(n_steps):
        r = rng.random()
        idx = rng.randrange(pool) if rng.random() < 0.6 else pool - 1
        if r < 0.22 and pool < 7:
            kind = rng.choice(kinds[:4]) if rng.random() < 0.5 else rng.choice(kinds)
            steps.append(["d", idx, kind, _kind_arg(kind, mo_kind, rng.randrange(30))])
            pool += 1
        elif r < 0.32:
            steps.append(["x", idx, rng.choice(SIDE_STEPS), rng.choice(FLAGS)])
        elif r < 0.42:
            steps.append(["q", idx, rng.choice(PLAIN_QUERIES), None])
        else:
            steps.append(["q", idx, rng.choice(FLAG_QUERIES if rng.random() < 0.5 else MEMO_QUERIES), rng.choice(FLAGS)])
    return steps


def run_histories(spec, rec, m):
    rng = shard_rng(spec["seed"], PROPERTY, spec["tier"], spec["shard"])
    codes = [c for i, c in enumerate(sorted(m.nets)) if i % spec["parts"] == spec["part"]]
    if spec.get("max_nets"):
        rng.shuffle(codes)
        codes = sorted(codes[:spec["max_nets"]])
    bounds = boundary_exponents()
    light = bool(spec.get("light"))
    sampled = False
    for ci, code in enumerate(codes):
        net = m.nets[code]
        pf = net_prefixes(net, code, rec)
        if pf is None:
            continue
        # systematic: private keys built directly and parsed from WIF (both flags), public keys from SEC and from a pair,
        # a BIP32 node and an Electrum key
        plan_ = []
        for j in range(spec["sys_keys"]):
            se = bounds[(ci * 3 + j + spec["seed"]) % len(bounds)] if j % 2 == 0 else rng.randrange(1, N)
            for comp in (True, False):
                plan_.append({"kind": "private" if (j + comp) % 2 else "wif", "se": se, "comp": comp})
        se = rng.randrange(1, N)
        if not light:
            plan_ += [{"kind": "sec", "se": se, "comp": bool(ci % 2)}, {"kind": "pair", "se": se, "comp": not ci % 2}]
            seed = bytes(rng.randrange(256) for _ in range(16))
            hier = [{"kind": "bip32", "seed": seed, "path": ["", "0H", "1/2"][ci % 3]}, {"kind": "bip32_pub", "seed": seed, "path": ["5", "", "0H/7"][ci % 3]},
                    {"kind": "electrum", "se": rng.randrange(1, N), "comp": False}, {"kind": "electrum_pub", "se": rng.randrange(1, N), "comp": False}]
            plan_ += hier if spec["tier"] != "quick" else hier[(ci + spec["seed"]) % 2::2]
        for si, src in enumerate(plan_):
            private = src["kind"] in ("private", "wif", "bip32", "electrum")
            lite = light or src["kind"] in ("sec", "pair", "bip32", "bip32_pub", "electrum", "electrum_pub")
            for steps in systematic_histories(src["kind"], private, ci + si + spec["seed"], light=lite):
                run_history(net, code, src, steps, rec, m, pf)
                if not sampled and steps[0][0] == "q":
                    rec.sample({"op": "query history over a derived key", "net": code, "source": src, "steps": steps})
                    sampled = True
        for w in range(spec["walks"]):
            sk = ["private", "wif", "private", "sec", "bip32", "electrum", "pair", "bip32_pub", "electrum_pub"][(w + ci) % (3 if light else 9)]
            if sk.startswith("bip32"):
                src = {"kind": sk, "seed": bytes(rng.randrange(256) for _ in range(rng.choice([16, 32, 64]))), "path": rng.choice(["", "0", "1H", "0/0"])}
            else:
                src = {"kind": sk, "se": rng.choice(bounds) if rng.random() < 0.3 else rng.randrange(1, N), "comp": rng.random() < 0.5}
            mo_kind = "bip32" if sk.startswith("bip32") else "electrum" if sk.startswith("electrum") else "key"
            run_history(net, code, src, random_history(rng, mo_kind, sk in ("private", "wif", "bip32", "electrum"), spec["walk_len"]), rec, m, pf)
        rec.ev("networks_usable")


# ---------------------------------------------------------------------------------------------
# constructed WIF texts: right checksum, every structural deviation of the payload; accepted iff it is the WIF of the key returned

WIF_ACCEPT_MECH = {"checksum": "wif.accepts_bad_checksum", "prefix": "wif.accepts_foreign_prefix", "length": "wif.accepts_bad_length",
                   "marker": "wif.accepts_bad_marker", "range": "wif.parse_accepts_out_of_range_exponent"}
WIF_ENTRIES = ("parse.wif", "parse.private_key", "parse.secret", "parse")
MARKERS = (0x00, 0x02, 0x03, 0x04, 0x10, 0x11, 0x7f, 0x80, 0x81, 0xfe, 0xff)


def _reads_as_number(text):
    for base in (10, 16):
        try:
            int(text, base)
            return True
        except ValueError:
            pass
    return False


def judge_wif_text(net, code, pw, text, rec, m, entries=WIF_ENTRIES, shared=False, payload=None, warm=None):
    why, se, comp = RW.classify(pw, text) if payload is None else RW.classify_payload(pw, payload)
    rec.case(("wif", code, text))
    rec.ev("wif_class:" + why)
    arg = text
    if shared:
        # one parseable_str (pycoin's caching str subclass) handed to every entry point in turn
        parseable_str = getattr(net, "parseable_str_type", None)
        if parseable_str is None:
            from pycoin.networks.parseable_str import parseable_str
        arg = parseable_str(text)
        rec.ev("wif_text_object_reused")
        if warm is not None and warm in m.nets:
            # ... and to another network's parser first
            rec.ev("wif_text_object_reused_across_networks")
            observe(m.nets[warm].parse.wif, arg)
            observe(m.nets[warm].parse.secret, arg)
    P = net.parse
    fns = {"parse.wif": P.wif, "parse.private_key": P.private_key, "parse.secret": P.secret, "parse": P}
    for name in entries:
        if name != "parse.wif" and _reads_as_number(text):
            continue
        rec.ev(name)
        st, k = observe(fns[name], arg)
        is_key = st == "ok" and k is not None and (name == "parse.wif" or (hasattr(k, "secret_exponent") and hasattr(k, "wif")))
        case = {"net": code, "wif_text": text, "entry": name, "shared_text_object": shared, "first_given_to": warm if shared else None}
        if is_key:
            rec.ev("wif_text_accepted")
            if why != "ok":
                rec.violation(WIF_ACCEPT_MECH[why], case, [observe(k.secret_exponent)[1], observe(k.is_compressed)[1], observe(k.wif)[1]], "refused (%s)" % why)
                continue
            got = [observe(k.secret_exponent)[1], observe(k.is_compressed)[1]]
            got[1] = bool(got[1]) if got[1] is not None and not isinstance(got[1], Exception) else got[1]
            back = observe(k.wif)[1]
            if got != [se, comp]:
                rec.violation("wif.decode_mismatch", case, got, [se, comp])
            elif back != text:
                rec.violation("wif.reencode_differs", case, back, text)
            elif (se in m._pub or len(m._pub) < 60) and (tuple(k.public_pair()) != m.refpub(se) or observe(k.sec)[1] != RS.encode(m.refpub(se), comp)):
                rec.violation("wif.roundtrip_changes_public_pair", case, observe(k.sec)[1], RS.encode(m.refpub(se), comp))
        elif st == "ok" and k is not None:
            rec.ev("wif_text_read_as_something_else")          # parse.secret / parse() found another reading; not a key
        else:
            rec.ev("wif_text_refused")
            if why == "ok":
                rec.violation("wif.rejects_valid", case, k, [se, comp])


def wif_exponents(rng, pw, extra):
    b = [1, 2, N - 1, N, N + 1, 0, (1 << 256) - 1, 1 << 255, 1 << 248, (1 << 248) - 1, 0x0100, 0x0101, int("01" * 32, 16), N - 2,
         int.from_bytes(pw[:1] * 32, "big"), int.from_bytes(pw + bytes(32 - len(pw)), "big") + 1, (N >> 8) << 8 | 1]
    return b + [rng.randrange(1, N) for _ in range(extra)]


def wif_payloads(pw, foreign, e, rng, sweep, brief=False):
    """structural variants around one 32-byte exponent field"""
    b = (e % (1 << 256)).to_bytes(32, "big")
    if brief:
        bodies = [b, b + b"\x01", b[1:], b[1:] + b"\x01", b"\x01" + b, b + b"\x01\x01", b + b"\x01\x00", b + b"\x00\x01", b + b"\x01\x01\x01"]
        bodies += [b + bytes([mk]) for mk in (0x00, 0x02, 0x80, 0xff, rng.randrange(3, 256))]
        return [pw + x for x in bodies] + [pw[:-1] + b + b"\x01", pw + pw + b, (foreign[0] if foreign else b"") + b + b"\x01"]
    bodies = [b, b + b"\x01"]                                                     # the two well-formed layouts (valid iff e in range)
    bodies += [b[1:], b[:-1], b[2:], b""]                                          # too short
    bodies += [b[1:] + b"\x01", b[:-1] + b"\x01", b"\x01"]                          # marker present, exponent field too short
    bodies += [b + bytes([mk]) for mk in (range(256) if sweep else MARKERS) if mk != 1]   # 33 bytes, last one is not the marker
    bodies += [b"\x01" + b, b"\x00" + b]                                           # marker / padding in front
    bodies += [b + b"\x01\x01", b + b"\x01\x00", b + b"\x00\x01", b"\x00" + b + b"\x01", b + b"\x01" + bytes([rng.randrange(256)])]   # 34
    bodies += [b + b"\x01\x01\x01", b + bytes(rng.randrange(256) for _ in range(3)), b + b"\x01" + b[:3], b + b + b"\x01"]          # 35 and more
    out = [pw + x for x in bodies]
    for body in (b, b + b"\x01"):
        out += [pw[:-1] + body, pw + pw + body, bytes([pw[0] ^ 1]) + pw[1:] + body, b"\x00" + pw + body, pw[:-1] + bytes([(pw[-1] + 1) & 0xff]) + body]
        out += [f + body for f in foreign]
    return out


def run_wif(spec, rec, m):
    rng = shard_rng(spec["seed"], PROPERTY, spec["tier"], spec["shard"])
    all_codes = sorted(m.nets)
    codes = [c for i, c in enumerate(all_codes) if i % spec["parts"] == spec["part"]]
    prefixes = {}
    for code in all_codes:
        raw = RB.decode_check(observe(m.nets[code].keys.private(1).wif)[1] or "")
        if raw is not None and len(raw) > 33:
            prefixes[code] = raw[:-33]
    distinct = sorted(set(prefixes.values()))
    by_prefix = {}
    for c_ in all_codes:
        if c_ in prefixes:
            by_prefix.setdefault(prefixes[c_], c_)
    sampled = False
    for ci, code in enumerate(codes):
        net = m.nets[code]
        pw = prefixes.get(code)
        if pw is None:
            rec.violation("wif.not_wif_format", {"net": code, "se": 1, "compressed": True}, observe(net.keys.private(1).wif)[1], "Base58Check text")
            continue
        others = [p for p in distinct if p != pw]
        foreign = [others[(ci + j * 5 + spec["seed"]) % len(others)] for j in range(3)] if others else []
        count = 0
        exps = wif_exponents(rng, pw, spec["rand_exponents"])
        # every value of the 33rd byte on every network: behind the exponent 1 or behind a random exponent (both on the thorough tier)
        sweeps = (0, len(exps) - 1) if spec["tier"] != "quick" else (0,) if (ci + spec["seed"]) % 2 else (len(exps) - 1,)
        for ei, e in enumerate(exps):
            if spec["tier"] == "quick" and ei >= 6 and ei not in sweeps and (ei + ci + spec["seed"]) % 2:
                continue
            for payload in wif_payloads(pw, foreign, e, rng, sweep=ei in sweeps, brief=spec["tier"] == "quick" and ei >= 6 and ei not in sweeps):
                text = RB.encode_check(payload)
                count += 1
                if ei in sweeps and spec["tier"] == "quick":
                    entries = ("parse.wif", WIF_ENTRIES[1 + count % 3]) if count % 4 == 0 else WIF_ENTRIES[:1]
                elif ei >= 6 and spec["tier"] == "quick":
                    entries = ("parse.wif", WIF_ENTRIES[1 + count % 3])
                else:
                    entries = WIF_ENTRIES if len(payload) - len(pw) in (32, 33, 34) and count % 3 == 0 else WIF_ENTRIES[:3]
                warm = None
                if count % 4 == 0 and foreign:
                    # the network the text belongs to when it carries a foreign prefix, else one of the foreign networks in turn
                    warm = by_prefix[next((f for f in foreign if payload.startswith(f)), foreign[(count // 4) % len(foreign)])]
                judge_wif_text(net, code, pw, text, rec, m, entries, shared=count % 2 == 0, payload=payload, warm=warm)
                if not sampled and payload[-1:] == b"\x02":
                    rec.sample({"op": "parse.wif", "net": code, "text": text, "payload": payload, "reference": "refused: 33-byte body not ending in 01"})
                    sampled = True
        # random bodies of length 30..36 behind the right prefix; well-formed texts with a damaged checksum
        for _ in range(spec["rand_texts"]):
            L = rng.choice([30, 31, 32, 32, 33, 33, 33, 34, 35, 36])
            body = bytearray(rng.randrange(256) for _ in range(L))
            if L >= 33 and rng.random() < 0.5:
                body[32] = 1
            if rng.random() < 0.3:
                body[0] = 0
            judge_wif_text(net, code, pw, RB.encode_check(pw + bytes(body)), rec, m, WIF_ENTRIES[:3], shared=rng.random() < 0.5, payload=pw + bytes(body))
        for _ in range(max(2, spec["rand_texts"] // 8)):
            good = RW.encode(pw, rng.randrange(1, N), rng.random() < 0.5)
            pos = rng.randrange(len(good))
            alphabet = "123456789ABCDEFGHJKLMNPQRSTUVWXYZabcdefghijkmnopqrstuvwxyz"
            bad = good[:pos] + alphabet[(alphabet.index(good[pos]) + rng.randrange(1, 58)) % 58] + good[pos + 1:]
            judge_wif_text(net, code, pw, bad, rec, m, WIF_ENTRIES[:3])
        rec.ev("networks_usable")


PAIR_ENTRIES = ("keys.public(pair)", "keys.public(pair, uncompressed)", "Key(public_pair=)")
# the same two coordinates in different spellings: plain tuple, tuple subclasses, pycoin Point objects bound to the key's own
# curve / to another curve over the same field (b chosen so that the pair lies on it; a = 0 and a = 3) / to NIST P-256, a list
PAIR_FORMS = ("tuple", "tuple_subclass", "namedtuple", "point_own", "point_same_field_b", "point_same_field_a3", "point_r1", "list")
INFINITY_FORMS = ("tuple", "infinity_own", "infinity_same_field", "infinity_r1")


class _PairT(tuple):
    pass


def _namedpair():
    import collections
    global _NP
    try:
        return _NP
    except NameError:
        _NP = collections.namedtuple("PublicPair", "x y")
        return _NP


def _wrap_pair(pr, form, net):
    """-> the object handed to pycoin, or None when the pair cannot be spelled that way (also when pycoin's Point constructor will not
    build it: the plain tuple spelling of the same pair is what gets judged then)"""
    try:
        return _wrap_pair_(pr, form, net)
    except Exception:
        return None


def _wrap_pair_(pr, form, net):
    from pycoin.ecdsa.Curve import Curve
    from pycoin.ecdsa.secp256r1 import secp256r1_generator
    if pr == (None, None):
        if form == "tuple":
            return (None, None)
        if form == "infinity_own":
            return net.generator.infinity()
        if form == "infinity_same_field":
            return Curve(P_, 0, 11).infinity()
        if form == "infinity_r1":
            return secp256r1_generator.infinity()
        return None
    x, y = pr
    if form == "tuple":
        return (x, y)
    if form == "tuple_subclass":
        return _PairT((x, y))
    if form == "namedtuple":
        return _namedpair()(x, y)
    if form == "list":
        return [x, y]
    if form == "point_own":
        return net.generator.Point(x, y) if C.on_curve(pr) else None
    if form == "point_same_field_b":
        return Curve(P_, 0, (y * y - x * x * x) % P_).Point(x, y)
    if form == "point_same_field_a3":
        return Curve(P_, 3, (y * y - x * x * x - 3 * x) % P_).Point(x, y)
    if form == "point_r1":
        return secp256r1_generator.Point(x, y) if REC.SECP256R1.on_curve(pr) else None
    raise ValueError(form)


def judge_pair(net, code, pr, form, entry, rec, m):
    """a public pair in one spelling through one constructor: on secp256k1 -> that key; otherwise InvalidPublicPairError"""
    KeyClass = m.keyclass(code)
    if form == "list" and entry != "Key(public_pair=)":
        return                                   # keys.public() reads a non-tuple as SEC bytes
    obj = _wrap_pair(pr, form, net)
    if obj is None:
        return
    case = {"net": code, "pair": list(pr), "entry": entry, "form": form}
    comp = entry != "keys.public(pair, uncompressed)"
    if entry == "keys.public(pair)":
        fn = lambda q: net.keys.public(q)
    elif entry == "keys.public(pair, uncompressed)":
        fn = lambda q: net.keys.public(q, is_compressed=False)
    else:
        fn = lambda q: KeyClass(public_pair=q)
    rec.case(("pair", code, pr, entry, form))
    rec.ev("pair_form:" + form)
    if pr == (None, None):
        rec.ev("infinity_pair")
        st, r = observe(fn, obj)
        if st == "ok":
            rec.violation("pair.accepts_infinity", case, "accepted as a key", "refused")
        return
    on = C.on_curve(pr)
    rec.ev("off_curve_pair" if not on else "Key(public_pair)")
    if form.startswith("point_") and form != "point_own":
        rec.ev("foreign_curve_point" + (":off_curve" if not on else ":on_curve"))
    st, r = observe(fn, obj)
    if form == "list":
        rec.ev("mutable_arg:pair_list")
        st2, r2 = observe(fn, obj)
        if obj != [x_ for x_ in pr]:
            rec.violation("args.pair_list_modified", case, obj, list(pr))
        elif st != st2 or (st == "ok" and [tuple(r.public_pair()), observe(r.sec)[1]] != [tuple(r2.public_pair()), observe(r2.sec)[1]]):
            rec.violation("args.pair_second_call_differs", case, [r, r2], "the same answer")
    if on:
        if st != "ok" and form in ("point_same_field_b", "point_same_field_a3"):
            # a Point object bound to another Curve object whose coordinates happen to lie on secp256k1: the statement does not say
            # whether that is a public key of the network; refusing it is tolerated, accepting it must give the right key
            rec.ev("foreign_curve_point:on_curve_refused")
        elif st != "ok" or tuple(r.public_pair()) != pr:
            rec.violation("key.valid_pair_refused", case, r, pr)
        elif observe(r.sec)[1] != RS.encode(pr, comp) or bool(r.is_compressed()) is not comp:
            rec.violation("key.public_pair_roundtrip", case, observe(r.sec)[1], RS.encode(pr, comp))
    elif st == "ok":
        rec.violation("pair.accepts_off_curve", case, "accepted as a key", "InvalidPublicPairError")
    elif form != "list" and (not isinstance(r, m.IPP) or not isinstance(r, net.keys.InvalidPublicPairError)):
        rec.violation("pair.wrong_exception", case, r, "InvalidPublicPairError")


# ---------------------------------------------------------------------------------------------

BAD_SECRET_ENTRIES = ("keys.private", "keys.private(uncompressed)", "Key(secret_exponent=)")
BAD_SECRET_TEXT_ENTRIES = ("parse.secret_exponent", "parse.private_key")
BAD_SECRET_CLASSES = ("zero", "n", "2^256-1", "above_n", "negative", "ge_2^256")


def _bad_secret_class(v):
    return "zero" if v == 0 else "n" if v == N else "2^256-1" if v == (1 << 256) - 1 else "negative" if v < 0 else "above_n" if v < 1 << 256 else "ge_2^256"


def judge_bad_secret(net, code, v, name, rec, m):
    """an exponent outside [1, n-1]: the constructors raise InvalidSecretExponentError; the parsers of the number as text give no key"""
    case = {"net": code, "se": v, "entry": name}
    if name in BAD_SECRET_ENTRIES:
        KeyClass = m.keyclass(code)
        fn = {"keys.private": lambda x: net.keys.private(x), "keys.private(uncompressed)": lambda x: net.keys.private(x, is_compressed=False),
              "Key(secret_exponent=)": lambda x: KeyClass(secret_exponent=x)}[name]
        rec.ev("bad_secret_exponent")
        rec.ev("bad_secret_exponent:" + _bad_secret_class(v))
        rec.case(("badse", code, v, name))
        st, r = observe(fn, v)
        if st == "ok":
            rec.violation("secret.accepts_out_of_range", case, r, "InvalidSecretExponentError")
        elif not isinstance(r, m.ISE) or not isinstance(r, net.keys.InvalidSecretExponentError):
            rec.violation("secret.wrong_exception", case, r, "InvalidSecretExponentError")
        return
    # the same number written out (decimal; hexadecimal when the digits cannot be read as decimal)
    base, _, spelling = name.partition("/")
    fn = net.parse.secret_exponent if base == "parse.secret_exponent" else net.parse.private_key
    text = str(v) if spelling != "hex" else "%x" % v
    if spelling == "hex" and (text.lstrip("-").isdigit() or v < 0):
        return
    rec.ev("bad_secret_exponent_text")
    rec.case(("badse_text", code, text, base))
    st, r = observe(fn, text)
    if st == "ok" and r is not None and hasattr(r, "secret_exponent"):
        rec.violation("secret.text_accepts_out_of_range", case, [observe(r.secret_exponent)[1], observe(r.wif)[1]], "no key (None or an exception)")


def _SPECIAL_POINTS(_memo=[]):
    if not _memo:
        x = 1
        while C.lift_x(x) is None:
            x += 1
        _memo.append(C.lift_x(x)[0])
        x = P_ - 1
        while C.lift_x(x) is None:
            x -= 1
        _memo.append(C.lift_x(x)[1])
    return _memo


def run_secret(spec, rec, m):
    rng = shard_rng(spec["seed"], PROPERTY, spec["tier"], spec["shard"])
    fixed_bad = [0, N, N + 1, (1 << 256) - 1, -1, -N, 1 << 256, 2 * N, N + (1 << 128), 1 << 300, -(1 << 255), -(N - 1), (1 << 256) + 1]
    G = C.G
    for code in sorted(m.nets):
        net = m.nets[code]
        bad = list(fixed_bad)
        for _ in range(spec["n"]):
            mode = rng.random()
            bad.append(rng.randrange(N, 1 << 256) if mode < 0.5 else -rng.randrange(1, 1 << 256) if mode < 0.8 else rng.randrange(1 << 256, 1 << 320))
        for v in bad:
            for name in BAD_SECRET_ENTRIES:
                judge_bad_secret(net, code, v, name, rec, m)
        for vi, v in enumerate(bad):
            for ei, base in enumerate(BAD_SECRET_TEXT_ENTRIES):
                if vi < len(fixed_bad) or (vi + ei) % 2:
                    judge_bad_secret(net, code, v, base + ("/hex" if (vi + ei) % 3 == 0 else "/dec"), rec, m)
        for v in (1, N - 1):
            rec.ev("Key(secret_exponent)")
            st, r = observe(net.keys.private, v)
            if st != "ok" or tuple(r.public_pair()) != m.refpub(v):
                rec.violation("key.valid_exponent_refused", {"net": code, "se": v, "compressed": True}, r, m.refpub(v))
        # WIF text carrying an out-of-range exponent must not parse to a key
        good = RB.decode_check(net.keys.private(1).wif())
        pw = good[:-33]
        for v in (0, N, N + 1, (1 << 256) - 1):
            for tail in (b"", b"\x01"):
                text = RB.encode_check(pw + v.to_bytes(32, "big") + tail)
                rec.ev("parse.wif(out_of_range)")
                rec.case(("badwif", code, text))
                st, r = observe(net.parse.wif, text)
                if st == "ok" and r is not None:
                    rec.violation("wif.parse_accepts_out_of_range_exponent", {"net": code, "wif_text": text}, r, "None or exception")
        # off-curve pairs
        pairs = [(G[0], G[1] + 1), (G[0] + 1, G[1]), (0, 0), (1, 1), (G[1], G[0]), (G[0], P_ - G[1] - 1), (0, 7), (P_ - 1, P_ - 1), (G[0], 0), (0, G[1])]
        for _ in range(spec["n"]):
            x = rng.randrange(P_)
            pts = C.lift_x(x)
            if pts and rng.random() < 0.7:
                y = pts[0][1] ^ (1 << rng.randrange(256))
                pairs.append((x, y % P_))
            else:
                pairs.append((x, rng.randrange(P_)))
        # pairs that lie on ANOTHER curve (NIST P-256, which pycoin ships): off secp256k1, but constructible as Point objects
        R1 = REC.SECP256R1
        r1_pairs = [R1.mul(e, R1.G) for e in [1, 2, 3, R1.n - 1, R1.n - 2, (R1.n + 1) // 2]
                    + [rng.randrange(1, R1.n) for _ in range(max(2, spec["n"] // 8))]]
        # genuine points: every spelling must be accepted
        good = [C.G, C.mul(2, C.G), C.neg(C.G)]
        # special coordinates: y = 1 and y = p - 1, the smallest x, x just below p, both coordinates short
        for pt in (RS.point_with_y(1), _SPECIAL_POINTS()[0], _SPECIAL_POINTS()[1], C.mul(55959, C.G)):
            if pt is not None:
                good += [pt, C.neg(pt)]
                rec.ev("special_point_pair")
        n_special = len(good) - 3
        while len(good) < 3 + n_special + max(3, spec["n"] // 8):
            t = C.lift_x(rng.randrange(P_))
            if t:
                good.append(t[rng.randrange(2)])
        for pi, pr in enumerate(pairs + r1_pairs + good):
            forms = ["tuple"]
            extra = [f for f in PAIR_FORMS[1:] if _wrap_pair(pr, f, net) is not None]
            if pr in r1_pairs or pr in good or pi < 10:
                forms += extra                                  # every constructible spelling
            else:
                forms += [extra[(pi + j) % len(extra)] for j in range(2)]
            for form in forms:
                for entry in PAIR_ENTRIES:
                    judge_pair(net, code, pr, form, entry, rec, m)
        for form in INFINITY_FORMS:
            for entry in PAIR_ENTRIES:
                judge_pair(net, code, (None, None), form, entry, rec, m)
        rec.ev("networks_usable")
    rec.sample({"op": "Key(secret_exponent=n)", "expected": "InvalidSecretExponentError", "networks": len(m.nets)})


# ---------------------------------------------------------------------------------------------

ACCEPT_MECH = {"length": "sec.accepts_bad_length", "prefix": "sec.accepts_bad_prefix", "x_ge_p": "sec.accepts_coordinate_ge_p",
               "y_ge_p": "sec.accepts_coordinate_ge_p", "no_point": "sec.accepts_x_without_point", "off_curve": "sec.accepts_off_curve"}


def judge_sec(blob, code, net, rec, m, cls="", all_entries=False):
    why, Pt, comp = RS.classify(blob)
    rec.case(("sec", blob), nontrivial=len(blob) > 0)
    rec.ev("sec_class:" + why)
    KeyClass = m.keyclass(code)
    if why == "prefix" and blob[0] in (0, 1, 5, 6, 7):
        rec.ev("sec_wrong_prefix:%02x" % blob[0])
        if blob[0] in (6, 7) and len(blob) == 65 and RS.classify(b"\x04" + blob[1:])[0] == "ok":
            rec.ev("sec_hybrid_of_real_point")
    _SEC_LENGTHS.add(len(blob))
    # the text-level decoders (hex spelling of the blob): a key comes back only for the unique encoding of a point
    text = blob.hex()
    entries = [("Key.from_sec", KeyClass.from_sec, blob), ("keys.public(sec)", net.keys.public, blob), ("parse.sec", net.parse.sec, text)]
    if all_entries or (sum(blob) + len(blob)) % (8 if not m.pure else 64) == 0:
        # the dispatcher costs a point multiplication per call (it builds the key of exponent 1 to find the curve): a blob-determined share
        entries.append(("parse.public_key", net.parse.public_key, text))
    if why == "ok":
        # refused relatives of this very point (x + p alias, hybrid, truncated, not bytes ...) right in front of its decoding
        dk = (sum(blob[-4:]) + len(blob)) % len(SEC_REFUSED_KINDS)
        for j in range(2):
            refused_call(SEC_REFUSED_KINDS[(dk + j) % len(SEC_REFUSED_KINDS)], dk + j, net, code, rec, m, comp=comp, P=Pt)
    if all_entries or (sum(blob) + 3 * len(blob)) % 8 == 0:
        judge_mutable_sec(net, code, blob, rec, m)
    for name, fn, arg in entries:
        rec.ev(name)
        st, k = observe(fn, arg)
        case = {"net": code, "blob": blob, "entry": name}
        pre = "sec."
        if arg is text:
            pre = "sec.text_"                            # its own mechanism keys: a text parser can differ from the byte decoders
            if st == "ok" and k is None:
                st, k = "exc", None                      # the parsers answer None for what they do not read
            rec.ev("sec_text_accepted" if st == "ok" else "sec_text_refused")
        if st == "ok":
            if why != "ok":
                rec.violation(pre + ACCEPT_MECH[why][4:], case, [tuple(k.public_pair()), k.is_compressed()], "rejected (%s)" % why)
            else:
                pp, ic, re_ = tuple(k.public_pair()), k.is_compressed(), observe(k.sec)[1]
                if pp != Pt or bool(ic) is not comp:
                    rec.violation(pre + "decode_mismatch", case, [pp, ic], [Pt, comp])
                elif re_ != blob:
                    rec.violation(pre + "reencode_differs", case, re_, blob)
        elif why == "ok":
            rec.violation(pre + "rejects_valid", case, k, [Pt, comp])
    rec.ev("sec_to_public_pair")
    st, pp = observe(m.sec_to_public_pair, blob, net.generator)
    case = {"net": code, "blob": blob, "entry": "sec_to_public_pair"}
    if st == "ok":
        if why in ("length", "prefix", "x_ge_p", "y_ge_p", "no_point"):
            rec.violation(ACCEPT_MECH[why], case, pp, "rejected (%s)" % why)
        elif why == "ok" and tuple(pp) != Pt:
            rec.violation("sec.decode_mismatch", case, pp, Pt)
        elif why == "off_curve":
            rec.ev("sec_to_public_pair.offcurve_passthrough")
    elif why == "ok":
        rec.violation("sec.rejects_valid", case, pp, Pt)


def _b32(v):
    return v.to_bytes(32, "big")


def sec_bodies(rng):
    """valid points used as bodies: G, smallest x, x just below p, a point with tiny y, random."""
    pts = [C.G]
    x = 1
    while C.lift_x(x) is None:
        x += 1
    pts.append(C.lift_x(x)[0])
    x = P_ - 1
    while C.lift_x(x) is None:
        x -= 1
    pts.append(C.lift_x(x)[1])
    y = 1
    while RS.point_with_y(y) is None:
        y += 1
    pts.append(RS.point_with_y(y))
    while len(pts) < 6:
        t = C.lift_x(rng.randrange(P_))
        if t:
            pts.append(t[rng.randrange(2)])
    return pts


def run_sec(spec, rec, m):
    rng = shard_rng(spec["seed"], PROPERTY, spec["tier"], spec["shard"])
    codes = sorted(m.nets)
    idx = spec["idx"]
    _SEC_LENGTHS.clear()
    # one network per shard for the sweeps, rotating with the seed; random blobs go round all networks
    code0 = "BTC" if idx == 0 else codes[(idx * 7 + spec["seed"]) % len(codes)]
    net0 = m.nets[code0]
    done = 0
    bodies = sec_bodies(rng)
    pure = bool(spec.get("env"))
    # (a) every prefix x every length over valid bodies
    for bi, Pt in enumerate(bodies if not pure else bodies[:1]):
        if not pure and bi % 4 != idx % 4 and spec["tier"] == "quick" and bi > 0:
            continue
        for pre in range(256):
            if pure and pre > 8 and pre % 37:
                continue
            for L in LENGTHS:
                filler = bytes(rng.randrange(256) for _ in range(2))
                blob = (bytes([pre]) + _b32(Pt[0]) + _b32(Pt[1]) + filler)[:L]
                judge_sec(blob, code0, net0, rec, m)
                done += 1
    # (b) coordinates >= p with a real point behind them
    lim = (1 << 256) - P_
    small_x = [x for x in range(0, 60) if C.lift_x(x)] + [lim - 1 - d for d in range(0, 40) if C.lift_x(lim - 1 - d)][:3]
    for x0 in small_x:
        ev, od = C.lift_x(x0)
        X = _b32(x0 + P_)
        for blob in (b"\x02" + X, b"\x03" + X, b"\x04" + X + _b32(ev[1]), b"\x04" + X + _b32(od[1]), b"\x06" + X + _b32(ev[1]),
                     b"\x02" + _b32(x0), b"\x04" + _b32(x0) + _b32(od[1])):
            judge_sec(blob, code0, net0, rec, m)
            done += 1
    for y0 in range(0, 400 if not pure else 40):
        Pt = RS.point_with_y(y0)
        if Pt is None:
            continue
        for blob in (b"\x04" + _b32(Pt[0]) + _b32(y0 + P_), b"\x04" + _b32(Pt[0]) + _b32(y0), b"\x04" + _b32(Pt[0]) + _b32(P_ - y0),
                     bytes([2 + (y0 & 1)]) + _b32(Pt[0]), b"\x07" + _b32(Pt[0]) + _b32(y0 + P_)):
            judge_sec(blob, code0, net0, rec, m)
            done += 1
    for x in (P_, P_ + 5, (1 << 256) - 1, P_ - 1, 0, 5):
        for blob in (b"\x02" + _b32(x), b"\x03" + _b32(x), b"\x04" + _b32(x) + _b32(1), b"\x04" + _b32(1) + _b32(x)):
            judge_sec(blob, code0, net0, rec, m)
            done += 1
    if idx == 0:
        X = _b32(1 + P_)
        rec.sample({"op": "Key.from_sec", "blob": b"\x02" + X, "reference": "rejected: x >= p (alias of x = 1)"})
    # (c) random and mutated
    n = spec["n"]
    i = 0
    while done < n:
        i += 1
        code = codes[i % len(codes)]
        net = m.nets[code]
        mode = i % 10
        if mode in (0, 1):          # valid encodings of random points
            t = None
            while t is None:
                t = C.lift_x(rng.randrange(P_) if rng.random() < 0.8 else rng.randrange(1 << rng.choice([8, 32, 200])))
            Pt = t[rng.randrange(2)]
            blob = RS.encode(Pt, mode == 0)
        elif mode == 2:             # random 33 bytes, prefix 02/03: about half have a point
            blob = bytes([rng.choice([2, 3])]) + _b32(rng.randrange(1 << 256) if rng.random() < 0.9 else rng.randrange(P_, 1 << 256))
        elif mode == 3:             # uncompressed with a wrong y / hybrid with either parity
            t = None
            while t is None:
                t = C.lift_x(rng.randrange(P_))
            Pt = t[rng.randrange(2)]
            kind = rng.randrange(6)
            if kind == 0:
                blob = b"\x04" + _b32(Pt[0]) + _b32(Pt[1] ^ (1 << rng.randrange(256)))
            elif kind == 1:
                blob = b"\x04" + _b32(Pt[0] ^ (1 << rng.randrange(256))) + _b32(Pt[1])
            elif kind == 2:
                blob = bytes([6 + (Pt[1] & 1)]) + _b32(Pt[0]) + _b32(Pt[1])
            elif kind == 3:
                blob = bytes([7 - (Pt[1] & 1)]) + _b32(Pt[0]) + _b32(Pt[1])
            elif kind == 4:
                blob = b"\x04" + _b32(Pt[1]) + _b32(Pt[0])
            else:
                blob = bytes([rng.choice([2, 3])]) + _b32(Pt[0]) + _b32(Pt[1])
        elif mode in (4, 5):        # mutated valid encoding
            t = None
            while t is None:
                t = C.lift_x(rng.randrange(P_))
            b = bytearray(RS.encode(t[rng.randrange(2)], rng.random() < 0.5))
            kind = rng.randrange(5)
            if kind == 0:
                b[rng.randrange(len(b))] ^= 1 << rng.randrange(8)
            elif kind == 1:
                b = b[:rng.randrange(len(b))]
            elif kind == 2:
                b += bytes(rng.randrange(256) for _ in range(rng.randrange(1, 4)))
            elif kind == 3:
                b[0] = rng.choice([0, 1, 5, 6, 7, 8, 0x82, 0x83, 0x84, 0x12, 0xff])
            else:
                b = bytes([b[0]]) + b"\0" + b[1:-1]
            blob = bytes(b)
        else:                       # arbitrary strings of length 0..70
            L = rng.randrange(0, 71) if rng.random() < 0.6 else rng.choice([32, 33, 34, 64, 65, 66])
            blob = bytes(rng.randrange(256) for _ in range(L))
            if blob and rng.random() < 0.6:
                blob = bytes([rng.choice([2, 3, 4, 6, 7, 0, 1, 5])]) + blob[1:]
        judge_sec(blob, code, net, rec, m)
        done += 1
    rec.ev("networks_usable", len(codes))
    if all(L in _SEC_LENGTHS for L in range(71)):
        rec.ev("sec_blob_every_length_0_70")


# ---------------------------------------------------------------------------------------------

def rs_boundaries():
    b = {0, 1, 2, 0x7f, 0x80, 0x81, 0xff, 0x100, 0x7fff, 0x8000, 0xffff, 0x10000, N, N - 1, N + 1, N // 2, N // 2 + 1, P_, P_ - 1,
         (1 << 256) - 1, (1 << 255), (1 << 255) - 1, (1 << 255) + 1, (1 << 248), (1 << 248) - 1, (1 << 247), (1 << 247) - 1}
    for k in (8, 16, 24, 64, 120, 128, 200, 240):
        b.update({(1 << k) - 1, 1 << k, (1 << (k - 1)), (1 << (k - 1)) - 1})
    return sorted(b)


def check_der_pair(r, s, rec, m, rng):
    d = m.der
    case = {"r": r, "s": s}
    rec.case(("der_rs", r, s))
    exp = RD.encode(r, s)
    rec.ev("sigencode_der")
    st, e = observe(d.sigencode_der, r, s)
    if st != "ok" or e != exp:
        rec.violation("der.encode_mismatch", case, e, exp)
        if st != "ok":
            return
    # refused calls (kinds picked by the pair, so that a replay repeats them) between the judged ones
    k0 = (r + 3 * s) % len(DER_REFUSED_KINDS)
    dk = [DER_REFUSED_KINDS[(k0 + j) % len(DER_REFUSED_KINDS)] for j in range(3)]
    refused_call(dk[0], k0, None, None, rec, m, r=r, s=s)
    rec.ev("sigdecode_der(strict)")
    st, back = observe(d.sigdecode_der, e, use_broken_open_ssl_mechanism=False)
    if st != "ok" or tuple(back) != (r, s):
        rec.violation("der.strict_roundtrip_mismatch", case, back, [r, s])
    refused_call(dk[1], k0 + 1, None, None, rec, m, r=r, s=s)
    rec.ev("sigdecode_der(default)")
    st, back = observe(d.sigdecode_der, e)
    if st != "ok" or tuple(back) != (r, s):
        rec.violation("der.default_roundtrip_mismatch", case, back, [r, s])
    refused_call(dk[2], k0 + 2, None, None, rec, m, r=r, s=s)
    rec.ev("sigencode_der")
    st, e2 = observe(d.sigencode_der, r, s)
    if st != "ok" or e2 != exp:
        rec.violation("der.encode_mismatch", case, e2, exp)
    # the encoding handed over in a caller-owned bytearray: left as it was, the same answer both times
    ba = bytearray(exp)
    rec.ev("mutable_arg:der_bytearray")
    a1 = observe(d.sigdecode_der, ba, use_broken_open_ssl_mechanism=False)
    a2 = observe(d.sigdecode_der, ba, use_broken_open_ssl_mechanism=False)
    if bytes(ba) != exp:
        rec.violation("args.der_bytearray_modified", case, bytes(ba), exp)
    elif a1[0] != a2[0] or (a1[0] == "ok" and tuple(a1[1]) != tuple(a2[1])):
        rec.violation("args.der_second_call_differs", case, [a1[1], a2[1]], [r, s])
    elif a1[0] == "ok" and tuple(a1[1]) != (r, s):
        rec.violation("der.strict_roundtrip_mismatch", dict(case, argument="bytearray"), a1[1], [r, s])
    elif a1[0] != "ok":
        rec.ev("mutable_arg_refused")                  # bytes-only would be a legitimate API
    # trailing bytes after the sequence, and inside it after s
    junk = bytes(rng.randrange(256) for _ in range(rng.choice([1, 1, 2, 5])))
    for t in (exp + b"\x00", exp + junk):
        judge_der_blob(t, rec, m, tag="der_trailing:after_sequence")
    if exp[1] + len(junk) < 0x80:
        judge_der_blob(exp[:1] + bytes([exp[1] + len(junk)]) + exp[2:] + junk, rec, m, tag="der_trailing:inside_sequence_after_s")
    return exp


def judge_der_blob(blob, rec, m, tag=None):
    """strict decoder on an arbitrary blob."""
    rec.case(("der_blob", blob), nontrivial=len(blob) > 0)
    if tag:
        rec.ev(tag)
    _DER_LENGTHS.add(len(blob))
    rec.ev("sigdecode_der(strict)")
    st, got = observe(m.der.sigdecode_der, blob, use_broken_open_ssl_mechanism=False)
    why, val = RD.decode_notrail(blob)
    case = {"der_blob": blob}
    if st == "ok":
        rec.ev("der_blob_accepted")
        if why == "trailing":
            rec.violation("der.strict_accepts_trailing", case, got, "rejected")
        elif why == "malformed":
            rec.violation("der.strict_accepts_malformed", case, got, "rejected")
        elif tuple(got) != val:
            rec.violation("der.strict_value_mismatch", case, got, val)
    else:
        rec.ev("der_blob_rejected:" + why)
        sv = RD.decode_strict(blob)
        if sv is not None and sv[0] >= 0 and sv[1] >= 0:
            rec.violation("der.strict_rejects_valid", case, got, sv)


def run_der(spec, rec, m):
    rng = shard_rng(spec["seed"], PROPERTY, spec["tier"], spec["shard"])
    B = rs_boundaries()
    n = spec["n"]
    done = 0
    idx = spec["idx"]
    _DER_LENGTHS.clear()
    pool = []
    for i, r in enumerate(B):
        for j, s in enumerate(B):
            if (i + j) % 4 != idx % 4 and spec["tier"] == "quick" and rng.random() < 0.5:
                continue
            e = check_der_pair(r, s, rec, m, rng)
            done += 1
            if e and (i * j) % 17 == 0:
                pool.append(e)
    rec.sample({"op": "sigdecode_der(sigencode_der(r, s))", "r": (1 << 256) - 1, "s": 0, "der": RD.encode((1 << 256) - 1, 0)})
    while done < n // 2:
        bits = rng.choice([1, 7, 8, 9, 64, 127, 128, 129, 248, 249, 255, 256, 256, 256, 256])
        r = rng.getrandbits(bits)
        bits = rng.choice([1, 8, 64, 128, 255, 256, 256, 256, 256])
        s = rng.getrandbits(bits)
        e = check_der_pair(r, s, rec, m, rng)
        if e and done % 7 == 0:
            pool.append(e)
        done += 1
    # candidate blobs
    while done < n:
        mode = done % 8
        if mode < 3:                 # mutate a valid encoding
            b = bytearray(rng.choice(pool))
            kind = rng.randrange(8)
            if kind == 0:
                b[rng.randrange(len(b))] ^= 1 << rng.randrange(8)
            elif kind == 1:
                b = b[:rng.randrange(len(b))]
            elif kind == 2:
                p = rng.randrange(len(b) + 1)
                b[p:p] = bytes([rng.randrange(256)])
            elif kind == 3:
                b[1] = (b[1] + rng.choice([1, 2, -1, 0x80])) & 0xff
            elif kind == 4:          # sequence length in long form (valid BER, not DER)
                b = bytearray(b[:1] + bytes([0x81, b[1]]) + b[2:])
            elif kind == 5:          # integer padded with a redundant 00
                b = bytearray(b[:1] + bytes([b[1] + 1, 2, b[3] + 1, 0]) + b[4:]) if b[1] < 0x7f else b
            elif kind == 6:
                b[rng.randrange(len(b))] = rng.choice([0, 2, 0x30, 0x80, 0x81, 0xff])
            else:
                b = b + b
            blob = bytes(b)
        elif mode < 5:               # structure-aware: random tags / lengths
            def ri():
                L = rng.choice([0, 1, 1, 2, 32, 33, rng.randrange(0, 40)])
                body = bytes(rng.randrange(256) for _ in range(L))
                if rng.random() < 0.3 and body:
                    body = bytes([rng.choice([0, 0x80, 0xff, 0x7f])]) + body[1:]
                ln = bytes([L]) if rng.random() < 0.85 else rng.choice([bytes([0x81, L]), bytes([0x82, 0, L]), bytes([(L + 1) & 0x7f]), b"\x80"])
                return bytes([2 if rng.random() < 0.9 else rng.randrange(256)]) + ln + body
            body = ri() + ri() + (ri() if rng.random() < 0.1 else b"")
            L = len(body) + rng.choice([0, 0, 0, 0, 1, -1, 5])
            ln = bytes([L & 0x7f]) if L < 0x80 and rng.random() < 0.85 else rng.choice([bytes([0x81, L & 0xff]), bytes([0x82, 0, L & 0xff]), b"\x80"])
            blob = bytes([0x30 if rng.random() < 0.92 else rng.randrange(256)]) + ln + body + (b"" if rng.random() < 0.8 else bytes([rng.randrange(256)]))
        else:                        # arbitrary strings of length 0..70
            L = rng.randrange(0, 71)
            blob = bytes(rng.randrange(256) for _ in range(L))
            if L >= 2 and rng.random() < 0.7:
                blob = b"\x30" + bytes([L - 2 if rng.random() < 0.7 else rng.randrange(256)]) + blob[2:]
        judge_der_blob(blob[:300], rec, m)
        done += 1
    if all(L in _DER_LENGTHS for L in range(71)):
        rec.ev("der_blob_every_length_0_70")


# ---------------------------------------------------------------------------------------------
# the N-th operation: ONE process, ONE generator object, ONE key object — more uses than a 16-bit counter holds

LONGRUN_ENTRIES = ("keys.private", "parse.wif", "Key(secret_exponent=)", "parse.secret_exponent")
LONGRUN_QUERIES = tuple((n, f) for n in FLAG_QUERIES for f in FLAGS) + tuple((n, None) for n in PLAIN_QUERIES)


def _is_sum(P1, P2, Q):
    """Q == P1 + P2 for two points with different x: the chord law with the slope cross-multiplied (no inversion)"""
    (x1, y1), (x2, y2) = P1, P2
    try:
        x3, y3 = Q
    except (TypeError, ValueError):
        return False
    if not (isinstance(x3, int) and isinstance(y3, int) and 0 <= x3 < P_ and 0 <= y3 < P_):
        return False
    dx, dy = x2 - x1, y2 - y1
    return ((x3 + x1 + x2) * dx * dx - dy * dy) % P_ == 0 and ((y3 + y1) * dx - dy * (x1 - x3)) % P_ == 0


def run_longrun(spec, rec, m, stop_at=None):
    """Every key construction of the run is judged (none is made that is not): exponent e_i = e_(i-1) + d_j with d_j from a small table,
    so that the public point is the running sum P_i = P_(i-1) + d_j*G. The point pycoin answers is tested against the addition law
    (and taken over when it holds); every 512th is also recomputed as e_i*G from scratch."""
    rng = shard_rng(spec["seed"], PROPERTY, spec["tier"], spec["shard"])
    n_ops = int(spec["ops"])
    # the networks that share the most common generator object, with the prefixes read off their first key
    by_gen = {}
    for code in sorted(m.nets):
        by_gen.setdefault(id(m.nets[code].generator), []).append(code)
    codes = max(by_gen.values(), key=len)
    pfs = {}
    for code in codes:
        pf = net_prefixes(m.nets[code], code, rec)
        if pf is not None:
            pfs[code] = pf
    codes = [c for c in codes if c in pfs]
    if not codes:
        rec.ev("inconclusive:longrun_no_network")
        return
    deltas = [1, 2, N - 1, N - 2, 1 << 128, (1 << 255) + 1] + [rng.randrange(1, N) for _ in range(10)]
    dpts = [C.mul(d, C.G) for d in deltas]
    se = rng.randrange(1, N)
    P = C.mul(se, C.G)
    # the one key object (and its public twin) asked one thing per step for the whole run
    code1 = codes[rng.randrange(len(codes))]
    se1, comp1 = rng.randrange(1, N), rng.random() < 0.5
    P1 = C.mul(se1, C.G)
    one = {}
    for label, make, mo in (("private", lambda: m.nets[code1].keys.private(se1, is_compressed=comp1), KM(se1, P1, comp1)),
                            ("public", lambda: m.nets[code1].keys.public(RS.encode(P1, comp1)), KM(None, P1, comp1))):
        st, obj = observe(make)
        if st != "ok" or tuple(obj.public_pair()) != P1:
            rec.violation("key.valid_exponent_refused" if label == "private" else "sec.rejects_valid", {"net": code1, "se": se1, "compressed": comp1}, obj, P1)
            return
        one[label] = (obj, {q: km_expect(mo, q[0], q[1], pfs[code1]) for q in LONGRUN_QUERIES})
    where = {"seed": spec["seed"], "tier": spec["tier"], "shard": spec["shard"], "ops": n_ops}
    every_step = spec["tier"] != "quick"
    judged = 0
    for i in range(n_ops):
        if stop_at is not None and i > stop_at:
            break
        j = rng.randrange(len(deltas))
        if (se + deltas[j]) % N == 0:
            j = (j + 1) % len(deltas)
        prev = P
        se = (se + deltas[j]) % N
        code = codes[i % len(codes)]
        net, pf = m.nets[code], pfs[code]
        entry = LONGRUN_ENTRIES[rng.randrange(4)]
        comp = True if entry == "parse.secret_exponent" else rng.random() < 0.5
        case = {"net": code, "se": se, "compressed": comp, "entry": entry, "longrun": dict(where, at=i)}
        wif = RW.encode(pf["wif"], se, comp) if entry == "parse.wif" else None
        if entry == "keys.private":
            st, k = observe(net.keys.private, se, is_compressed=comp)
        elif entry == "parse.wif":
            st, k = observe(net.parse.wif, wif)
        elif entry == "Key(secret_exponent=)":
            st, k = observe(m.keyclass(code), secret_exponent=se, is_compressed=comp)
        else:
            st, k = observe(net.parse.secret_exponent, str(se))
        judged += 1
        rec.ev("longrun:key_constructions")
        rec.case(("longrun", code, se, comp, entry))
        if st != "ok" or k is None:
            rec.violation("longrun.valid_key_refused", case, k, "key")
            P = C.add(prev, dpts[j])
            continue
        st, pair = observe(lambda: tuple(k.public_pair()))
        full = i % 512 == 0 or prev[0] == dpts[j][0]
        if full or st != "ok" or not _is_sum(prev, dpts[j], pair):
            P = C.add(prev, dpts[j])
            if i % 512 == 0 and P != C.mul(se, C.G):
                rec.ev("inconclusive:longrun_running_sum_off")
                rec.note("long run: the running sum of points left e*G at step %d" % i)
                return
            if st == "ok" and pair == P and not full:
                rec.ev("inconclusive:longrun_addition_law_test")
                rec.note("long run: the cross-multiplied addition law refused a point the affine addition gives (step %d)" % i)
                return
            if st != "ok" or pair != P:
                rec.violation("longrun.public_pair_mismatch", case, pair, P)
                continue
        else:
            P = pair
        sec = RS.encode(P, comp)
        h = RS.hash160(sec)
        names = ["secret_exponent", "compression_flag", "sec", "hash160"]
        obs = [observe(k.secret_exponent)[1], observe(k.is_compressed)[1], observe(k.sec)[1], observe(k.hash160)[1]]
        obs[1] = bool(obs[1]) if obs[1] in (0, 1) else obs[1]
        exp = [se, comp, sec, h]
        if every_step or i % 8 == 0 or entry == "parse.wif":
            # pycoin's Base58 conversion costs a sixth of a point multiplication: the texts of a share of the keys on the quick tier
            rec.ev("longrun:texts_judged")
            names += ["wif", "address"]
            obs += [observe(k.wif)[1], observe(k.address)[1]] if every_step or i % 8 == 0 else [observe(k.wif)[1], None]
            exp += [wif or RW.encode(pf["wif"], se, comp), RB.encode_check(pf["addr"] + h) if obs[-1] is not None or every_step or i % 8 == 0 else None]
        if obs != exp:
            rec.violation("longrun.%s_mismatch" % [n for n, a, b in zip(names, obs, exp) if a != b][0], case, obs, exp)
        if every_step:
            # the compressed encoding read back (decompression: one square root on the shared generator per step; thorough tier)
            rec.ev("longrun:sec_decodes")
            blob = sec if comp else RS.encode(P, True)
            st, pk = observe(net.keys.public if i & 1 else m.keyclass(code).from_sec, blob)
            if st != "ok":
                rec.violation("longrun.sec_rejects_valid", dict(case, blob=blob), pk, P)
            elif tuple(pk.public_pair()) != P or observe(pk.sec)[1] != blob or not pk.is_compressed():
                rec.violation("longrun.sec_decode_mismatch", dict(case, blob=blob), [tuple(pk.public_pair()), observe(pk.sec)[1]], [P, blob])
        # one question to the long-lived objects
        q = LONGRUN_QUERIES[rng.randrange(len(LONGRUN_QUERIES))]
        if q[0] in ("address", "wif") and not every_step and rng.randrange(8):
            q = ("fingerprint", q[1])                  # (Base58 again)
        # sec, hash160 and public_pair on every step (each of them more often than 2^16 times on the one object), one more at random
        f = FLAGS[i % 3]
        for label, q in [(lb, q_) for lb in ("private", "public") for q_ in (("sec", f), ("hash160", f), ("public_pair", None), q)]:
            obj, want = one[label]
            rec.ev("longrun:one_object_queries")
            meth = getattr(obj, q[0])
            st, got = observe(meth) if q[1] is None else observe(meth, is_compressed=q[1])
            if q[0] == "public_pair" and st == "ok" and got is not None:
                got = tuple(got)
            if q[0] in ("is_compressed", "is_private") and st == "ok" and got in (0, 1):
                got = bool(got)
            if want[q] is None and q[0] in ("wif", "secret_exponent") and _no_secret((st, got)):
                continue
            if st != "ok" or got != want[q]:
                rec.violation("longrun.one_object.%s_mismatch" % q[0], {"net": code1, "se": se1, "compressed": comp1, "object": label, "query": list(q),
                                                                       "longrun": dict(where, at=i)}, got, want[q])
    if judged > 1 << 16:
        rec.ev("longrun:more_than_2^16_on_one_generator")
        rec.ev("longrun:more_than_2^16_on_one_object")
    if judged > 1 << 17:
        rec.ev("longrun:more_than_2^17_on_one_generator")
    rec.ev("networks_usable", len(codes))
    rec.sample({"op": "long run in one process", "key_constructions_judged": judged, "networks": len(codes), "entries": list(LONGRUN_ENTRIES),
                "last": {"net": code, "secret_exponent": se, "public_pair": P}})


# ---------------------------------------------------------------------------------------------
# ANSWERED neighbour calls: documented operations that succeed on the (shared) generator and involve the very x coordinate / point /
# key that is decoded next — public-key recovery with r = x (with and without a y parity), points_for_x(x) (the caller keeps and
# edits what it was given when that is a mutable container), signing with the key, verifying with its pair, "x/even" pair texts,
# compact-signature recovery, decoding the sibling encoding (the other parity of the same x). None of them is judged (C10 says nothing
# about them); the SEC decodes AFTER them are, exactly as a first decode in a fresh process would be.

NEIGHBOUR_FAMILIES = {
    "recover": ("parity_same", "parity_other", "no_parity", "both_parities", "parity_same_twice", "real_signature"),
    "points_for_x": ("kept_and_edited", "indexed"),
    "verify": ("generator_true", "generator_false", "key_true", "negated_pair"),
    "sign": ("key", "generator", "with_recid"),
    "pair_text": ("even", "odd", "both"),
    "msg_recover": ("recid_parity_same", "recid_parity_other"),
    "sibling_decode": ("keys.public", "sec_to_public_pair"),
    "point_arithmetic": ("negate_add_double",),
}
NEIGHBOUR_VARIANTS = tuple((f_, v_) for f_ in sorted(NEIGHBOUR_FAMILIES) for v_ in NEIGHBOUR_FAMILIES[f_])
NEIGHBOUR_DECODERS = ("keys.public(sec)", "Key.from_sec", "sec_to_public_pair", "parse.sec")


def neighbour_calls(net, via, code, se, P, family, variant, rec, m):
    """the answered calls of one (family, variant) around the point P = se*G; `via` is the network whose generator / parser is used
    (all networks of one curve are expected to share the generator, the statement does not say so: both are driven)"""
    from vmon.refs import ecdsa as RE, msgsign as RM
    g = via.generator
    x, y = P
    par = y & 1
    val = (se * 0x9E3779B97F4A7C15 + 0x1111) % N or 1
    s_any = (se ^ 0x2222) % N or 1
    calls = []
    if family == "recover":
        if variant == "real_signature":
            # k = the key's own exponent makes r = x: a genuine signature by the key 7*se (any key would do)
            d = se * 7 % N or 1
            r_, s_, _R = RE.raw_sign(C, d, val, se)
            if r_ and s_:
                calls = [lambda: g.possible_public_pairs_for_signature(val, (r_, s_), y_parity=par),
                         lambda: g.possible_public_pairs_for_signature(val, (r_, s_))]
        else:
            ps = {"parity_same": (par,), "parity_other": (1 - par,), "no_parity": (None,), "both_parities": (0, 1),
                  "parity_same_twice": (par, par)}[variant]
            calls = [(lambda p_=p_: g.possible_public_pairs_for_signature(val, (x, s_any), y_parity=p_)) if p_ is not None
                     else (lambda: g.possible_public_pairs_for_signature(val, (x, s_any))) for p_ in ps]
    elif family == "points_for_x":
        if variant == "kept_and_edited":
            calls = [lambda: _scribble(g.points_for_x(x), rec)]
        else:
            calls = [lambda: (g.points_for_x(x)[1], g.points_for_x(x)[0], g.points_for_x(x)[par])]
    elif family == "verify":
        d = se
        r_, s_, _R = RE.raw_sign(C, d, val, (se * 3 + 5) % N or 1)
        h = val.to_bytes(32, "big")
        if variant == "generator_true":
            calls = [lambda: g.verify(P, val, (r_, s_))]
        elif variant == "generator_false":
            calls = [lambda: g.verify(P, val + 1, (r_, s_)), lambda: g.verify(P, val, (x % N or 1, s_any))]
        elif variant == "key_true":
            calls = [lambda: via.keys.public(P).verify(h, RD.encode(r_, s_))]
        else:
            calls = [lambda: g.verify(C.neg(P), val, (r_, s_)), lambda: via.keys.public(C.neg(P), is_compressed=False).verify(h, RD.encode(r_, s_))]
    elif family == "sign":
        h = val.to_bytes(32, "big")
        if variant == "key":
            calls = [lambda: via.keys.private(se).sign(h)]
        elif variant == "generator":
            calls = [lambda: g.sign(se, val)]
        else:
            calls = [lambda: g.sign_with_recid(se, val)]
    elif family == "pair_text":
        words = {"even": ("even",), "odd": ("odd",), "both": ("odd", "even")}[variant]
        calls = [(lambda w_=w_: via.parse.public_pair("%d/%s" % (x, w_))) for w_ in words]
    elif family == "msg_recover":
        if x < N:
            recid = par if variant == "recid_parity_same" else 1 - par
            text = RM.compact(27 + 4 + recid, x, s_any)
            calls = [lambda: via.msg.pair_for_message_hash(text, val)]
    elif family == "sibling_decode":
        sib = RS.encode(C.neg(P), True)
        if variant == "keys.public":
            calls = [lambda: via.keys.public(sib).sec()]
        else:
            calls = [lambda: m.sec_to_public_pair(sib, g)]
    elif family == "point_arithmetic":
        def arithmetic():
            a, b = g.points_for_x(x)
            return (-a, a + a, a + b, 2 * b, b + g)
        calls = [arithmetic]
    else:
        raise ValueError(family)
    for fn in calls:
        st, v = observe(fn)
        rec.ev("neighbour_call:%s" % family)
        rec.ev("neighbour_call_answered:%s" % family if st == "ok" and v is not None else "neighbour_call_not_answered:%s" % family)       # not judged
    return len(calls)


def judge_after_neighbours(net, code, se, family, variant, warm, via_code, rec, m, pf):
    """SEC decodes of the point se*G, of its negative (the sibling encoding of the same x) and of the uncompressed form, after the
    answered calls of (family, variant); warm = the same blobs were decoded once before those calls as well (also judged)"""
    P = m.refpub(se)
    via = m.nets.get(via_code, net)
    case = {"net": code, "neighbour": {"se": se, "family": family, "variant": variant, "warm": bool(warm), "via": via_code}}
    rec.case(("neighbour", code, se, family, variant, bool(warm), via_code))
    KeyClass = m.keyclass(code)
    mech_family = family + ("_edited" if variant == "kept_and_edited" else "")
    blobs = [(RS.encode(P, True), P, True), (RS.encode(C.neg(P), True), C.neg(P), True), (RS.encode(P, False), P, False)]
    decoders = {"keys.public(sec)": net.keys.public, "Key.from_sec": KeyClass.from_sec,
                "sec_to_public_pair": lambda b: m.sec_to_public_pair(b, net.generator), "parse.sec": lambda b: net.parse.sec(b.hex())}

    def decode_all(stage):
        ok = True
        for bi, (blob, Q, flag) in enumerate(blobs):
            for di, name in enumerate(NEIGHBOUR_DECODERS):
                if bi == 2 and di != (se + bi) % len(NEIGHBOUR_DECODERS):
                    continue                         # the uncompressed form needs no decompression: one decoder in turn
                st, got = observe(decoders[name], blob)
                rec.ev("sec_decode_after_neighbour" if stage == "after" else "sec_decode_before_neighbour")
                c_ = dict(case, blob=blob, entry=name, stage=stage)
                prefix = "sec.after_answered_call.%s." % mech_family if stage == "after" else "sec.before_answered_call."
                if st != "ok" or got is None:
                    rec.violation(prefix + "rejects_valid", c_, got, "key" if name != "sec_to_public_pair" else Q)
                    ok = False
                    continue
                if name == "sec_to_public_pair":
                    if tuple(got) != Q:
                        rec.violation(prefix + "changes_public_pair", c_, tuple(got), Q)
                        ok = False
                    continue
                h = RS.hash160(blob)
                obs = [tuple(got.public_pair()), bool(got.is_compressed()), observe(got.sec)[1], observe(got.hash160)[1], observe(got.address)[1]]
                exp = [Q, flag, blob, h, RB.encode_check(pf["addr"] + h)]
                if obs != exp:
                    names = ["public_pair", "compression_flag", "sec", "hash160", "address"]
                    rec.violation(prefix + "changes_" + [n for n, a, b in zip(names, obs, exp) if a != b][0], c_, obs, exp)
                    ok = False
        return ok

    if warm and not decode_all("before"):
        return
    n_calls = neighbour_calls(net, via, code, se, P, family, variant, rec, m)
    if not n_calls:
        rec.ev("neighbour_variant_not_applicable")     # x >= n (no such r): nothing was placed, the decode below is a plain one
    else:
        rec.ev("neighbour_history:%s" % family)
        rec.ev("neighbour_history_warm" if warm else "neighbour_history_cold")
        if via_code != code:
            rec.ev("neighbour_history_via_other_network")
    decode_all("after")


def run_neighbours(spec, rec, m):
    rng = shard_rng(spec["seed"], PROPERTY, spec["tier"], spec["shard"])
    codes = sorted(m.nets)
    if spec.get("max_nets"):
        start = spec["seed"] % len(codes)
        codes = [codes[(start + i * 7) % len(codes)] for i in range(spec["max_nets"])]
    pfs = {}
    bounds = boundary_exponents()
    used = set()
    n = 0
    for rnd in range(spec["rounds"]):
        for vi, (family, variant) in enumerate(NEIGHBOUR_VARIANTS):
            for warm in (False, True):
                # every case has an exponent (an x coordinate) no earlier case of this process has touched
                while True:
                    mode = rng.random()
                    se = bounds[(n + spec["seed"]) % len(bounds)] * (2 + n // len(bounds)) % N if mode < 0.15 else rng.randrange(1, N) if mode < 0.8 \
                        else rng.randrange(1, 1 << rng.choice([16, 64, 200])) if mode < 0.9 else N - rng.randrange(1, 1 << 64)
                    if se and se not in used and N - se not in used:
                        break
                used.add(se)
                code = codes[n % len(codes)]
                via_code = code if n % 3 else codes[(n * 5 + 1) % len(codes)]
                n += 1
                net = m.nets[code]
                if code not in pfs:
                    pfs[code] = net_prefixes(net, code, rec)
                if pfs[code] is None:
                    continue
                judge_after_neighbours(net, code, se, family, variant, warm, via_code, rec, m, pfs[code])
                if rnd == 0 and not warm and vi % 6 == 0:
                    rec.sample({"op": "SEC decode after answered neighbour calls", "net": code, "secret_exponent": se, "family": family,
                                "variant": variant, "via": via_code})
    rec.ev("networks_usable", len(codes))


REQUIRED = {
    "neighbour": tuple("neighbour_history:" + f_ for f_ in sorted(NEIGHBOUR_FAMILIES)) + tuple("neighbour_call_answered:" + f_ for f_ in sorted(NEIGHBOUR_FAMILIES))
                 + ("sec_decode_after_neighbour", "sec_decode_before_neighbour", "neighbour_history_warm", "neighbour_history_cold",
                    "neighbour_history_via_other_network", "networks_usable"),
    "roundtrip": tuple("refused_call:" + k_ for k_ in REFUSED_KINDS) + ("mutable_arg:sec_bytearray", "returned_container:immutable", "short_coordinate_key:x", "short_coordinate_key:y",
                                                                                "short_coordinate_key:both") + ("parse.wif", "keys.public(sec)", "Key.from_sec", "sec_to_public_pair", "key.sec", "key.hash160", "key.address", "key.wif",
                  "Key(secret_exponent)", "Key(public_pair)", "key.sec_as_hex", "sec_text_roundtrip", "key.query_history", "networks_usable"),
    "secret": ("mutable_arg:pair_list", "special_point_pair", "bad_secret_exponent", "bad_secret_exponent_text", "parse.wif(out_of_range)", "off_curve_pair", "foreign_curve_point:off_curve",
               "foreign_curve_point:on_curve", "pair_form:point_own", "pair_form:tuple", "infinity_pair", "Key(public_pair)", "networks_usable")
              + tuple("bad_secret_exponent:" + c for c in BAD_SECRET_CLASSES),
    "sec": tuple("refused_call:" + k_ for k_ in SEC_REFUSED_KINDS) + ("mutable_arg:sec_bytearray",) + ("Key.from_sec", "keys.public(sec)", "sec_to_public_pair", "parse.sec", "parse.public_key", "sec_text_accepted", "sec_text_refused",
            "sec_class:ok", "sec_class:length", "sec_class:prefix", "sec_class:x_ge_p", "sec_class:y_ge_p", "sec_class:no_point", "sec_class:off_curve",
            "sec_hybrid_of_real_point") + tuple("sec_wrong_prefix:%02x" % b for b in (0, 1, 5, 6, 7)),
    "history": ("key.query_history", "derived_query", "source_query", "side_step:ku_output")
               + tuple("derive:" + d for d in ("public_copy", "subkey", "subkey_for_path", "subkeys", "pair", "sec_bytes", "sec_hex", "pair_text",
                                               "wif_text", "exponent")),
    "wif": ("parse.wif", "parse.private_key", "parse.secret", "parse", "wif_class:ok", "wif_class:marker", "wif_class:length",
            "wif_class:prefix", "wif_class:range", "wif_class:checksum", "wif_text_accepted", "wif_text_refused", "wif_text_object_reused",
            "wif_text_object_reused_across_networks"),
    "longrun": ("longrun:key_constructions", "longrun:texts_judged", "longrun:one_object_queries", "longrun:more_than_2^16_on_one_generator",
                "longrun:more_than_2^16_on_one_object", "networks_usable"),
    "der": tuple("refused_call:" + k_ for k_ in DER_REFUSED_KINDS) + ("mutable_arg:der_bytearray",) + ("sigencode_der", "sigdecode_der(strict)", "sigdecode_der(default)", "der_blob_rejected:trailing", "der_blob_rejected:malformed",
            "der_blob_accepted", "der_trailing:after_sequence", "der_trailing:inside_sequence_after_s"),
}
# reached by the default-configuration shards only (budget): the whole-run requirement is attached there
REQUIRED_DEFAULT_ONLY = {"roundtrip": ("argument_flavour:int_subclass_exponent_int_flag",), "sec": ("sec_blob_every_length_0_70",), "der": ("der_blob_every_length_0_70",),
                         "history": ("derive:child", "derive:child_pub")}


# the pure-Python history shard runs the 'light' plan: the derivations that can share state with their source
REQUIRED_PURE = {"history": ("key.query_history", "derived_query", "source_query", "side_step:ku_output", "derive:public_copy", "derive:subkey",
                             "derive:subkey_for_path", "derive:subkeys", "derive:pair", "derive:wif_text")}


def active_configuration(m):
    """'openssl' / 'purepython': is the point multiplication of the networks' generator the plain Curve.multiply or an accelerated one
    (judged on the class the generator object really has, whatever the mix-in is called)"""
    from pycoin.ecdsa.Curve import Curve
    g = next(iter(m.nets.values())).generator
    return "purepython" if getattr(type(g), "multiply", None) is Curve.multiply else "openssl"


def run_shard(spec, rec):
    m = M(rec)
    kind = spec["kind"]
    if kind not in REQUIRED:
        raise ValueError(kind)
    planned = "purepython" if (spec.get("env") or {}).get("PYCOIN_NATIVE") == "none" else "openssl"
    active = active_configuration(m)
    # the configuration a shard was planned for must be the one that ran, or that configuration of the quantifier stays unobserved
    rec.require("config_active:%s/%s" % (planned, kind))
    rec.ev("config_active:%s/%s" % (active, kind))
    if active != planned:
        rec.note("shard %s planned for the %s configuration ran with %s arithmetic" % (spec.get("label", kind), planned, active))
    reqs = REQUIRED[kind] + REQUIRED_DEFAULT_ONLY.get(kind, ()) if planned == "openssl" else REQUIRED_PURE.get(kind, REQUIRED[kind])
    rec.require(*reqs)
    if kind == "longrun" and spec["tier"] != "quick":
        rec.require("longrun:more_than_2^17_on_one_generator", "longrun:sec_decodes")
    {"roundtrip": run_roundtrip, "secret": run_secret, "sec": run_sec, "history": run_histories, "wif": run_wif, "der": run_der, "longrun": run_longrun,
     "neighbour": run_neighbours}[kind](spec, rec, m)
    if planned == "purepython":
        # counters are summed over shards: the clauses reached in the second configuration are shown (and required) under its own name
        for r in reqs:
            rec.require("purepython/" + r)
            if rec.counters.get(r) and active == "purepython":
                rec.ev("purepython/" + r, rec.counters[r])


def replay_case(case, rec):
    m = M(rec)
    m.replay = True
    if "neighbour" in case:
        net = m.nets[case["net"]]
        nb = case["neighbour"]
        pf = net_prefixes(net, case["net"], rec)
        if pf is not None:
            judge_after_neighbours(net, case["net"], int(nb["se"]), str(nb["family"]), str(nb["variant"]), bool(nb["warm"]), str(nb["via"]), rec, m, pf)
    elif "longrun" in case:
        # the N-th operation of a process: the whole run up to that step is repeated
        lr = case["longrun"]
        run_longrun({"seed": int(lr["seed"]), "tier": lr["tier"], "shard": int(lr["shard"]), "ops": int(lr["ops"])}, rec, m, stop_at=int(lr["at"]))
    elif "der_blob" in case:
        judge_der_blob(case["der_blob"], rec, m)
    elif "r" in case and "s" in case:
        check_der_pair(int(case["r"]), int(case["s"]), rec, m, shard_rng(0, PROPERTY, "replay", 0))
    elif "blob" in case:
        net = m.nets[case["net"]]
        judge_sec(case["blob"], case["net"], net, rec, m, all_entries=True)
    elif "history" in case:
        net = m.nets[case["net"]]
        pf = net_prefixes(net, case["net"], rec)
        if pf is not None:
            h = case["history"]
            run_history(net, case["net"], dict(h["src"]), [list(s_) for s_ in h["steps"]], rec, m, pf)
    elif "wif_text" in case:
        net = m.nets[case["net"]]
        raw = RB.decode_check(net.keys.private(1).wif())
        entries = [case["entry"]] if case.get("entry") in WIF_ENTRIES else WIF_ENTRIES
        judge_wif_text(net, case["net"], raw[:-33], str(case["wif_text"]), rec, m, entries, shared=bool(case.get("shared_text_object")),
                       warm=case.get("first_given_to"))
    elif "pair" in case:
        net = m.nets[case["net"]]
        pr = tuple(None if v is None else int(v) for v in case["pair"])
        judge_pair(net, case["net"], pr, case.get("form", "tuple"), case.get("entry", "keys.public(pair)"), rec, m)
    elif "entry" in case and "se" in case and "compressed" not in case:
        judge_bad_secret(m.nets[case["net"]], case["net"], int(case["se"]), case["entry"], rec, m)
    elif "se" in case:
        net = m.nets[case["net"]]
        if case.get("disturb_from") is not None:
            m.disturb = Disturber(rec, m, start=int(case["disturb_from"]))
        check_key(net, case["net"], int(case["se"]), bool(case["compressed"]), rec, m, {})
