"""C10 — key and signature encodings (WIF, SEC, DER) are lossless and strict."""
from vmon.probe import shard_rng, observe
from vmon.refs import b58 as RB, der as RD, ec as REC, sec as RS

PROPERTY = "C10"
PRELOAD_NETWORK_ORDERS = [["btc", "xtn", "ltc", "bch", "grs", "doge", "dash", "btg"], ["btg", "grs", "bch", "doge", "ltc", "xtn", "btc"]]
LEVEL = "exploration"
TECHNIQUE = ("differential runtime monitor at the key / codec API boundary vs independent SEC, DER, Base58Check and "
             "curve-arithmetic references; acceptance-subset-of-canonical oracle over enumerated and random blobs")
RULE = ("cases: (network, secret exponent, compression flag) round trips through WIF / SEC / hash160 / address on every "
        "usable registered network in the OpenSSL and the pure-Python configuration; candidate SEC blobs = every prefix "
        "0..255 x lengths {0,1,32,33,34,64,65,66} over several valid bodies, x >= p and y >= p aliases of real points, "
        "hybrid keys, wrong-parity / off-curve / x-without-point bodies, mutated valid encodings, random strings of "
        "length 0..70, each through Key.from_sec, network.keys.public and sec_to_public_pair; out-of-range secret "
        "exponents and off-curve pairs on every network; (r, s) boundary products and random pairs through "
        "sigencode_der / sigdecode_der, candidate DER blobs (trailing bytes after and inside the sequence, mutated and "
        "random strings of length 0..70). Public pairs (off-curve, on NIST P-256, genuine, the point at infinity) are handed "
        "over in every spelling: plain tuple, tuple subclass, namedtuple, pycoin Point bound to the key's own curve, to another "
        "curve over the same field (a = 0 / a = 3, b chosen so the pair lies on it), to secp256r1, and a list, through "
        "keys.public(pair[, is_compressed=False]) and Key(public_pair=). Fresh key objects are queried for sec / hash160 / "
        "address / wif (default, compressed, uncompressed) / public_pair / is_compressed / secret_exponent in a case-determined "
        "shuffled order, every query twice. Distinct by (operation, network, input, spelling); non-trivial unless the blob is empty.")
ASSUMPTIONS = [
    "references vmon/refs/sec.py, der.py, b58.py, ec.py are correct (self-tested on every run: published secp256k1 "
    "encodings and hash160 values, exhaustive blob enumeration on toy curves, X.690 hand vectors, exhaustive small-alphabet DER)",
    "'accepted' is judged where the property observes it: Key.from_sec and network.keys.public (strict mode). "
    "sec_to_public_pair on its own is held to the length / prefix / coordinate-range rules and to correct decompression; an "
    "uncompressed off-curve body it passes through is refused by Key.__init__, which is where the property places that check",
    "'strict DER decoding' = sigdecode_der(..., use_broken_open_ssl_mechanism=False); it is required to refuse bytes after "
    "the sequence and after the second integer, to decode every sigencode_der(r, s) for 0 <= r, s < 2^256, and to agree in value "
    "with a BER-tolerant parse of whatever else it accepts; non-minimal lengths/integers are tolerated (the statement names only "
    "trailing bytes)",
    "WIF = Base58Check(prefix || 32-byte big-endian exponent [|| 01 when compressed]); address = Base58Check(prefix || hash160); "
    "the per-network prefixes are read off the first key and required to be constant, not compared with a table",
    "off-curve pairs are drawn with 0 <= x, y < p (pairs outside the field are outside the quantifier)",
    "an off-curve pair is an off-curve pair in whatever tuple type it arrives (incl. a pycoin Point of another curve): "
    "InvalidPublicPairError is demanded; for a list (not a documented spelling) and for the point at infinity only refusal is demanded",
    "answers of a key object do not depend on which other queries were made on it before",
    "networks GRS, GRSRT, TGRS need the absent groestlcoin_hash module and are reported as absent configurations",
]
EXPLANATION = ("every pycoin call is compared with the reference value; decoders may accept a blob only if the strict "
               "reference accepts it and the accepted key re-encodes to the same bytes; named errors are checked by class")
TIMEOUT = {"quick": 600, "thorough": 3 * 3600}

N = REC.SECP256K1.n
P_ = REC.SECP256K1.p
C = REC.SECP256K1
LENGTHS = [0, 1, 32, 33, 34, 64, 65, 66]


def exhaustive(tier):
    return False


def configurations(tier):
    return [{"name": "PYCOIN_NATIVE unset (OpenSSL libcrypto point multiplication)", "exercised": True},
            {"name": "PYCOIN_NATIVE=none (pure Python arithmetic)", "exercised": True},
            {"name": "libsecp256k1", "exercised": False, "why": "library not installed"},
            {"name": "networks GRS/GRSRT/TGRS", "exercised": False, "why": "groestlcoin_hash module absent"}]


def plan(tier, seed):
    q = tier == "quick"
    shards = []
    for part in range(6):
        shards.append({"kind": "roundtrip", "part": part, "parts": 6, "rand_keys": 16 if q else 120, "label": "roundtrip-openssl-%d" % part})
    for part in range(4 if q else 6):
        shards.append({"kind": "roundtrip", "part": part, "parts": 4 if q else 6, "rand_keys": 1 if q else 12, "bound_keys": 3 if q else 12,
                       "env": {"PYCOIN_NATIVE": "none"}, "label": "roundtrip-purepython-%d" % part})
    shards.append({"kind": "secret", "n": 40 if q else 600})
    shards.append({"kind": "secret", "n": 6 if q else 60, "env": {"PYCOIN_NATIVE": "none"}})
    for i in range(4 if q else 32):
        shards.append({"kind": "sec", "n": 7500 if q else 250000, "idx": i})
    shards.append({"kind": "sec", "n": 1500 if q else 100000, "idx": 99, "env": {"PYCOIN_NATIVE": "none"}})
    for i in range(2 if q else 12):
        shards.append({"kind": "der", "n": 12000 if q else 300000, "idx": i})
    return shards


def selftest(rec):
    return {"ec": REC.selftest(), "sec": RS.selftest(), "der": RD.selftest(), "b58_vectors": RB.selftest()}


# ---------------------------------------------------------------------------------------------

class M:
    """pycoin bindings (imported inside the worker)."""

    def __init__(self, rec):
        from pycoin.networks.registry import network_codes, network_for_netcode
        from pycoin.encoding.sec import sec_to_public_pair
        from pycoin.key.Key import InvalidSecretExponentError, InvalidPublicPairError
        from pycoin.satoshi import der
        self.sec_to_public_pair = sec_to_public_pair
        self.ISE, self.IPP = InvalidSecretExponentError, InvalidPublicPairError
        self.der = der
        self.nets = {}
        self.absent = []
        for code in sorted(network_codes()):
            try:
                net = network_for_netcode(code)
                k = net.keys.private(1)
                k.wif(), k.address()
                self.nets[code] = net
            except ImportError as e:
                self.absent.append(code)
                rec.note("network %s unusable here: %s" % (code, str(e)[:80]))
        self._pub = {}
        self._kc = {}

    def keyclass(self, code):
        if code not in self._kc:
            self._kc[code] = type(self.nets[code].keys.private(1))
        return self._kc[code]

    def refpub(self, se):
        if se not in self._pub:
            self._pub[se] = C.mul(se, C.G)
        return self._pub[se]


def boundary_exponents():
    return [1, 2, 3, N - 1, N - 2, (N - 1) // 2, (N + 1) // 2, 1 << 128, (1 << 255), 0xff, 1 << 248, (1 << 248) - 1,
            P_ - N, 0x0100, N - (1 << 128), 0x80 << 240, int("01" * 32, 16), int("7f" + "ff" * 31, 16)]


def _split_address(text):
    raw = RB.decode_check(text) if isinstance(text, str) else None
    if raw is None or len(raw) < 20:
        return None, None
    return raw[:-20], raw[-20:]


def check_key(net, code, se, comp, rec, m, prefixes):
    """All round trips for one (network, exponent, compression flag)."""
    case = {"net": code, "se": se, "compressed": comp}
    rec.case(("rt", code, se, comp))
    Pref = m.refpub(se)
    rec.ev("Key(secret_exponent)")
    st, k = observe(net.keys.private, se, is_compressed=comp)
    if st != "ok":
        rec.violation("key.valid_exponent_refused", case, k, "key")
        return
    if tuple(k.public_pair()) != Pref:
        rec.violation("key.public_pair_mismatch", case, tuple(k.public_pair()), Pref)
        return
    if k.is_compressed() is not comp or k.secret_exponent() != se:
        rec.violation("key.flag_or_exponent_mismatch", case, [k.is_compressed(), k.secret_exponent()], [comp, se])
    sec_c, sec_u = RS.encode(Pref, True), RS.encode(Pref, False)
    mine = sec_c if comp else sec_u
    other = sec_u if comp else sec_c
    # --- SEC / hash160 / address straight from the private key
    rec.ev("key.sec")
    got = [observe(k.sec)[1], observe(k.sec, is_compressed=True)[1], observe(k.sec, is_compressed=False)[1]]
    if got != [mine, sec_c, sec_u]:
        rec.violation("sec.encode_mismatch", case, got, [mine, sec_c, sec_u])
    rec.ev("key.hash160")
    h_mine, h_other = RS.hash160(mine), RS.hash160(other)
    got = [observe(k.hash160)[1], observe(k.hash160, is_compressed=not comp)[1], observe(k.hash160)[1]]
    if got != [h_mine, h_other, h_mine]:
        rec.violation("hash160.mismatch", case, got, [h_mine, h_other, h_mine])
    rec.ev("key.address")
    st, addr = observe(k.address)
    st2, addr_o = observe(k.address, is_compressed=not comp)
    pa, ha = _split_address(addr) if st == "ok" else (None, None)
    pb, hb = _split_address(addr_o) if st2 == "ok" else (None, None)
    if ha != h_mine or hb != h_other or pa is None or pa != pb:
        rec.violation("address.not_base58check_of_hash160", case, [addr, addr_o], [h_mine, h_other])
    else:
        want = prefixes.setdefault("addr", pa)
        if want != pa:
            rec.violation("address.prefix_varies", case, pa, want)
    # --- WIF both ways
    for wc in (comp, not comp):
        rec.ev("key.wif")
        st, w = observe(k.wif) if wc == comp else observe(k.wif, is_compressed=wc)
        raw = RB.decode_check(w) if st == "ok" and isinstance(w, str) else None
        tail = se.to_bytes(32, "big") + (b"\x01" if wc else b"")
        if raw is None or not raw.endswith(tail):
            rec.violation("wif.not_wif_format", dict(case, wif_compressed=wc), w, tail)
            continue
        pw = raw[:-len(tail)]
        if prefixes.setdefault("wif", pw) != pw:
            rec.violation("wif.prefix_varies", dict(case, wif_compressed=wc), pw, prefixes["wif"])
        rec.ev("parse.wif")
        st, k2 = observe(net.parse.wif, w)
        if st != "ok" or k2 is None:
            rec.violation("wif.roundtrip_refused", dict(case, wif_compressed=wc), k2, "key")
            continue
        exp_sec = sec_c if wc else sec_u
        exp_addr = addr if wc == comp else addr_o
        obs = [k2.secret_exponent(), k2.is_compressed(), tuple(k2.public_pair()), observe(k2.sec)[1], observe(k2.hash160)[1],
               observe(k2.address)[1], observe(k2.wif)[1]]
        exp = [se, wc, Pref, exp_sec, RS.hash160(exp_sec), exp_addr, w]
        if obs != exp:
            names = ["secret_exponent", "compression_flag", "public_pair", "sec", "hash160", "address", "wif"]
            bad = [n for n, a, b in zip(names, obs, exp) if a != b]
            rec.violation("wif.roundtrip_changes_" + bad[0], dict(case, wif_compressed=wc), obs, exp)
    # --- SEC both forms through the public decoders
    KeyClass = type(k)
    for blob, bc in ((sec_c, True), (sec_u, False)):
        exp_addr = addr if bc == comp else addr_o
        for name, fn in (("keys.public(sec)", net.keys.public), ("Key.from_sec", KeyClass.from_sec)):
            rec.ev(name)
            st, pk = observe(fn, blob)
            if st != "ok":
                rec.violation("sec.rejects_valid", dict(case, blob=blob, entry=name), pk, "key")
                continue
            obs = [tuple(pk.public_pair()), pk.is_compressed(), observe(pk.sec)[1], observe(pk.hash160)[1], observe(pk.address)[1],
                   pk.secret_exponent(), observe(pk.wif)[1]]
            exp = [Pref, bc, blob, RS.hash160(blob), exp_addr, None, None]
            if obs != exp:
                names = ["public_pair", "compression_flag", "sec", "hash160", "address", "secret_exponent", "wif"]
                bad = [n for n, a, b in zip(names, obs, exp) if a != b]
                rec.violation("sec.roundtrip_changes_" + bad[0], dict(case, blob=blob, entry=name), obs, exp)
        rec.ev("sec_to_public_pair")
        st, pp = observe(m.sec_to_public_pair, blob, net.generator)
        if st != "ok" or tuple(pp) != Pref:
            rec.violation("sec.rejects_valid" if st != "ok" else "sec.decode_mismatch", dict(case, blob=blob, entry="sec_to_public_pair"), pp, Pref)
    rec.ev("Key(public_pair)")
    st, pk = observe(net.keys.public, Pref, is_compressed=comp)
    if st != "ok" or tuple(pk.public_pair()) != Pref or pk.is_compressed() is not comp or observe(pk.sec)[1] != mine \
            or observe(pk.address)[1] != addr or observe(pk.hash160)[1] != h_mine:
        rec.violation("key.public_pair_roundtrip", case, pk, Pref)
    # the same pair handed over as a Point object of the network's own curve / as a tuple subclass
    entry = "keys.public(pair)" if comp else "keys.public(pair, uncompressed)"
    for form in ("point_own", "tuple_subclass"):
        judge_pair(net, code, Pref, form, entry, rec, m)
    # --- fresh objects queried in a case-determined order, every query twice: answers do not depend on what was asked before
    if pa is not None and "wif" in prefixes and "addr" in prefixes:
        import random
        want = {("public_pair", None): Pref, ("is_compressed", None): comp}
        for flag, blob in ((None, mine), (True, sec_c), (False, sec_u)):
            want[("sec", flag)] = blob
            want[("hash160", flag)] = RS.hash160(blob)
            want[("address", flag)] = RB.encode_check(prefixes["addr"] + RS.hash160(blob))
        priv = dict(want)
        priv[("secret_exponent", None)] = se
        want[("secret_exponent", None)] = None
        for flag, c in ((None, comp), (True, True), (False, False)):
            priv[("wif", flag)] = RB.encode_check(prefixes["wif"] + se.to_bytes(32, "big") + (b"\x01" if c else b""))
            want[("wif", flag)] = None
        order_rng = random.Random(se * 2 + int(comp))
        import os
        objects = [("private", lambda: net.keys.private(se, is_compressed=comp), priv), ("public_from_sec", lambda: net.keys.public(mine), want)]
        if os.environ.get("PYCOIN_NATIVE") == "none":
            objects = objects[1:]                # a further pure-Python point multiplication per case is not worth its 20 ms
        for label, make, exp in objects:
            st, obj = observe(make)
            if st != "ok":
                continue                         # reported above
            queries = sorted(exp, key=lambda q: (q[0], str(q[1]))) * 2
            order_rng.shuffle(queries)
            rec.ev("key.query_history")
            for name, flag in queries:
                meth = getattr(obj, name)
                st, got = observe(meth) if flag is None else observe(meth, is_compressed=flag)
                if name == "public_pair" and st == "ok":
                    got = tuple(got)
                if st != "ok" or got != exp[(name, flag)]:
                    rec.violation("key.history.%s_mismatch" % name, dict(case, object=label, query=[name, flag]),
                                  got, exp[(name, flag)])
                    break
    return {"net": code, "secret_exponent": se, "compressed": comp, "wif": observe(k.wif)[1], "sec": mine, "address": addr}


def run_roundtrip(spec, rec, m):
    rng = shard_rng(spec["seed"], PROPERTY, spec["tier"], spec["shard"])
    codes = [c for i, c in enumerate(sorted(m.nets)) if i % spec["parts"] == spec["part"]]
    bounds = boundary_exponents()
    for ci, code in enumerate(codes):
        net = m.nets[code]
        prefixes = {}
        if spec.get("bound_keys"):
            b = spec["bound_keys"]
            start = (ci * b + spec["part"]) % len(bounds)
            mine = [bounds[(start + j) % len(bounds)] for j in range(b)]
        else:
            mine = list(bounds)
        for _ in range(spec["rand_keys"]):
            mode = rng.random()
            if mode < 0.6:
                mine.append(rng.randrange(1, N))
            elif mode < 0.8:
                mine.append(rng.randrange(1, 1 << rng.choice([8, 16, 64, 120, 200, 248])))
            else:
                mine.append(N - rng.randrange(1, 1 << rng.choice([8, 64, 127])))
        for j, se in enumerate(mine):
            for comp in (True, False):
                s = check_key(net, code, se, comp, rec, m, prefixes)
                if s and j == len(mine) - 1 and comp and ci < 2:
                    rec.sample(dict(s, op="WIF/SEC/address round trip"))
        rec.ev("networks_usable")


PAIR_ENTRIES = ("keys.public(pair)", "keys.public(pair, uncompressed)", "Key(public_pair=)")
# the same two coordinates in different spellings: plain tuple, tuple subclasses, pycoin Point objects bound to the key's own
# curve / to another curve over the same field (b chosen so that the pair lies on it; a = 0 and a = 3) / to NIST P-256, a list
PAIR_FORMS = ("tuple", "tuple_subclass", "namedtuple", "point_own", "point_same_field_b", "point_same_field_a3", "point_r1", "list")
INFINITY_FORMS = ("tuple", "infinity_own", "infinity_same_field", "infinity_r1")


class _PairT(tuple):
    pass


def _namedpair():
    import collections
    global _NP
    try:
        return _NP
    except NameError:
        _NP = collections.namedtuple("PublicPair", "x y")
        return _NP


def _wrap_pair(pr, form, net):
    """-> the object handed to pycoin, or None when the pair cannot be spelled that way"""
    from pycoin.ecdsa.Curve import Curve
    from pycoin.ecdsa.secp256r1 import secp256r1_generator
    if pr == (None, None):
        if form == "tuple":
            return (None, None)
        if form == "infinity_own":
            return net.generator.infinity()
        if form == "infinity_same_field":
            return Curve(P_, 0, 11).infinity()
        if form == "infinity_r1":
            return secp256r1_generator.infinity()
        return None
    x, y = pr
    if form == "tuple":
        return (x, y)
    if form == "tuple_subclass":
        return _PairT((x, y))
    if form == "namedtuple":
        return _namedpair()(x, y)
    if form == "list":
        return [x, y]
    if form == "point_own":
        return net.generator.Point(x, y) if C.on_curve(pr) else None
    if form == "point_same_field_b":
        return Curve(P_, 0, (y * y - x * x * x) % P_).Point(x, y)
    if form == "point_same_field_a3":
        return Curve(P_, 3, (y * y - x * x * x - 3 * x) % P_).Point(x, y)
    if form == "point_r1":
        return secp256r1_generator.Point(x, y) if REC.SECP256R1.on_curve(pr) else None
    raise ValueError(form)


def judge_pair(net, code, pr, form, entry, rec, m):
    """a public pair in one spelling through one constructor: on secp256k1 -> that key; otherwise InvalidPublicPairError"""
    KeyClass = m.keyclass(code)
    if form == "list" and entry != "Key(public_pair=)":
        return                                   # keys.public() reads a non-tuple as SEC bytes
    obj = _wrap_pair(pr, form, net)
    if obj is None:
        return
    case = {"net": code, "pair": list(pr), "entry": entry, "form": form}
    comp = entry != "keys.public(pair, uncompressed)"
    if entry == "keys.public(pair)":
        fn = lambda q: net.keys.public(q)
    elif entry == "keys.public(pair, uncompressed)":
        fn = lambda q: net.keys.public(q, is_compressed=False)
    else:
        fn = lambda q: KeyClass(public_pair=q)
    rec.case(("pair", code, pr, entry, form))
    rec.ev("pair_form:" + form)
    if pr == (None, None):
        rec.ev("infinity_pair")
        st, r = observe(fn, obj)
        if st == "ok":
            rec.violation("pair.accepts_infinity", case, "accepted as a key", "refused")
        return
    on = C.on_curve(pr)
    rec.ev("off_curve_pair" if not on else "Key(public_pair)")
    if form.startswith("point_") and form != "point_own":
        rec.ev("foreign_curve_point" + (":off_curve" if not on else ":on_curve"))
    st, r = observe(fn, obj)
    if on:
        if st != "ok" or tuple(r.public_pair()) != pr:
            rec.violation("key.valid_pair_refused", case, r, pr)
        elif observe(r.sec)[1] != RS.encode(pr, comp) or r.is_compressed() is not comp:
            rec.violation("key.public_pair_roundtrip", case, observe(r.sec)[1], RS.encode(pr, comp))
    elif st == "ok":
        rec.violation("pair.accepts_off_curve", case, "accepted as a key", "InvalidPublicPairError")
    elif form != "list" and (not isinstance(r, m.IPP) or not isinstance(r, net.keys.InvalidPublicPairError)):
        rec.violation("pair.wrong_exception", case, r, "InvalidPublicPairError")


# ---------------------------------------------------------------------------------------------

def run_secret(spec, rec, m):
    rng = shard_rng(spec["seed"], PROPERTY, spec["tier"], spec["shard"])
    fixed_bad = [0, N, N + 1, (1 << 256) - 1, -1, -N, 1 << 256, 2 * N, N + (1 << 128), 1 << 300, -(1 << 255), -(N - 1), (1 << 256) + 1]
    G = C.G
    for code in sorted(m.nets):
        net = m.nets[code]
        KeyClass = type(net.keys.private(1))
        bad = list(fixed_bad)
        for _ in range(spec["n"]):
            mode = rng.random()
            bad.append(rng.randrange(N, 1 << 256) if mode < 0.5 else -rng.randrange(1, 1 << 256) if mode < 0.8 else rng.randrange(1 << 256, 1 << 320))
        for v in bad:
            for name, fn in (("keys.private", lambda x: net.keys.private(x)), ("keys.private(uncompressed)", lambda x: net.keys.private(x, is_compressed=False)),
                             ("Key(secret_exponent=)", lambda x: KeyClass(secret_exponent=x))):
                rec.ev("bad_secret_exponent")
                rec.case(("badse", code, v, name))
                st, r = observe(fn, v)
                case = {"net": code, "se": v, "entry": name}
                if st == "ok":
                    rec.violation("secret.accepts_out_of_range", case, r, "InvalidSecretExponentError")
                elif not isinstance(r, m.ISE) or not isinstance(r, net.keys.InvalidSecretExponentError):
                    rec.violation("secret.wrong_exception", case, r, "InvalidSecretExponentError")
        for v in (1, N - 1):
            rec.ev("Key(secret_exponent)")
            st, r = observe(net.keys.private, v)
            if st != "ok" or tuple(r.public_pair()) != m.refpub(v):
                rec.violation("key.valid_exponent_refused", {"net": code, "se": v, "compressed": True}, r, m.refpub(v))
        # WIF text carrying an out-of-range exponent must not parse to a key
        good = RB.decode_check(net.keys.private(1).wif())
        pw = good[:-33]
        for v in (0, N, N + 1, (1 << 256) - 1):
            for tail in (b"", b"\x01"):
                text = RB.encode_check(pw + v.to_bytes(32, "big") + tail)
                rec.ev("parse.wif(out_of_range)")
                rec.case(("badwif", code, text))
                st, r = observe(net.parse.wif, text)
                if st == "ok" and r is not None:
                    rec.violation("wif.parse_accepts_out_of_range_exponent", {"net": code, "wif_text": text}, r, "None or exception")
        # off-curve pairs
        pairs = [(G[0], G[1] + 1), (G[0] + 1, G[1]), (0, 0), (1, 1), (G[1], G[0]), (G[0], P_ - G[1] - 1), (0, 7), (P_ - 1, P_ - 1), (G[0], 0), (0, G[1])]
        for _ in range(spec["n"]):
            x = rng.randrange(P_)
            pts = C.lift_x(x)
            if pts and rng.random() < 0.7:
                y = pts[0][1] ^ (1 << rng.randrange(256))
                pairs.append((x, y % P_))
            else:
                pairs.append((x, rng.randrange(P_)))
        # pairs that lie on ANOTHER curve (NIST P-256, which pycoin ships): off secp256k1, but constructible as Point objects
        R1 = REC.SECP256R1
        r1_pairs = [R1.mul(e, R1.G) for e in [1, 2, 3, R1.n - 1, R1.n - 2, (R1.n + 1) // 2]
                    + [rng.randrange(1, R1.n) for _ in range(max(2, spec["n"] // 8))]]
        # genuine points: every spelling must be accepted
        good = [C.G, C.mul(2, C.G), C.neg(C.G)]
        while len(good) < 3 + max(3, spec["n"] // 8):
            t = C.lift_x(rng.randrange(P_))
            if t:
                good.append(t[rng.randrange(2)])
        for pi, pr in enumerate(pairs + r1_pairs + good):
            forms = ["tuple"]
            extra = [f for f in PAIR_FORMS[1:] if _wrap_pair(pr, f, net) is not None]
            if pr in r1_pairs or pr in good or pi < 10:
                forms += extra                                  # every constructible spelling
            else:
                forms += [extra[(pi + j) % len(extra)] for j in range(2)]
            for form in forms:
                for entry in PAIR_ENTRIES:
                    judge_pair(net, code, pr, form, entry, rec, m)
        for form in INFINITY_FORMS:
            for entry in PAIR_ENTRIES:
                judge_pair(net, code, (None, None), form, entry, rec, m)
        rec.ev("networks_usable")
    rec.sample({"op": "Key(secret_exponent=n)", "expected": "InvalidSecretExponentError", "networks": len(m.nets)})


# ---------------------------------------------------------------------------------------------

ACCEPT_MECH = {"length": "sec.accepts_bad_length", "prefix": "sec.accepts_bad_prefix", "x_ge_p": "sec.accepts_coordinate_ge_p",
               "y_ge_p": "sec.accepts_coordinate_ge_p", "no_point": "sec.accepts_x_without_point", "off_curve": "sec.accepts_off_curve"}


def judge_sec(blob, code, net, rec, m, cls=""):
    why, Pt, comp = RS.classify(blob)
    rec.case(("sec", blob), nontrivial=len(blob) > 0)
    rec.ev("sec_class:" + why)
    KeyClass = m.keyclass(code)
    for name, fn in (("Key.from_sec", KeyClass.from_sec), ("keys.public(sec)", net.keys.public)):
        rec.ev(name)
        st, k = observe(fn, blob)
        case = {"net": code, "blob": blob, "entry": name}
        if st == "ok":
            if why != "ok":
                rec.violation(ACCEPT_MECH[why], case, [tuple(k.public_pair()), k.is_compressed()], "rejected (%s)" % why)
            else:
                pp, ic, re_ = tuple(k.public_pair()), k.is_compressed(), observe(k.sec)[1]
                if pp != Pt or ic is not comp:
                    rec.violation("sec.decode_mismatch", case, [pp, ic], [Pt, comp])
                elif re_ != blob:
                    rec.violation("sec.reencode_differs", case, re_, blob)
        elif why == "ok":
            rec.violation("sec.rejects_valid", case, k, [Pt, comp])
    rec.ev("sec_to_public_pair")
    st, pp = observe(m.sec_to_public_pair, blob, net.generator)
    case = {"net": code, "blob": blob, "entry": "sec_to_public_pair"}
    if st == "ok":
        if why in ("length", "prefix", "x_ge_p", "y_ge_p", "no_point"):
            rec.violation(ACCEPT_MECH[why], case, pp, "rejected (%s)" % why)
        elif why == "ok" and tuple(pp) != Pt:
            rec.violation("sec.decode_mismatch", case, pp, Pt)
        elif why == "off_curve":
            rec.ev("sec_to_public_pair.offcurve_passthrough")
    elif why == "ok":
        rec.violation("sec.rejects_valid", case, pp, Pt)


def _b32(v):
    return v.to_bytes(32, "big")


def sec_bodies(rng):
    """valid points used as bodies: G, smallest x, x just below p, a point with tiny y, random."""
    pts = [C.G]
    x = 1
    while C.lift_x(x) is None:
        x += 1
    pts.append(C.lift_x(x)[0])
    x = P_ - 1
    while C.lift_x(x) is None:
        x -= 1
    pts.append(C.lift_x(x)[1])
    y = 1
    while RS.point_with_y(y) is None:
        y += 1
    pts.append(RS.point_with_y(y))
    while len(pts) < 6:
        t = C.lift_x(rng.randrange(P_))
        if t:
            pts.append(t[rng.randrange(2)])
    return pts


def run_sec(spec, rec, m):
    rng = shard_rng(spec["seed"], PROPERTY, spec["tier"], spec["shard"])
    codes = sorted(m.nets)
    idx = spec["idx"]
    # one network per shard for the sweeps, rotating with the seed; random blobs go round all networks
    code0 = "BTC" if idx == 0 else codes[(idx * 7 + spec["seed"]) % len(codes)]
    net0 = m.nets[code0]
    done = 0
    bodies = sec_bodies(rng)
    pure = bool(spec.get("env"))
    # (a) every prefix x every length over valid bodies
    for bi, Pt in enumerate(bodies if not pure else bodies[:1]):
        if not pure and bi % 4 != idx % 4 and spec["tier"] == "quick" and bi > 0:
            continue
        for pre in range(256):
            if pure and pre > 8 and pre % 37:
                continue
            for L in LENGTHS:
                filler = bytes(rng.randrange(256) for _ in range(2))
                blob = (bytes([pre]) + _b32(Pt[0]) + _b32(Pt[1]) + filler)[:L]
                judge_sec(blob, code0, net0, rec, m)
                done += 1
    # (b) coordinates >= p with a real point behind them
    lim = (1 << 256) - P_
    small_x = [x for x in range(0, 60) if C.lift_x(x)] + [lim - 1 - d for d in range(0, 40) if C.lift_x(lim - 1 - d)][:3]
    for x0 in small_x:
        ev, od = C.lift_x(x0)
        X = _b32(x0 + P_)
        for blob in (b"\x02" + X, b"\x03" + X, b"\x04" + X + _b32(ev[1]), b"\x04" + X + _b32(od[1]), b"\x06" + X + _b32(ev[1]),
                     b"\x02" + _b32(x0), b"\x04" + _b32(x0) + _b32(od[1])):
            judge_sec(blob, code0, net0, rec, m)
            done += 1
    for y0 in range(0, 400 if not pure else 40):
        Pt = RS.point_with_y(y0)
        if Pt is None:
            continue
        for blob in (b"\x04" + _b32(Pt[0]) + _b32(y0 + P_), b"\x04" + _b32(Pt[0]) + _b32(y0), b"\x04" + _b32(Pt[0]) + _b32(P_ - y0),
                     bytes([2 + (y0 & 1)]) + _b32(Pt[0]), b"\x07" + _b32(Pt[0]) + _b32(y0 + P_)):
            judge_sec(blob, code0, net0, rec, m)
            done += 1
    for x in (P_, P_ + 5, (1 << 256) - 1, P_ - 1, 0, 5):
        for blob in (b"\x02" + _b32(x), b"\x03" + _b32(x), b"\x04" + _b32(x) + _b32(1), b"\x04" + _b32(1) + _b32(x)):
            judge_sec(blob, code0, net0, rec, m)
            done += 1
    if idx == 0:
        X = _b32(1 + P_)
        rec.sample({"op": "Key.from_sec", "blob": b"\x02" + X, "reference": "rejected: x >= p (alias of x = 1)"})
    # (c) random and mutated
    n = spec["n"]
    i = 0
    while done < n:
        i += 1
        code = codes[i % len(codes)]
        net = m.nets[code]
        mode = i % 10
        if mode in (0, 1):          # valid encodings of random points
            t = None
            while t is None:
                t = C.lift_x(rng.randrange(P_) if rng.random() < 0.8 else rng.randrange(1 << rng.choice([8, 32, 200])))
            Pt = t[rng.randrange(2)]
            blob = RS.encode(Pt, mode == 0)
        elif mode == 2:             # random 33 bytes, prefix 02/03: about half have a point
            blob = bytes([rng.choice([2, 3])]) + _b32(rng.randrange(1 << 256) if rng.random() < 0.9 else rng.randrange(P_, 1 << 256))
        elif mode == 3:             # uncompressed with a wrong y / hybrid with either parity
            t = None
            while t is None:
                t = C.lift_x(rng.randrange(P_))
            Pt = t[rng.randrange(2)]
            kind = rng.randrange(6)
            if kind == 0:
                blob = b"\x04" + _b32(Pt[0]) + _b32(Pt[1] ^ (1 << rng.randrange(256)))
            elif kind == 1:
                blob = b"\x04" + _b32(Pt[0] ^ (1 << rng.randrange(256))) + _b32(Pt[1])
            elif kind == 2:
                blob = bytes([6 + (Pt[1] & 1)]) + _b32(Pt[0]) + _b32(Pt[1])
            elif kind == 3:
                blob = bytes([7 - (Pt[1] & 1)]) + _b32(Pt[0]) + _b32(Pt[1])
            elif kind == 4:
                blob = b"\x04" + _b32(Pt[1]) + _b32(Pt[0])
            else:
                blob = bytes([rng.choice([2, 3])]) + _b32(Pt[0]) + _b32(Pt[1])
        elif mode in (4, 5):        # mutated valid encoding
            t = None
            while t is None:
                t = C.lift_x(rng.randrange(P_))
            b = bytearray(RS.encode(t[rng.randrange(2)], rng.random() < 0.5))
            kind = rng.randrange(5)
            if kind == 0:
                b[rng.randrange(len(b))] ^= 1 << rng.randrange(8)
            elif kind == 1:
                b = b[:rng.randrange(len(b))]
            elif kind == 2:
                b += bytes(rng.randrange(256) for _ in range(rng.randrange(1, 4)))
            elif kind == 3:
                b[0] = rng.choice([0, 1, 5, 6, 7, 8, 0x82, 0x83, 0x84, 0x12, 0xff])
            else:
                b = bytes([b[0]]) + b"\0" + b[1:-1]
            blob = bytes(b)
        else:                       # arbitrary strings of length 0..70
            L = rng.randrange(0, 71) if rng.random() < 0.6 else rng.choice([32, 33, 34, 64, 65, 66])
            blob = bytes(rng.randrange(256) for _ in range(L))
            if blob and rng.random() < 0.6:
                blob = bytes([rng.choice([2, 3, 4, 6, 7, 0, 1, 5])]) + blob[1:]
        judge_sec(blob, code, net, rec, m)
        done += 1
    rec.ev("networks_usable", len(codes))


# ---------------------------------------------------------------------------------------------

def rs_boundaries():
    b = {0, 1, 2, 0x7f, 0x80, 0x81, 0xff, 0x100, 0x7fff, 0x8000, 0xffff, 0x10000, N, N - 1, N + 1, N // 2, N // 2 + 1, P_, P_ - 1,
         (1 << 256) - 1, (1 << 255), (1 << 255) - 1, (1 << 255) + 1, (1 << 248), (1 << 248) - 1, (1 << 247), (1 << 247) - 1}
    for k in (8, 16, 24, 64, 120, 128, 200, 240):
        b.update({(1 << k) - 1, 1 << k, (1 << (k - 1)), (1 << (k - 1)) - 1})
    return sorted(b)


def check_der_pair(r, s, rec, m, rng):
    d = m.der
    case = {"r": r, "s": s}
    rec.case(("der_rs", r, s))
    exp = RD.encode(r, s)
    rec.ev("sigencode_der")
    st, e = observe(d.sigencode_der, r, s)
    if st != "ok" or e != exp:
        rec.violation("der.encode_mismatch", case, e, exp)
        if st != "ok":
            return
    rec.ev("sigdecode_der(strict)")
    st, back = observe(d.sigdecode_der, e, use_broken_open_ssl_mechanism=False)
    if st != "ok" or tuple(back) != (r, s):
        rec.violation("der.strict_roundtrip_mismatch", case, back, [r, s])
    rec.ev("sigdecode_der(default)")
    st, back = observe(d.sigdecode_der, e)
    if st != "ok" or tuple(back) != (r, s):
        rec.violation("der.default_roundtrip_mismatch", case, back, [r, s])
    # trailing bytes after the sequence, and inside it after s
    junk = bytes(rng.randrange(256) for _ in range(rng.choice([1, 1, 2, 5])))
    for t in (exp + b"\x00", exp + junk):
        judge_der_blob(t, rec, m)
    if exp[1] + len(junk) < 0x80:
        judge_der_blob(exp[:1] + bytes([exp[1] + len(junk)]) + exp[2:] + junk, rec, m)
    return exp


def judge_der_blob(blob, rec, m):
    """strict decoder on an arbitrary blob."""
    rec.case(("der_blob", blob), nontrivial=len(blob) > 0)
    rec.ev("sigdecode_der(strict)")
    st, got = observe(m.der.sigdecode_der, blob, use_broken_open_ssl_mechanism=False)
    why, val = RD.decode_notrail(blob)
    case = {"der_blob": blob}
    if st == "ok":
        rec.ev("der_blob_accepted")
        if why == "trailing":
            rec.violation("der.strict_accepts_trailing", case, got, "rejected")
        elif why == "malformed":
            rec.violation("der.strict_accepts_malformed", case, got, "rejected")
        elif tuple(got) != val:
            rec.violation("der.strict_value_mismatch", case, got, val)
    else:
        rec.ev("der_blob_rejected:" + why)
        sv = RD.decode_strict(blob)
        if sv is not None and sv[0] >= 0 and sv[1] >= 0:
            rec.violation("der.strict_rejects_valid", case, got, sv)


def run_der(spec, rec, m):
    rng = shard_rng(spec["seed"], PROPERTY, spec["tier"], spec["shard"])
    B = rs_boundaries()
    n = spec["n"]
    done = 0
    idx = spec["idx"]
    pool = []
    for i, r in enumerate(B):
        for j, s in enumerate(B):
            if (i + j) % 4 != idx % 4 and spec["tier"] == "quick" and rng.random() < 0.5:
                continue
            e = check_der_pair(r, s, rec, m, rng)
            done += 1
            if e and (i * j) % 17 == 0:
                pool.append(e)
    rec.sample({"op": "sigdecode_der(sigencode_der(r, s))", "r": (1 << 256) - 1, "s": 0, "der": RD.encode((1 << 256) - 1, 0)})
    while done < n // 2:
        bits = rng.choice([1, 7, 8, 9, 64, 127, 128, 129, 248, 249, 255, 256, 256, 256, 256])
        r = rng.getrandbits(bits)
        bits = rng.choice([1, 8, 64, 128, 255, 256, 256, 256, 256])
        s = rng.getrandbits(bits)
        e = check_der_pair(r, s, rec, m, rng)
        if e and done % 7 == 0:
            pool.append(e)
        done += 1
    # candidate blobs
    while done < n:
        mode = done % 8
        if mode < 3:                 # mutate a valid encoding
            b = bytearray(rng.choice(pool))
            kind = rng.randrange(8)
            if kind == 0:
                b[rng.randrange(len(b))] ^= 1 << rng.randrange(8)
            elif kind == 1:
                b = b[:rng.randrange(len(b))]
            elif kind == 2:
                p = rng.randrange(len(b) + 1)
                b[p:p] = bytes([rng.randrange(256)])
            elif kind == 3:
                b[1] = (b[1] + rng.choice([1, 2, -1, 0x80])) & 0xff
            elif kind == 4:          # sequence length in long form (valid BER, not DER)
                b = bytearray(b[:1] + bytes([0x81, b[1]]) + b[2:])
            elif kind == 5:          # integer padded with a redundant 00
                b = bytearray(b[:1] + bytes([b[1] + 1, 2, b[3] + 1, 0]) + b[4:]) if b[1] < 0x7f else b
            elif kind == 6:
                b[rng.randrange(len(b))] = rng.choice([0, 2, 0x30, 0x80, 0x81, 0xff])
            else:
                b = b + b
            blob = bytes(b)
        elif mode < 5:               # structure-aware: random tags / lengths
            def ri():
                L = rng.choice([0, 1, 1, 2, 32, 33, rng.randrange(0, 40)])
                body = bytes(rng.randrange(256) for _ in range(L))
                if rng.random() < 0.3 and body:
                    body = bytes([rng.choice([0, 0x80, 0xff, 0x7f])]) + body[1:]
                ln = bytes([L]) if rng.random() < 0.85 else rng.choice([bytes([0x81, L]), bytes([0x82, 0, L]), bytes([(L + 1) & 0x7f]), b"\x80"])
                return bytes([2 if rng.random() < 0.9 else rng.randrange(256)]) + ln + body
            body = ri() + ri() + (ri() if rng.random() < 0.1 else b"")
            L = len(body) + rng.choice([0, 0, 0, 0, 1, -1, 5])
            ln = bytes([L & 0x7f]) if L < 0x80 and rng.random() < 0.85 else rng.choice([bytes([0x81, L & 0xff]), bytes([0x82, 0, L & 0xff]), b"\x80"])
            blob = bytes([0x30 if rng.random() < 0.92 else rng.randrange(256)]) + ln + body + (b"" if rng.random() < 0.8 else bytes([rng.randrange(256)]))
        else:                        # arbitrary strings of length 0..70
            L = rng.randrange(0, 71)
            blob = bytes(rng.randrange(256) for _ in range(L))
            if L >= 2 and rng.random() < 0.7:
                blob = b"\x30" + bytes([L - 2 if rng.random() < 0.7 else rng.randrange(256)]) + blob[2:]
        judge_der_blob(blob[:300], rec, m)
        done += 1


def run_shard(spec, rec):
    m = M(rec)
    kind = spec["kind"]
    if kind == "roundtrip":
        rec.require("parse.wif", "keys.public(sec)", "Key.from_sec", "key.sec", "key.hash160", "key.address", "key.wif")
        run_roundtrip(spec, rec, m)
    elif kind == "secret":
        rec.require("bad_secret_exponent", "off_curve_pair", "foreign_curve_point:off_curve", "pair_form:point_own", "infinity_pair")
        run_secret(spec, rec, m)
    elif kind == "sec":
        rec.require("Key.from_sec", "keys.public(sec)", "sec_to_public_pair", "sec_class:x_ge_p", "sec_class:prefix", "sec_class:ok")
        run_sec(spec, rec, m)
    else:
        rec.require("sigencode_der", "sigdecode_der(strict)", "der_blob_rejected:trailing")
        run_der(spec, rec, m)


def replay_case(case, rec):
    m = M(rec)
    if "der_blob" in case:
        judge_der_blob(case["der_blob"], rec, m)
    elif "r" in case and "s" in case:
        check_der_pair(int(case["r"]), int(case["s"]), rec, m, shard_rng(0, PROPERTY, "replay", 0))
    elif "blob" in case:
        net = m.nets[case["net"]]
        judge_sec(case["blob"], case["net"], net, rec, m)
    elif "wif_text" in case:
        net = m.nets[case["net"]]
        st, r = observe(net.parse.wif, case["wif_text"])
        if st == "ok" and r is not None:
            rec.violation("wif.parse_accepts_out_of_range_exponent", case, r, "None or exception")
    elif "pair" in case:
        net = m.nets[case["net"]]
        pr = tuple(None if v is None else int(v) for v in case["pair"])
        judge_pair(net, case["net"], pr, case.get("form", "tuple"), case.get("entry", "keys.public(pair)"), rec, m)
    elif "entry" in case and "se" in case:
        net = m.nets[case["net"]]
        st, r = observe(net.keys.private, int(case["se"]))
        if st == "ok":
            rec.violation("secret.accepts_out_of_range", case, r, "InvalidSecretExponentError")
        elif not isinstance(r, m.ISE):
            rec.violation("secret.wrong_exception", case, r, "InvalidSecretExponentError")
    elif "se" in case:
        net = m.nets[case["net"]]
        check_key(net, case["net"], int(case["se"]), bool(case["compressed"]), rec, m, {})
