"""C20 — the context-free transaction check accepts exactly the well-formed transactions, and never modifies them."""
import hashlib
import itertools

from vmon.probe import shard_rng, observe
from vmon.refs import txser as R
from vmon.gen import txgen as G

PROPERTY = "C20"
PRELOAD_NETWORK_ORDERS = [["btc", "xtn", "ltc", "bch", "grs", "doge", "dash", "btg"], ["btg", "grs", "bch", "doge", "ltc", "xtn", "btc"]]
LEVEL = "exploration"
TECHNIQUE = ("two-sided oracle at Tx.check(): defect predicate written from the statement; full before/after snapshots on returning and raising "
             "paths across transaction size classes; every defect class crossed with every transaction kind, with every flavour / producer of the "
             "compared fields; judged calls interleaved with refused calls; 2^16+ calls on one object")
RULE = ("cases: (transaction class, transaction) pairs. Deterministic sweep: every listed defect alone and at every position "
        "(values 0,1,MAX-1,MAX,MAX+1,-1,2^63,2^64 at each output position; totals reaching MAX / MAX+1 only at the last output; the same "
        "outpoint at every pair of positions of 2..6 inputs; coinbase script lengths 0,1,2,3,99,100,101,...; the null outpoint and five "
        "near-null outpoints alone and at every position among siblings; sizes 999,999 / 1,000,000 / 1,000,001 total and witness-stripped, "
        "with and without witness data), then seeded random transactions with zero, one or two injected defects. Distinct by (class, "
        "defect set, field-shape vector); non-trivial when the transaction carries a defect or sits on one of the statement's boundaries "
        "(every generated case does, except plain random well-formed ones, which count as non-trivial only when on a wire boundary). "
        "SIZE classes: recipes with 1, 2, 252-254, 1000, 1001, 2000, 5000 (thorough: 3000, 12000) inputs resp. outputs, elements listed in no "
        "particular order / ascending / descending, with and without witness, unspents attached in full / with holes / one short / absent, "
        "well-formed and with one late-found defect. KINDS: coinbase, coinbase with witness, coinbase with 1001 outputs, plain, segwit, partly "
        "segwit, 1001-1500 inputs (random / sorted / with witness), 1001 outputs, both; on each kind every defect class (counts, single values at "
        "first/middle/last position, totals reaching MAX / MAX+1, repeated outpoints incl. the same input object listed twice and (h,i)(h,j)(h,i), "
        "null and near-null outpoints incl. a coinbase-shaped first input followed by 1..1001 inputs, coinbase script lengths, stripped and total "
        "sizes 999,999 / 1,000,000 / 1,000,001 reached through one script, a witness item, 29,000 outputs or 5,000 inputs). Live histories: one "
        "object of 253..5000 inputs edited one field at a time (and undone) between check() calls; fixed edit scripts in which every defect class "
        "appears and disappears on one object and the null outpoint is made / unmade by editing only the index resp. only the hash. "
        "FLAVOURS: outpoint hashes as plain bytes / what Tx.hash() returns / a parsed TxIn / Spendable.tx_in() of a coin from the transaction, "
        "from its text and from its dict form / pycoin's two printing bytes subclasses / a caller's bytes subclass (/ bytearray, memoryview: "
        "rejections judged, acceptance only counted), indices and values as int / int subclass / IntEnum member / bool: every ordered pair on a "
        "duplicated outpoint (adjacent and apart) with its must-accept twins, every flavour on the null outpoint at each position, on near-null "
        "outpoints and on a coinbase (script 1 / 2 / 100 / 101, script also as bytearray), then random transactions with random flavours; whole "
        "transactions from coinbase_tx(), create_tx() over coins given as object / text / dict / re-parsed, deepcopy, pickle, from_hex, parse. "
        "ERROR PATHS: histories of ONE probe object (at the size limit with and without witness, above it, half of it, small, duplicate, "
        "coinbase, values) judged fresh and again right after each round of refused calls: check() on an object (the same one, edited and "
        "restored; or another one of 300 / 400,000 / 999,000 bytes of any network) with one field that does not fit its wire format or has the "
        "wrong type (lock time, version, sequence, index, hash, scripts, value, witness item, a None element, a None list) and refused calls of "
        "other entry points; the refused check() must leave the object's fields alone. N-TH CALL: five objects (one per shard / process) "
        "checked 2^16+150 times (thorough 2^17+150), edited between calls, held in one state (one sole defect, or none) around the 2^16-th. "
        "COUNT EDGE: 65535 / 65536 / 65537 outputs at stripped sizes 1,000,000 / 1,000,001. "
        "Random transactions have a handful of elements (240..300 in about 3 % of them). Evidence: one counter per clause / quantifier item "
        "(clause.*, expected_reject.*, matrix.<kind>.<defect>, purity_snapshot.<path>.elements_<class>, history.*), each required non-zero.")
ASSUMPTIONS = [
    "'rejects' = check() raises any exception; 'accepts' = check() returns normally",
    "null outpoint = (32 zero bytes, index 2^32-1); coinbase = exactly one input and that input's outpoint is the null outpoint",
    "MAX = 21,000,000 * 10^8 for BTC/LTC/BCH/BTG classes and 105,000,000 * 10^8 for the Groestlcoin class (per-coin MAX_MONEY, as the "
    "property's quantifier says)",
    "sizes are those of the reference serialisation (vmon/refs/txser.py, self-tested), obtained by adding up its field sizes (sizes(); "
    "compared with the reference's bytes in selftest() and for every transaction within 64 bytes of the limit); a transaction without defects "
    "whose stripped size is <= 1,000,000 but whose total size is larger is not decided by the statement: it is executed, counted, and never judged",
    "the statement is about transactions that exist: when the library refuses to construct the object (e.g. a negative output value), the case is "
    "counted as construct.refused and not judged",
    "'never counted as having unsigned inputs' = bad_solution_count() == 0, also when called with flags=",
    "is_coinbase() is compared with the statement's definition of a coinbase, since the statement's rules are phrased in terms of it",
    "'never modifies the transaction' is read on what a caller can see: as_bin() with and without witness data, id(), w_id(), the identity of the "
    "txs_in / txs_out / unspents lists, identity and order of their elements, and every field of every element; extra private attributes are not looked at",
    "the same TxIn object listed at two positions spends one outpoint twice (duplicate_outpoint)",
    "how the object was made (constructor with witness lists / tuples / set_witness, or from_bin of the reference serialisation when that yields "
    "exactly the intended fields) is not supposed to matter to check(): the same predicate judges all of them",
    "'the same outpoint', 'the null outpoint', values and totals are meant by value: fields that are == to the plain bytes / int (bytes and int "
    "subclasses, bool, objects handed out by the library's own producers) are judged like the plain ones; for bytearray / memoryview fields, which "
    "nothing promises TxIn takes, only 'rejects' is judged",
    "a check() call on an object that is not a transaction the statement speaks about (a field that cannot be serialised or compared) is not judged, "
    "whatever it does, except that it must not modify the object; the next check() of a proper transaction in the same process is judged as always",
]
EXPLANATION = ("defects(tx) is computed from the dict the transaction was built from; any defect => check() must raise, none and total size "
               "<= 1,000,000 => must return; fields, object order, unspents and as_bin() are compared before and after check() on both "
               "paths (also for a second check() on the same object, and between in-place edits of one live object); for every coinbase "
               "transaction bad_solution_count() must be 0. Large transactions are described by recipes (pure functions of a small dict), so "
               "stored cases stay small and replayable.")
TIMEOUT = {"quick": 600, "thorough": 3 * 3600}

NETS = ["BTC", "GRS", "LTC", "BCH", "BTG"]
COIN = 10 ** 8
MAXES = {"BTC": 21_000_000 * COIN, "LTC": 21_000_000 * COIN, "BCH": 21_000_000 * COIN, "BTG": 21_000_000 * COIN,
         "GRS": 105_000_000 * COIN}
LIMIT = 1_000_000
NULL = (G.NULL_HASH, G.NULL_INDEX)
NEAR_NULL = [(G.NULL_HASH, 0), (G.NULL_HASH, 5), (G.NULL_HASH, 0xfffffffe), (b"\0" * 31 + b"\1", 0xffffffff),
             (b"\1" + b"\0" * 31, 0xffffffff), (G.NULL_HASH, 0x7fffffff)]


def exhaustive(tier):
    return False


def configurations(tier):
    return [{"tx_classes": NETS}]


def plan(tier, seed):
    kinds = list(KINDS)
    if tier == "quick":
        small = [k for k in kinds if not k.startswith("many") and k != "coinbase_manyout"]
        big = [{"kind": "sizeclass", "classes": [5000], "full": False},
               {"kind": "sizeclass", "classes": [2000], "full": False},
               {"kind": "sizeclass", "classes": [1, 2, 252, 253, 254, 1000, 1001], "full": True},
               {"kind": "sizekinds", "jobs": [["coinbase_29000out", "BTC", False], ["5000in", "GRS", False], ["segwit_29000out", "LTC", True]]},
               {"kind": "kinds", "jobs": [["manyin_segwit", "BTC", True], ["manyinout", "BTC", True]]},
               {"kind": "kinds", "jobs": [["manyin", "LTC", True], ["manyin_sorted", "BCH", True]]},
               {"kind": "kinds", "jobs": [["manyout", "GRS", True], ["coinbase_manyout", "GRS", True]] + [[k, "BTC", False] for k in small]},
               {"kind": "kinds", "jobs": [[k, n, True] for n in ("GRS", "LTC", "BCH", "BTG") for k in small]},
               {"kind": "bighist", "sizes": [2000, 1001, 1001, 253], "steps": [7, 10, 10, 10]}]
        new = ([{"kind": "flavours", "nets": ["BTC", "LTC"], "n": 500}, {"kind": "flavours", "nets": ["GRS", "BCH", "BTG"], "n": 500}] +
               [{"kind": "errpath", "part": p, "nparts": 3, "repeat": 2} for p in range(3)] + [{"kind": "longrun", "net": NETS[j % 5], "n": (1 << 16) + 150, "hold": h} for j, h in enumerate(LONGRUN_HOLDS)] + [{"kind": "countedge"}])
        return ([{"kind": "sweep", "net": n} for n in NETS] + [{"kind": "sizes", "net": n, "part": p} for n in ("BTC", "GRS") for p in (0, 1)] +
                [{"kind": "random", "n": 9000} for _ in range(7)] + [{"kind": "history", "n": 12} for _ in range(3)] + big + new)
    big = ([{"kind": "sizeclass", "classes": [c], "full": True} for c in (5000, 5000, 2000, 3000, 1001, 1002, 1000)] +
           [{"kind": "sizeclass", "classes": [1, 2, 3, 252, 253, 254, 255, 999], "full": True}, {"kind": "sizeclass", "classes": [12000], "full": False}] +
           [{"kind": "sizekinds", "jobs": [[k, n, False] for n in NETS]} for k in SIZE_KINDS] +
           [{"kind": "kinds", "jobs": [[k, n, False]]} for k in kinds if k.startswith("many") for n in NETS] +
           [{"kind": "kinds", "jobs": [[k, n, False] for k in kinds if not k.startswith("many")]} for n in NETS] +
           [{"kind": "bighist", "sizes": [1001, 2000, 5000, 1001, 254, 1000], "steps": [30] * 6} for _ in range(6)])
    new = ([{"kind": "flavours", "nets": [n], "n": 30000} for n in NETS] + [{"kind": "errpath", "part": p, "nparts": 6, "repeat": 6} for p in range(6)] +
           [{"kind": "longrun", "net": NETS[j % 5], "n": (1 << 17) + 150, "hold": h} for j, h in enumerate(LONGRUN_HOLDS)] + [{"kind": "countedge"}])
    return ([{"kind": "sweep", "net": n} for n in NETS] + [{"kind": "sizes", "net": n, "part": p} for n in ("BTC", "GRS", "LTC") for p in (0, 1)] +
            [{"kind": "random", "n": 180000} for _ in range(12)] + [{"kind": "history", "n": 400} for _ in range(6)] + big + new)


# ---------------------------------------------------------------------------------------------
# the statement, as a predicate over the plain dict

def is_coinbase_ref(d):
    return len(d["ins"]) == 1 and (d["ins"][0]["prev"], d["ins"][0]["index"]) == NULL


def serialisable(d):
    return all(0 <= o["value"] < (1 << 64) for o in d["outs"])


def _cs(n):
    """bytes of the compact-size encoding of n (protocol documentation: 1 below 0xfd, then 3 / 5 / 9)"""
    return 1 if n < 0xfd else 3 if n <= 0xffff else 5 if n <= 0xffffffff else 9


def sizes(d):
    """(witness-stripped size, total size) of the wire form, added up field by field from the protocol documentation / BIP144:
    4 version, count, per input 32+4+script+4, count, per output 8+script, 4 lock time; with any non-empty witness stack 2 more bytes
    (marker, flag) and one stack per input. Cross-checked against the byte-producing reference (refs/txser.py) in selftest() and,
    at run time, for every transaction within 64 bytes of the limit."""
    ins, outs = d["ins"], d["outs"]
    base = 8 + _cs(len(ins)) + _cs(len(outs)) + 40 * len(ins) + 8 * len(outs)
    for i in ins:
        n = len(i["script"])
        base += n + (1 if n < 0xfd else _cs(n))
    for o in outs:
        n = len(o["script"])
        base += n + (1 if n < 0xfd else _cs(n))
    total = base
    if any(i["witness"] for i in ins):
        total += 2
        for i in ins:
            w = i["witness"]
            total += _cs(len(w))
            for it in w:
                total += len(it) + _cs(len(it))
    for sz, ww in ((base, False), (total, True)):
        if abs(sz - LIMIT) <= 64 and serialisable(d):
            assert len(R.serialize(d, with_witness=ww)) == sz, "size arithmetic disagrees with the reference serialisation"
    return base, total


def defects(d, MAX, stripped_size=None):
    out = []
    if not d["ins"]:
        out.append("no_inputs")
    if not d["outs"]:
        out.append("no_outputs")
    if any(o["value"] < 0 or o["value"] > MAX for o in d["outs"]):
        out.append("value_out_of_range")
    total, crossed = 0, False
    for o in d["outs"]:
        total += o["value"]
        if total > MAX or total < 0:
            crossed = True
    if crossed and "value_out_of_range" not in out:
        out.append("total_out_of_range")
    pts = [(i["prev"], i["index"]) for i in d["ins"]]
    if len(set(pts)) != len(pts):
        out.append("duplicate_outpoint")
    if is_coinbase_ref(d):
        if not 2 <= len(d["ins"][0]["script"]) <= 100:
            out.append("coinbase_script_size")
    elif NULL in pts:
        out.append("null_outpoint_in_non_coinbase")
    if serialisable(d) and (sizes(d)[0] if stripped_size is None else stripped_size) > LIMIT:
        out.append("stripped_size_over_limit")
    return out


def zero_hash_non_null(d):
    """an input whose outpoint hash is all zero but which is NOT the null outpoint"""
    return any(i["prev"] == G.NULL_HASH and i["index"] != G.NULL_INDEX for i in d["ins"])


def selftest(rec):
    out = {"txser_builtin": R.selftest()}
    MAX = MAXES["BTC"]
    ok = G.simple_tx(n_in=2, n_out=2, value=5)
    assert defects(ok, MAX) == []
    # the genesis coinbase is a coinbase with a 77-byte script and 50 BTC: no defect
    g, _ = R.parse(bytes.fromhex(
        "01000000010000000000000000000000000000000000000000000000000000000000000000ffffffff4d04ffff001d0104455468652054696d65732030332f4a616e2f"
        "32303039204368616e63656c6c6f72206f6e206272696e6b206f66207365636f6e64206261696c6f757420666f722062616e6b73ffffffff0100f2052a01000000434104"
        "678afdb0fe5548271967f1a67130b7105cd6a828e03909a67962e0ea1f61deb649f6bc3f4cef38c4f35504e51ec112de5c384df7ba0b8d578a4c702b6bf11d5fac00000000"))
    assert is_coinbase_ref(g) and defects(g, MAX) == [] and len(g["ins"][0]["script"]) == 77
    # one law per clause of the statement
    t = G.simple_tx(); t["ins"] = []
    assert defects(t, MAX) == ["no_inputs"]
    t = G.simple_tx(n_out=0)
    assert defects(t, MAX) == ["no_outputs"]
    for v, bad in ((0, False), (MAX, False), (MAX + 1, True), (-1, True)):
        assert (defects(G.simple_tx(value=v), MAX) == ["value_out_of_range"]) == bad and (defects(G.simple_tx(value=v), MAX) == []) != bad
    t = G.simple_tx(n_out=2, value=MAX // 2 + 1)
    assert defects(t, MAX) == ["total_out_of_range"]
    t = G.simple_tx(n_out=2, value=MAX // 2)
    assert defects(t, MAX) == []
    t = G.simple_tx(n_in=3); t["ins"][2]["prev"], t["ins"][2]["index"] = t["ins"][0]["prev"], t["ins"][0]["index"]
    assert defects(t, MAX) == ["duplicate_outpoint"]
    for L, bad in ((1, True), (2, False), (100, False), (101, True)):
        t = G.simple_tx(script_len=L); t["ins"][0]["prev"], t["ins"][0]["index"] = NULL
        assert is_coinbase_ref(t) and (defects(t, MAX) == ["coinbase_script_size"]) == bad
    t = G.simple_tx(n_in=2); t["ins"][1]["prev"], t["ins"][1]["index"] = NULL
    assert not is_coinbase_ref(t) and defects(t, MAX) == ["null_outpoint_in_non_coinbase"]
    for pt in NEAR_NULL:
        t = G.simple_tx(n_in=1); t["ins"][0]["prev"], t["ins"][0]["index"] = pt
        assert not is_coinbase_ref(t) and defects(t, MAX) == []
    n = 0
    for target, bad in ((LIMIT - 1, False), (LIMIT, False), (LIMIT + 1, True)):
        t = sized_tx(target, stripped=True, witness_bytes=0)
        assert len(R.serialize(t)) == target and (defects(t, MAX) == ["stripped_size_over_limit"]) == bad
        t = sized_tx(target, stripped=True, witness_bytes=5000)
        assert len(R.serialize(t, False)) == target and len(R.serialize(t)) > target and (defects(t, MAX) == ["stripped_size_over_limit"]) == bad
        t = sized_tx(target, stripped=False, witness_bytes=5000)
        assert len(R.serialize(t)) == target and defects(t, MAX) == []
        n += 3
    assert defects(G.simple_tx(value=MAXES["BTC"] + 1), MAXES["GRS"]) == []
    out["predicate_laws"] = 30 + n
    # the size arithmetic against the byte-producing reference: every compact-size boundary on every length / count, and random transactions
    import random
    rng = random.Random(20)
    q = 0
    for t in [t for _, t in G.boundary_sweep()] + [G.rand_tx(rng, p_count_edge=0.1) for _ in range(250)]:
        if serialisable(t):
            assert sizes(t) == (len(R.serialize(t, with_witness=False)), len(R.serialize(t))), t
            q += 1
    assert [_cs(n) for n in (0, 252, 253, 0xffff, 0x10000, 0xffffffff, 1 << 32)] == [len(R.csize(n)) for n in (0, 252, 253, 0xffff, 0x10000, 0xffffffff, 1 << 32)]
    out["size_laws"] = q
    # the clause counters name what they say
    ce = lambda net, t: clause_events(net, t, MAXES[net], defects(t, MAXES[net]), is_coinbase_ref(t), *sizes(t))
    assert ce("BTC", G.simple_tx(value=MAX)) == ["value_MAX.accept"] and "value_MAX+1.reject" in ce("BTC", G.simple_tx(value=MAX + 1))
    assert "GRS_above_21M_coins.accept" in ce("GRS", G.simple_tx(value=MAX + 1)) and "non_GRS_value_within_GRS_range.reject" in ce("LTC", G.simple_tx(value=MAX + 1))
    t = G.simple_tx(n_out=3, value=MAX // 3 - 1)
    assert "total_MAX_reached_cumulatively.accept" not in ce("BTC", t)
    t["outs"][2]["value"] += MAX - 3 * (MAX // 3 - 1)
    assert "total_MAX_reached_cumulatively.accept" in ce("BTC", t)
    t["outs"][2]["value"] += 1
    assert set(ce("BTC", t)) == {"total_MAX+1_reached_cumulatively.reject", "total_crossed_at_last_output.reject"}
    t = G.simple_tx(n_in=4); _set_pt(t, 3, (t["ins"][0]["prev"], t["ins"][0]["index"]))
    assert ce("BTC", t) == ["duplicate.first_and_last.reject"]
    t = G.simple_tx(n_in=4); _set_pt(t, 2, (t["ins"][1]["prev"], t["ins"][1]["index"]))
    assert ce("BTC", t) == ["duplicate.adjacent.reject"]
    t = G.simple_tx(n_in=3); _set_pt(t, 1, NULL)
    assert ce("BTC", t) == ["null_outpoint.middle.reject"]
    assert set(CLAUSE_COUNTERS) >= set(ce("BTC", t)) and len(set(CLAUSE_COUNTERS)) == len(CLAUSE_COUNTERS)
    # the recipe builder: what the size-class / kind workloads rely on
    m = 0
    for name, base in list(KINDS.items()) + list(SIZE_KINDS.items()):
        d, alias = big_tx(_rc(base))
        assert defects(d, MAX) == [] and not alias and is_coinbase_ref(d) == bool(base.get("coinbase")), name
        assert (len(d["ins"]), len(d["outs"])) == (base["n_in"], base["n_out"]), name
        assert big_tx(_rc(base))[0] == d                      # a pure function of the recipe
        if name in SIZE_KINDS:
            assert LIMIT - 60000 < len(R.serialize(d, with_witness=False)) < LIMIT - 1, name
        m += 1
    for n_in in (3, 253, 1001, 5000):
        pts = lambda d: [(i["prev"], i["index"]) for i in d["ins"]]
        r = pts(big_tx({"n_in": n_in, "n_out": 3, "tag": n_in})[0])
        a = pts(big_tx({"n_in": n_in, "n_out": 3, "tag": n_in, "order": "asc"})[0])
        z = pts(big_tx({"n_in": n_in, "n_out": 3, "tag": n_in, "order": "desc"})[0])
        assert a == sorted(r) and z == a[::-1] and r != a and r != z and len(set(r)) == n_in
        assert len({p for p, _ in r}) < n_in or n_in < 4      # some inputs share the previous transaction
        vals = [o["value"] for o in big_tx({"n_in": 1, "n_out": n_in, "tag": n_in})[0]["outs"]]
        assert n_in < 10 or (vals != sorted(vals) and vals != sorted(vals, reverse=True))
        m += 1
    for label, rc, _ in purity_recipes([2, 253, 1001]):
        d, alias = big_tx(rc)
        wellformed = label.startswith(("inputs=", "outputs="))
        assert (defects(d, MAXES["GRS"]) == []) == wellformed and (defects(d, MAX) == []) == wellformed, label
        m += 1
    for kd, light in [(kd, kd.startswith("many")) for kd in KINDS] + [(kd, True) for kd in KINDS if not kd.startswith("many") and kd != "coinbase_manyout"]:
        seen = set()
        for label, rc in kind_recipes(kd, MAX, light=light):
            d, alias = big_tx(rc)
            seen.update(defects(d, MAX) or ["none"])
            for t in TARGETS:
                if label.startswith("stripped=%d " % t):
                    assert len(R.serialize(d, with_witness=False)) == t, (kd, label)
                if label.startswith("total=%d " % t):
                    assert len(R.serialize(d)) == t, (kd, label)
            m += 1
        need = {"none", "no_inputs", "no_outputs", "value_out_of_range", "total_out_of_range", "duplicate_outpoint", "null_outpoint_in_non_coinbase",
                "stripped_size_over_limit"} | ({"coinbase_script_size"} if KINDS[kd].get("coinbase") else set())
        assert need <= seen, (kd, need - seen)       # every defect class of the statement occurs on every kind
    out["recipe_laws"] = m
    # flavours: equal (and, where hashable, hashing equal) to the plain value, printing differently; every swept case has the verdict its label says
    h = _h(1, 1)
    assert _HashSub(h) == h and hash(_HashSub(h)) == hash(h) and str(_HashSub(h)) != str(h) and "%s" % _HashSub(h) != "%s" % h
    assert bytearray(h) == h and memoryview(h) == h and hash(memoryview(h)) == hash(h)
    for xf in INDEX_FLAVOURS:
        v = _int_flavour(xf, 1)
        assert v == 1 and hash(v) == hash(1) and isinstance(v, int) and "%d" % v == "1" and (xf == "int") == (type(v) is int)
    assert str(_int_flavour("intsub", 1)) != "1" and _int_flavour("intenum", 0xffffffff) == G.NULL_INDEX and _int_flavour("bool", 0) is False
    q = 0
    for net in ("BTC", "GRS"):
        for label, d, flav in flavour_sweep(net):
            dfx = defects(d, MAXES[net])
            want = (["duplicate_outpoint"] if label.startswith("dup ") else ["null_outpoint_in_non_coinbase"] if label.startswith("null outpoint")
                    else ["coinbase_script_size"] if label.startswith("coinbase") and label.endswith((" 1", " 101"))
                    else ["value_out_of_range"] if label.startswith("value %d" % (MAXES[net] + 1))
                    else ["total_out_of_range"] if label.startswith("total %d" % (MAXES[net] + 1)) else [])
            assert dfx == want, (label, dfx)
            assert len(flav["ins"]) == len(d["ins"]) and all(f[1] != "bool" or i["index"] in (0, 1) for f, i in zip(flav["ins"], d["ins"])), label
            assert is_coinbase_ref(d) == label.startswith("coinbase"), label
            q += 1
    out["flavour_laws"] = q
    # error paths: every probe is decided by the statement, both verdicts occur, every refusal names a known family and value
    q = 0
    for net in ("BTC", "GRS"):
        verdicts = {}
        pr = errpath_probes(net)
        assert sorted(pr) == sorted(PROBE_NAMES)
        for name in PROBE_NAMES:
            d = pr[name]()
            dfx = defects(d, MAXES[net])
            assert dfx or sizes(d)[1] <= LIMIT, name
            verdicts[name] = not dfx
            q += 1
        assert [k for k in PROBE_NAMES if verdicts[k]] == ["at_limit", "half", "wit_at_limit", "small", "small_wit", "coinbase", "total_max"]
        assert sizes(pr["at_limit"]())[1] == LIMIT and sizes(pr["wit_at_limit"]())[1] == LIMIT and sizes(pr["over_limit"]())[0] == LIMIT + 1
    assert all(r[2] in BAD_VALUES and r[1] in (None, "first", "last") for r in REFUSALS)
    for size in BROKEN_SIZES[1:]:
        assert len(R.serialize(_broken_dict(size, True))) == size and defects(_broken_dict(size, False), MAX) == []
    out["errpath_laws"] = q
    for label, rc in count_edge_recipes("thorough"):
        if "=65536 " in label and label.endswith("=%d" % LIMIT):
            d, _ = big_tx(rc)
            assert len(d["outs"]) == 0x10000 and sizes(d)[0] == LIMIT and defects(d, MAX) == []
    return out


# ---------------------------------------------------------------------------------------------
# size-targeted transactions

def sized_tx(target, stripped, witness_bytes, where="in_script", n_in=1, n_out=1):
    """a defect-free transaction whose (stripped or total) reference size is exactly `target`"""
    w = [b"\x33" * witness_bytes] if witness_bytes else []
    t = G.simple_tx(n_in=n_in, n_out=n_out, witness=None)
    if w:
        t["ins"][-1]["witness"] = w

    def size():
        return len(R.serialize(t, with_witness=not stripped))

    def setpad(n):
        if where == "in_script":
            t["ins"][0]["script"] = b"\x51" * n
        elif where == "out_script":
            t["outs"][0]["script"] = b"\x6a" * n
        else:
            t["ins"][-1]["witness"] = [b"\x33" * n]
    pad = max(0, target - size())
    setpad(pad)
    for _ in range(12):
        delta = target - size()
        if delta == 0:
            return t
        pad += delta
        setpad(pad)
    raise AssertionError("cannot hit size %d" % target)


# ---------------------------------------------------------------------------------------------

def _nets(rec=None):
    import importlib
    nets = {}
    for n in NETS:
        try:
            nets[n] = importlib.import_module("pycoin.symbols." + n.lower()).network.tx
        except Exception as e:
            if rec is not None:
                rec.note("config_absent: %s transaction class not importable (%s)" % (n, type(e).__name__))
    return nets


def _quiet(fn, *a, **kw):
    st, v = observe(fn, *a, **kw)
    return v if st == "ok" else "raises " + type(v).__name__


def _snapshot(tx, full=True):
    """everything a caller can read off the transaction: the two serialisations, both ids, identity and order of the three
    containers and of their elements, every field of every element. full="noids": without id() / w_id(); full=False: also
    without the witness-stripped serialisation"""
    uns = tx.unspents
    small = full is True and len(tx.txs_in) + len(tx.txs_out) <= 3000
    return {"fields": G.from_pycoin(tx), "in_ids": [id(t) for t in tx.txs_in], "out_ids": [id(t) for t in tx.txs_out],
            "lists": (id(tx.txs_in), id(tx.txs_out)),
            "unspents": None if uns is None else [None if u is None else (u.coin_value, bytes(u.script)) for u in uns],
            "unspent_ids": (id(uns), None if uns is None else [id(u) for u in uns]),
            "as_bin": _quiet(tx.as_bin), "as_bin_stripped": _quiet(tx.as_bin, include_witness_data=False) if full else None,
            # the ids are functions of the two serialisations; asked for as well unless the transaction has thousands of elements
            "id": _quiet(tx.id) if small else None, "w_id": _quiet(tx.w_id) if small else None}


SNAP_KEYS = ("as_bin", "as_bin_stripped", "id", "w_id", "fields", "in_ids", "out_ids", "lists", "unspents", "unspent_ids")


def _snap_diff(a, b):
    for k in SNAP_KEYS:
        if a[k] != b[k]:
            if k == "fields":
                return "fields." + str(G.first_difference(a[k], b[k]))
            return k
    return None


def _attach_unspents(T, tx, mode):
    """unspents as a caller would have them: one per input (values in no particular order), one short (an input was appended after
    set_unspents), or with holes (unspents_from_db(ignore_missing=True))"""
    n = len(tx.txs_in)
    if not mode or not n:
        return
    full = [T.TxOut(1000 + (k * 7919) % 1009, bytes([0x51 + k % 5]) * (1 + k % 3)) for k in range(n)]
    if mode == "holes":
        full = [None if k % 4 == 1 else u for k, u in enumerate(full)]
    tx.set_unspents(full)
    if mode == "short":
        tx.unspents = full[:-1]


def _make(T, d, via):
    """the object, made the way a caller might make it: constructed (witness assigned as list / as tuple / through set_witness) or
    parsed from its serialisation (only when that gives back exactly the fields of d; parsing itself is another property's subject)"""
    if via == "from_bin":
        if d["ins"] and d["outs"] and serialisable(d):
            st, tx = observe(T.from_bin, R.serialize(d))
            if st == "ok" and G.from_pycoin(tx) == G.norm(d):
                return tx, via
        via = "attr"
    return G.to_pycoin(T, d, witness_via=via), via


BTC_MAX = 21_000_000 * COIN


def clause_events(net, d, MAX, dfx, cb, stripped, total):
    """names of the statement's boundaries / quantifier items this transaction sits on, when that boundary alone decides the verdict
    (evidence that each one was reached; every name listed in CLAUSE_COUNTERS is required to be non-zero)"""
    ev = []
    vals = [o["value"] for o in d["outs"]]
    n_in = len(d["ins"])
    pts = [(i["prev"], i["index"]) for i in d["ins"]]
    if not dfx:
        if total is None or total > LIMIT:
            return ev
        if 0 in vals:
            ev.append("value_0.accept")
        if MAX in vals:
            ev.append("value_MAX.accept")
        if len(vals) >= 2 and sum(vals) == MAX and max(vals) < MAX:
            ev.append("total_MAX_reached_cumulatively.accept")
        if net == "GRS" and vals and sum(vals) > BTC_MAX:
            ev.append("GRS_above_21M_coins.accept")
        if cb and len(d["ins"][0]["script"]) in (2, 100):
            ev.append("coinbase_script_%d.accept" % len(d["ins"][0]["script"]))
        if zero_hash_non_null(d) or any(p != G.NULL_HASH and x == G.NULL_INDEX for p, x in pts):
            ev.append("near_null_outpoint.accept")
        if n_in >= 2 and len({p for p, _ in pts}) < n_in:
            ev.append("same_previous_tx_other_output.accept")
        if total == LIMIT:
            ev.append("total_size_LIMIT.accept")
        if stripped == LIMIT:
            ev.append("stripped_size_LIMIT.accept")
        return ev
    if len(dfx) > 1:
        return ev
    df = dfx[0]
    if df == "value_out_of_range":
        bad = [v for v in vals if v < 0 or v > MAX]
        if bad == [MAX + 1]:
            ev.append("value_MAX+1.reject")
        if bad == [-1]:
            ev.append("value_-1.reject")
        if net != "GRS" and len(bad) == 1 and BTC_MAX < bad[0] <= MAXES["GRS"]:
            ev.append("non_GRS_value_within_GRS_range.reject")
    elif df == "total_out_of_range":
        if sum(vals) == MAX + 1:
            ev.append("total_MAX+1_reached_cumulatively.reject")
        if sum(vals[:-1]) <= MAX:
            ev.append("total_crossed_at_last_output.reject")
        else:
            ev.append("total_crossed_before_last_output.reject")
    elif df == "coinbase_script_size":
        if len(d["ins"][0]["script"]) in (1, 101):
            ev.append("coinbase_script_%d.reject" % len(d["ins"][0]["script"]))
    elif df == "duplicate_outpoint":
        first = {}
        for k, pt in enumerate(pts):
            if pt in first:
                a = first[pt]
                ev.append("duplicate.adjacent.reject" if k == a + 1 else "duplicate.first_and_last.reject" if (a, k) == (0, n_in - 1)
                          else "duplicate.apart.reject")
                break
            first[pt] = k
    elif df == "null_outpoint_in_non_coinbase":
        k = pts.index(NULL)
        ev.append("null_outpoint.%s.reject" % ("first" if k == 0 else "last" if k == n_in - 1 else "middle"))
    elif df == "stripped_size_over_limit":
        if stripped == LIMIT + 1:
            ev.append("stripped_size_LIMIT+1.reject")
            if total > stripped:
                ev.append("stripped_size_LIMIT+1_with_witness.reject")
        if cb:
            ev.append("coinbase_over_size.reject")
    return ev


CLAUSE_COUNTERS = ["value_0.accept", "value_MAX.accept", "total_MAX_reached_cumulatively.accept", "GRS_above_21M_coins.accept",
                   "coinbase_script_2.accept", "coinbase_script_100.accept", "near_null_outpoint.accept", "same_previous_tx_other_output.accept",
                   "total_size_LIMIT.accept", "stripped_size_LIMIT.accept", "value_MAX+1.reject", "value_-1.reject",
                   "non_GRS_value_within_GRS_range.reject", "total_MAX+1_reached_cumulatively.reject", "total_crossed_at_last_output.reject",
                   "total_crossed_before_last_output.reject", "coinbase_script_1.reject", "coinbase_script_101.reject",
                   "duplicate.adjacent.reject", "duplicate.first_and_last.reject", "duplicate.apart.reject", "null_outpoint.first.reject",
                   "null_outpoint.middle.reject", "null_outpoint.last.reject", "stripped_size_LIMIT+1.reject",
                   "stripped_size_LIMIT+1_with_witness.reject", "coinbase_over_size.reject"]
DEFECT_NAMES = ["no_inputs", "no_outputs", "value_out_of_range", "total_out_of_range", "duplicate_outpoint", "coinbase_script_size",
                "null_outpoint_in_non_coinbase", "stripped_size_over_limit"]


def _size_class(d):
    n = max(len(d["ins"]), len(d["outs"]))
    return "le_2" if n <= 2 else "3..251" if n < 252 else "252..254" if n <= 254 else "255..1000" if n <= 1000 else "1001..2000" if n <= 2000 else "gt_2000"


def _check_one(net, T, d, rec, label=None, with_unspents=False, case=None, alias=(), second=False, full_snapshot=True, via="attr", cell=None,
               flav=None):
    """d: the dict the transaction is built from. case: what is stored for replay (default: the packed dict). alias: pairs (a, b) of
    input positions holding the SAME TxIn object (d must list equal entries there). with_unspents: False / True ("full") / "short" / "holes".
    second: run check() a second time on the same object and demand the same verdict and still no modification.
    cell: name of the KIND when the case belongs to the defect x kind matrix (counted per cell once check() has been judged)
    flav: {"ins": [[hash flavour, index flavour, script flavour] per input], "outs": [value flavour per output] or None}: the object's
    fields carry the values of d in these flavours (equal by value, different in type / producer); the verdict is that of d"""
    MAX = MAXES[net]
    if case is None:
        case = {"net": net, "tx": G.pack(d)}
        if label:
            case["label"] = label
        if flav:
            case["flav"] = flav
    ser = serialisable(d)
    stripped_size, total_size = sizes(d) if ser else (None, None)
    dfx = defects(d, MAX, stripped_size)
    cb = is_coinbase_ref(d)
    nontrivial = bool(dfx) or bool(label) or G.on_boundary(d)
    rec.case((net, tuple(dfx), G.shape(d), tuple((i["prev"] == G.NULL_HASH, i["index"] == G.NULL_INDEX) for i in d["ins"][:8]),
              total_size if (total_size or 0) > 900000 else 0, label if "recipe" in case else None), nontrivial=nontrivial)
    st, tx = observe(_make, T, d, via)
    if st != "ok":
        # the statement is about transactions that exist: a constructor refusing to build one says nothing about check().
        # Counted; the per-clause counters below go to zero (-> inconclusive) if that made a clause unreachable.
        rec.ev("construct.refused")
        rec.ev("construct.refused." + (dfx[0] if dfx else "wellformed"))
        return
    tx, via = tx
    rec.ev("made_via." + via)
    if via != "attr":
        case = dict(case, via=via)
    if flav:
        why = _apply_flavours(T, tx, d, flav)
        if why:
            # the library refuses to make such an element (or makes another one than asked for): nothing to judge
            rec.ev("flavour.not_built")
            rec.ev("flavour.not_built." + why)
            return
    for a, b in alias:
        tx.txs_in[b] = tx.txs_in[a]
        rec.ev("same_input_object_twice")
    if with_unspents and d["ins"]:
        _attach_unspents(T, tx, "full" if with_unspents is True else with_unspents)
        rec.ev("unspents." + ("full" if with_unspents is True else with_unspents))
    # coinbase detection
    rec.ev("Tx.is_coinbase")
    st, ic = observe(tx.is_coinbase)
    if st != "ok":
        rec.violation("is_coinbase.raises", case, ic, cb)
    elif bool(ic) != cb:
        if ic and zero_hash_non_null(d):
            rec.violation("null_outpoint.index_ignored", dict(case, api="is_coinbase"), True, False)
        else:
            rec.violation("is_coinbase.mismatch", case, ic, cb)
    # the check itself, with snapshots on both paths
    before = _snapshot(tx, full_snapshot)
    rec.ev("Tx.check")
    st, r = observe(tx.check)
    after = _snapshot(tx, full_snapshot)
    path = "returning" if st == "ok" else "raising"
    rec.ev("check.returned" if st == "ok" else "check.raised")
    if st != "ok":
        rec.ev("check.raised." + type(r).__name__)
    diff = _snap_diff(before, after)
    rec.ev("purity_snapshot." + path)
    rec.ev("purity_snapshot.%s.elements_%s" % (path, _size_class(d)))
    if diff:
        rec.violation("check.mutates_tx.%s_path" % path, case, diff, "unchanged")
    decided_accept = not dfx and total_size is not None and total_size <= LIMIT
    if cell:
        for x in dfx or ["none"]:
            rec.ev("matrix.%s.%s" % (cell, x))
    for name in clause_events(net, d, MAX, dfx, cb, stripped_size, total_size):
        rec.ev("clause." + name)
    if dfx:
        rec.ev("expected_reject." + dfx[0])
        for x in dfx[1:]:
            rec.ev("expected_reject(also)." + x)
        if flav:
            _flavour_events(rec, d, flav, dfx, cb, "reject")
        if st == "ok":
            rec.violation("check.accepts_defective." + (dfx[0] if len(dfx) == 1 else "multiple") + _flavour_suffix(T, d, flav, "raise"),
                          dict(case, defects=dfx), "returned", "raise")
    elif decided_accept:
        rec.ev("expected_accept")
        rec.ev("expected_accept." + net)
        if total_size >= LIMIT - 1:
            rec.ev("expected_accept.at_size_limit")
        if flav:
            _flavour_events(rec, d, flav, dfx, cb, "accept")
        if st != "ok" and flav and _optional_flavours(flav):
            # (an element type the library does not promise to take - bytearray, memoryview: a refusal is counted, not judged)
            rec.ev("flavour.optional.wellformed_refused")
            rec.ev("flavour.optional.wellformed_refused." + type(r).__name__)
        elif st != "ok":
            if flav:
                rec.violation("check.rejects_wellformed" + _flavour_suffix(T, d, flav, "return"), case, r, "return")
            elif zero_hash_non_null(d):
                rec.violation("null_outpoint.index_ignored", dict(case, api="check"), r, "return")
            else:
                rec.violation("check.rejects_wellformed", case, r, "return")
    else:
        rec.ev("undecided.stripped_le_limit_lt_total")
    if second:
        # the same object again: same verdict, still untouched
        rec.ev("Tx.check(second)")
        st2, r2 = observe(tx.check)
        if dfx and st2 == "ok":
            rec.violation("check.second_call.accepts_defective", dict(case, defects=dfx), "returned", "raise")
        elif decided_accept and st2 != "ok" and not (flav and _optional_flavours(flav)):
            rec.violation("null_outpoint.index_ignored" if zero_hash_non_null(d) else "check.second_call.rejects_wellformed",
                          dict(case, api="check(second)"), r2, "return")
        diff = _snap_diff(before, _snapshot(tx, full_snapshot))
        if diff:
            rec.violation("check.mutates_tx.second_call", case, diff, "unchanged")
    # a coinbase is never counted as having unsigned inputs (however the count is asked for)
    if cb:
        rec.ev("Tx.bad_solution_count(coinbase)")
        st_, n = observe(tx.bad_solution_count)
        if st_ != "ok" or n != 0:
            rec.violation("coinbase.counted_as_unsigned", case, n, 0)
        if second or label:
            rec.ev("Tx.bad_solution_count(coinbase, flags=)")
            st_, n = observe(tx.bad_solution_count, flags=0)
            if st_ != "ok" or n != 0:
                rec.violation("coinbase.counted_as_unsigned", dict(case, api="bad_solution_count(flags=0)"), n, 0)
    return st


def _with(d, **kw):
    e = G.norm(d)
    e.update(kw)
    return e


def _set_pt(d, k, pt):
    d["ins"][k]["prev"], d["ins"][k]["index"] = pt
    return d


def sweep(net):
    """deterministic boundary cases, one statement clause at a time; yields (label, dict)"""
    MAX = MAXES[net]
    for n_in in range(1, 7):
        for n_out in range(1, 5):
            yield "plain %d/%d" % (n_in, n_out), G.simple_tx(n_in=n_in, n_out=n_out, value=7)
    # counts
    t = G.simple_tx(n_out=2); t["ins"] = []
    yield "no inputs", t
    yield "no outputs", G.simple_tx(n_in=2, n_out=0)
    t = G.simple_tx(n_out=0); t["ins"] = []
    yield "nothing", t
    # single values at every position
    vals = [0, 1, MAX - 1, MAX, MAX + 1, MAX + 2, -1, -MAX, 1 << 63, (1 << 64) - 1, 1 << 64, 21_000_000 * COIN, 21_000_000 * COIN + 1,
            105_000_000 * COIN, 105_000_000 * COIN + 1, 2 * MAX]
    for n_out in (1, 2, 3):
        for pos in range(n_out):
            for v in vals:
                t = G.simple_tx(n_out=n_out, value=0)
                t["outs"][pos]["value"] = v
                yield "value %d at %d/%d" % (v, pos, n_out), t
    # totals
    for n_out in range(2, 7):
        for total in (MAX - 1, MAX, MAX + 1):
            # crossing / reaching only at the last output
            t = G.simple_tx(n_out=n_out, value=1)
            t["outs"][0]["value"] = total - (n_out - 1)
            yield "total %d last, big first" % total, t
            t = G.simple_tx(n_out=n_out, value=1)
            t["outs"][-1]["value"] = total - (n_out - 1)
            yield "total %d last, big last" % total, t
            share = total // n_out
            t = G.simple_tx(n_out=n_out, value=share)
            t["outs"][-1]["value"] = total - share * (n_out - 1)
            yield "total %d equal shares" % total, t
            t = G.simple_tx(n_out=n_out, value=0)
            t["outs"][0]["value"] = MAX
            t["outs"][-1]["value"] = total - MAX if total >= MAX else 0
            yield "MAX then %d" % (total - MAX), t
        # a prefix above MAX in the middle (later outputs are zero)
        t = G.simple_tx(n_out=n_out + 1, value=0)
        t["outs"][0]["value"], t["outs"][1]["value"] = MAX, 1
        yield "prefix crosses at second of %d" % (n_out + 1), t
    # duplicates at every pair of positions
    for n_in in range(2, 7):
        for a, b in itertools.combinations(range(n_in), 2):
            t = G.simple_tx(n_in=n_in)
            _set_pt(t, b, (t["ins"][a]["prev"], t["ins"][a]["index"]))
            t["ins"][b]["script"], t["ins"][b]["sequence"] = b"\x01\x02", 5        # the outpoint is what counts
            yield "duplicate %d=%d of %d" % (a, b, n_in), t
            t = G.simple_tx(n_in=n_in)
            _set_pt(t, b, (t["ins"][a]["prev"], t["ins"][a]["index"] + 1000))      # same source tx, other output: fine
            yield "same hash, other index %d,%d of %d" % (a, b, n_in), t
            t = G.simple_tx(n_in=n_in)
            _set_pt(t, b, (b"\x99" * 32, t["ins"][a]["index"]))                    # same index, other tx: fine
            yield "same index, other hash %d,%d of %d" % (a, b, n_in), t
    t = G.simple_tx(n_in=2)
    _set_pt(t, 1, (t["ins"][0]["prev"], t["ins"][0]["index"]))
    t["ins"][1]["witness"] = [b"\x01"]
    yield "duplicate differing in witness", t
    # coinbase script lengths
    for L in (0, 1, 2, 3, 50, 99, 100, 101, 102, 0xfc, 0xfd, 1000):
        for seq in (0xffffffff, 0):
            t = _set_pt(G.simple_tx(script_len=L, value=50 * COIN), 0, NULL)
            t["ins"][0]["sequence"] = seq
            yield "coinbase script %d" % L, t
        t = _set_pt(G.simple_tx(script_len=L, n_out=3, value=1, witness=[b"\0" * 32]), 0, NULL)
        yield "coinbase script %d with witness" % L, t
    # null outpoint among siblings; near-null outpoints alone and among siblings
    for n_in in range(2, 5):
        for pos in range(n_in):
            yield "null outpoint at %d/%d" % (pos, n_in), _set_pt(G.simple_tx(n_in=n_in, script_len=4), pos, NULL)
            for pt in NEAR_NULL:
                yield "near-null %s:%x at %d/%d" % (pt[0][:1].hex() + pt[0][-1:].hex(), pt[1], pos, n_in), \
                    _set_pt(G.simple_tx(n_in=n_in, script_len=4), pos, pt)
        t = _set_pt(_set_pt(G.simple_tx(n_in=n_in), 0, NULL), n_in - 1, NULL)
        yield "two null outpoints", t
        t = _set_pt(_set_pt(G.simple_tx(n_in=n_in), 0, NEAR_NULL[0]), n_in - 1, NEAR_NULL[1])
        yield "two zero-hash outpoints, different indices", t
    for pt in NEAR_NULL:
        for L in (0, 1, 2, 50, 100, 101, 200):
            yield "near-null alone, script %d" % L, _set_pt(G.simple_tx(script_len=L), 0, pt)
    # moderately large but far from the limit
    yield "100k script", G.simple_tx(script_len=100_000)
    yield "300 in 300 out", G.simple_tx(n_in=300, n_out=300)


def size_cases(part):
    """sizes around the limit; part 0: no witness, part 1: with witness"""
    targets = (LIMIT - 1, LIMIT, LIMIT + 1)
    if part == 0:
        for tgt in targets:
            yield "total=stripped=%d in_script" % tgt, sized_tx(tgt, True, 0, "in_script")
            yield "total=stripped=%d out_script" % tgt, sized_tx(tgt, True, 0, "out_script")
            yield "total=stripped=%d many outputs" % tgt, sized_tx(tgt, True, 0, "in_script", n_in=3, n_out=2000)
        # exact-limit transactions that also contain elements sitting on the compact-size boundaries (length or count of
        # exactly 252 / 253 / 254 / 65535 / 65536): a size computed by adding up field sizes must agree with the bytes
        for tgt in targets:
            for edge in (252, 253, 254, 0xffff, 0x10000):
                t = sized_tx(tgt - 0, True, 0, "in_script", n_in=2, n_out=2)
                # second input's script and second output's script sit on the boundary; re-balance the padding
                t["ins"][1]["script"] = b"\x51" * edge
                t["outs"][1]["script"] = b"\x6a" * edge
                pad = len(t["ins"][0]["script"]) - (len(R.serialize(t, with_witness=False)) - tgt)
                if pad >= 0:
                    t["ins"][0]["script"] = b"\x51" * pad
                    for _ in range(6):
                        d_ = tgt - len(R.serialize(t, with_witness=False))
                        if d_ == 0:
                            break
                        t["ins"][0]["script"] = b"\x51" * (len(t["ins"][0]["script"]) + d_)
                    if len(R.serialize(t, with_witness=False)) == tgt:
                        yield "total=stripped=%d with %d-byte scripts" % (tgt, edge), t
            for count in (252, 253, 254):
                yield "total=stripped=%d with %d outputs" % (tgt, count), sized_tx(tgt, True, 0, "in_script", n_in=1, n_out=count)
                yield "total=stripped=%d with %d inputs" % (tgt, count), sized_tx(tgt, True, 0, "out_script", n_in=count, n_out=1)
        yield "total=stripped=%d coinbase-sized plain" % (LIMIT + 5000), sized_tx(LIMIT + 5000, True, 0)
        yield "total=stripped=2*LIMIT", sized_tx(2 * LIMIT, True, 0, "out_script")
    else:
        for tgt in targets:
            yield "total=%d with small witness" % tgt, sized_tx(tgt, False, 10, "in_script")
            yield "total=%d mostly witness" % tgt, sized_tx(tgt, False, 1, "witness", n_in=2)
            yield "stripped=%d plus witness" % tgt, sized_tx(tgt, True, 3000, "out_script")
            yield "stripped=%d plus one witness byte" % tgt, sized_tx(tgt, True, 1, "in_script", n_in=2)
        for tgt in targets:
            t = sized_tx(tgt, True, 0, "in_script", n_in=2)
            t["ins"][1]["witness"] = [b"\x33" * 253, b"\x44" * 252]
            yield "stripped=%d plus 253-byte witness items" % tgt, t
        yield "stripped small, total 1.2M", sized_tx(1_200_000, False, 1, "witness")
        yield "stripped=%d, witness 300k" % (LIMIT - 50_000), sized_tx(LIMIT - 50_000, True, 300_000, "in_script")


# ---------------------------------------------------------------------------------------------
# recipes: transactions of every SIZE class and KIND, described compactly (stored cases stay small and replayable).
# A recipe is {"n_in", "n_out", "order", "out_order", "wit", "coinbase", "script_len", "out_script_len", "tag", "edits": [...]};
# big_tx(recipe) is a pure function of it.

SIZE_CLASSES = [1, 2, 252, 253, 254, 1000, 1001, 2000, 5000]


def _h(tag, k, what=b"i"):
    return hashlib.sha256(b"c20|%s|%d|%d" % (what, tag, k)).digest()


def _fill(h, n):
    return (h * (n // 32 + 1))[:n]


def big_tx(rc):
    """the transaction a recipe describes: outpoints, scripts, sequences, witnesses, values are all different from one element to
    the next and in no particular order ("rand"), or listed in ascending / descending order of outpoint (inputs) or value (outputs)"""
    tag = rc.get("tag", 0)
    n_in, n_out = rc["n_in"], rc["n_out"]
    wit = rc.get("wit", "none")
    if rc.get("coinbase"):
        sl = rc.get("script_len", 4)
        h = _h(tag, 0)
        ins = [{"prev": G.NULL_HASH, "index": G.NULL_INDEX, "script": (b"\x03" + _fill(h, sl))[:sl], "sequence": 0xffffffff,
                "witness": [b"\0" * 32] if wit != "none" else []}]
    else:
        sl = rc.get("script_len", 1)
        ins = []
        for k in range(n_in):
            h = _h(tag, k)
            if (k // 2) % 3 == 0:
                # two inputs spending two outputs of one previous transaction (equal hashes, different indices, either order)
                g = _h(tag, k - k % 2, b"g")
                prev, index = g, g[0] + ((k % 2) ^ (g[2] & 1)) * (1 + g[1])
            else:
                prev, index = h, h[0] % 50
            w = []
            if wit == "all" or (wit == "odd" and k % 2) or (wit == "last" and k == n_in - 1) or (wit == "first" and k == 0):
                w = [h[:1 + k % 4], h[4:4 + k % 3]]
            ins.append({"prev": prev, "index": index, "script": _fill(h[8:] + h[:8], sl), "sequence": 0xffffffff - h[7] % 3, "witness": w})
        order = rc.get("order", "rand")
        if order in ("asc", "desc"):
            ins.sort(key=lambda i: (i["prev"], i["index"]), reverse=(order == "desc"))
    osl = rc.get("out_script_len", 25)
    outs = []
    for j in range(n_out):
        h = _h(tag, j, b"o")
        outs.append({"value": int.from_bytes(h[:3], "big"), "script": _fill(h[3:] + h[:3], osl)})
    out_order = rc.get("out_order", "rand")
    if out_order in ("asc", "desc"):
        outs.sort(key=lambda o: (o["value"], o["script"]), reverse=(out_order == "desc"))
    d = {"version": 1 + tag % 2, "ins": ins, "outs": outs, "lock_time": tag % 3}
    alias = apply_edits(d, rc.get("edits") or [])
    return d, alias


def _pad_to(d, target, stripped, where, pos):
    """re-size one script / witness item so that the (stripped or total) reference size is exactly `target`"""
    def size():
        return len(R.serialize(d, with_witness=not stripped))

    def cur():
        if where == "in_script":
            return len(d["ins"][pos]["script"])
        if where == "out_script":
            return len(d["outs"][pos]["script"])
        w = d["ins"][pos]["witness"]
        return len(w[0]) if w else 0

    def setpad(n):
        if where == "in_script":
            d["ins"][pos]["script"] = b"\x51" * n
        elif where == "out_script":
            d["outs"][pos]["script"] = b"\x6a" * n
        else:
            d["ins"][pos]["witness"] = [b"\x33" * n] + list(d["ins"][pos]["witness"][1:])
    n = cur()
    for _ in range(12):
        delta = target - size()
        if delta == 0:
            return
        n += delta
        if n < 0:
            raise AssertionError("cannot shrink to size %d" % target)
        setpad(n)
    raise AssertionError("cannot hit size %d" % target)


def _fresh_in(k):
    h = _h(999, k, b"x")
    return {"prev": h, "index": k % 11, "script": b"\x51", "sequence": 0xfffffffe, "witness": []}


def apply_edits(d, edits):
    """edit one field (or one element) at a time; returns the pairs of input positions that must hold the same TxIn object"""
    alias = []
    for e in edits:
        op = e[0]
        if op == "value":
            d["outs"][e[1]]["value"] = e[2]
        elif op == "values_all":
            for o in d["outs"]:
                o["value"] = e[1]
        elif op == "dup":           # input e[2] spends the outpoint of input e[1] (everything else about it stays different)
            d["ins"][e[2]]["prev"], d["ins"][e[2]]["index"] = d["ins"][e[1]]["prev"], d["ins"][e[1]]["index"]
        elif op == "sibling":       # input e[2] spends ANOTHER output of the transaction input e[1] spends
            d["ins"][e[2]]["prev"], d["ins"][e[2]]["index"] = d["ins"][e[1]]["prev"], d["ins"][e[1]]["index"] + 1000 + e[2]
        elif op == "alias":         # the same input object listed at both positions
            a, b = e[1] % len(d["ins"]), e[2] % len(d["ins"])
            d["ins"][b] = dict(d["ins"][a], witness=list(d["ins"][a]["witness"]))
            alias.append((a, b))
        elif op == "null":
            _set_pt(d, e[1], NULL)
        elif op == "nearnull":
            _set_pt(d, e[1], NEAR_NULL[e[2]])
        elif op == "in_script":
            d["ins"][e[1]]["script"] = b"\x51" * e[2]
        elif op == "out_script":
            d["outs"][e[1]]["script"] = b"\x6a" * e[2]
        elif op == "witness":
            d["ins"][e[1]]["witness"] = [b"\x33" * n for n in e[2]]
        elif op == "append_ins":    # e[1] more ordinary inputs after the existing ones
            base = len(d["ins"])
            d["ins"].extend(_fresh_in(base + k) for k in range(e[1]))
        elif op == "insert_null":   # an input with the null outpoint and an e[2]-byte script at position e[1]
            d["ins"].insert(e[1], {"prev": G.NULL_HASH, "index": G.NULL_INDEX, "script": b"\x52" * e[2], "sequence": 0xffffffff, "witness": []})
        elif op == "swap_in":
            d["ins"][e[1]], d["ins"][e[2]] = d["ins"][e[2]], d["ins"][e[1]]
        elif op == "drop_ins":
            d["ins"] = []
        elif op == "drop_outs":
            d["outs"] = []
        elif op == "pad":
            _pad_to(d, e[1], bool(e[2]), e[3], e[4])
        else:
            raise AssertionError("unknown edit %r" % (e,))
    return alias


def _rc(base, edits=(), **kw):
    r = dict(base)
    r.update(kw)
    r["edits"] = [list(e) for e in edits]
    return r


def _positions(n):
    return sorted({0, n // 2, n - 1}) if n else []


def purity_recipes(classes, rejected=True, full=True):
    """SIZE classes: every input count / output count class x order of the elements x witness, well-formed (check returns) and with one
    defect that is only found late in check() (check raises); yields (label, recipe, unspents mode)"""
    umodes = ["full", "holes", False, "short"]
    k = 0
    for n in classes:
        # many inputs
        for order in ("rand", "asc", "desc"):
            for wit in ("none", "odd"):
                if not full and (order, wit) in (("desc", "odd"), ("asc", "odd"), ("desc", "none")):
                    continue
                k += 1
                yield "inputs=%d %s wit=%s" % (n, order, wit), _rc({"n_in": n, "n_out": 2, "order": order, "wit": wit, "tag": n + k}), umodes[k % 4]
        # many outputs
        for out_order in ("rand", "asc", "desc"):
            k += 1
            yield "outputs=%d %s" % (n, out_order), _rc({"n_in": 1 + k % 2, "n_out": n, "out_order": out_order, "wit": ("none", "all")[k % 2], "tag": n + k}), umodes[k % 4]
        if n >= 1000 and n <= 2000:
            k += 1
            yield "inputs=outputs=%d" % n, _rc({"n_in": n, "n_out": n, "wit": "last", "tag": n + k}), "full"
        if not rejected:
            continue
        base = {"n_in": n, "n_out": 3, "wit": "odd" if n % 2 else "none", "tag": n}
        obase = {"n_in": 2, "n_out": n, "tag": n + 1}
        rej = []
        if n >= 2:
            rej += [("dup first/last", base, [["dup", 0, n - 1]]), ("dup neighbours", base, [["dup", n // 2, n // 2 - 1]]),
                    ("same object twice", base, [["alias", n // 3, n - 1]]), ("null outpoint last", base, [["null", n - 1]]),
                    ("null outpoint first", base, [["null", 0], ["in_script", 0, 4]])]
        rej += [("oversize", base, [["in_script", n // 2, LIMIT]]), ("value last", obase, [["value", n - 1, -1]]),
                ("value first", obase, [["value", 0, MAXES["GRS"] + 1]]),
                ("total at last", obase, [["value", 0, MAXES["GRS"]], ["value", n - 1, 1]] if n > 1 else [["value", 0, -5]]),
                ("no outputs", base, [["drop_outs"]]), ("oversize outputs", obase, [["out_script", n // 2, LIMIT]])]
        for label, b, edits in rej:
            if not full and label in ("dup neighbours", "null outpoint first", "value first", "no outputs", "oversize") or (
                    not full and n >= 5000 and label == "null outpoint last"):
                continue
            k += 1
            yield "%s of %d" % (label, n), _rc(b, edits), umodes[k % 4]


KINDS = {
    "coinbase": {"n_in": 1, "n_out": 2, "coinbase": True, "tag": 1},
    "coinbase_wit": {"n_in": 1, "n_out": 3, "coinbase": True, "wit": "all", "tag": 2},
    "coinbase_manyout": {"n_in": 1, "n_out": 1001, "coinbase": True, "tag": 3},
    "plain": {"n_in": 2, "n_out": 2, "tag": 4},
    "segwit": {"n_in": 3, "n_out": 2, "wit": "all", "tag": 5},
    "segwit_partial": {"n_in": 4, "n_out": 2, "wit": "odd", "tag": 6},
    "manyin": {"n_in": 1001, "n_out": 2, "tag": 7},
    "manyin_segwit": {"n_in": 1002, "n_out": 2, "wit": "odd", "tag": 8},
    "manyin_sorted": {"n_in": 1500, "n_out": 2, "order": "asc", "tag": 9},
    "manyout": {"n_in": 2, "n_out": 1001, "tag": 10},
    "manyinout": {"n_in": 1001, "n_out": 1001, "wit": "last", "tag": 11},
}
# kinds whose size comes from the NUMBER of elements (about 986,000 bytes before padding)
SIZE_KINDS = {
    "coinbase_29000out": {"n_in": 1, "n_out": 29000, "coinbase": True, "tag": 21},
    "coinbase_wit_29000out": {"n_in": 1, "n_out": 29000, "coinbase": True, "wit": "all", "tag": 22},
    "29000out": {"n_in": 2, "n_out": 29000, "tag": 23},
    "segwit_29000out": {"n_in": 2, "n_out": 29000, "wit": "all", "tag": 24},
    "5000in": {"n_in": 5000, "n_out": 2, "script_len": 150, "tag": 25},
    "5000in_segwit": {"n_in": 5000, "n_out": 2, "script_len": 150, "wit": "odd", "tag": 26},
}
TARGETS = (LIMIT - 1, LIMIT, LIMIT + 1)


def kind_recipes(kind, MAX, light=False):
    """every defect class of the statement on one KIND of transaction; yields (label, recipe)"""
    base = KINDS[kind]
    n_in, n_out, cb = base["n_in"], base["n_out"], bool(base.get("coinbase"))
    has_wit = base.get("wit", "none") != "none"
    yield "wellformed", _rc(base)
    # counts
    yield "no inputs", _rc(base, [["drop_ins"]])
    yield "no outputs", _rc(base, [["drop_outs"]])
    yield "nothing", _rc(base, [["drop_ins"], ["drop_outs"]])
    # single values
    for pos in (_positions(n_out) if not light else [n_out - 1]):
        for v in ((0, MAX, MAX + 1, -1, 1 << 63, 1 << 64) if not light else (MAX, MAX + 1, -1)):
            yield "only value %d at %d" % (v, pos), _rc(base, [["values_all", 0], ["value", pos, v]])
        yield "value MAX at %d among others" % pos, _rc(base, [["value", pos, MAX]])
    # totals
    for pos in ((0, n_out - 1) if not light else (n_out - 1,)):
        for over in (0, 1):
            yield "total MAX+%d big at %d" % (over, pos), _rc(base, [["values_all", 1], ["value", pos, MAX - (n_out - 1) + over]])
    yield "total crosses in the middle", _rc(base, [["values_all", 0], ["value", 0, MAX], ["value", n_out // 2, 1]])
    # outpoints
    if cb:
        for L in (0, 1, 2, 3, 100, 101, 253):
            yield "coinbase script %d" % L, _rc(base, [["in_script", 0, L]])
        yield "second null input", _rc(base, [["insert_null", 1, 4]])
        yield "null input before", _rc(base, [["insert_null", 0, 200]])
        for more in (1, 2, 1000, 1001) if not light else (1, 1001):
            yield "coinbase-shaped first input + %d" % more, _rc(base, [["append_ins", more]])
            yield "coinbase-shaped first input + %d, one spent twice" % more, _rc(base, [["append_ins", more + 1], ["dup", 1, -1]])
        for j in range(len(NEAR_NULL)):
            yield "near-null single %d" % j, _rc(base, [["nearnull", 0, j]])
            yield "near-null single %d, long script" % j, _rc(base, [["nearnull", 0, j], ["in_script", 0, 150]])
    else:
        pairs = sorted({(0, n_in - 1), (n_in - 1, 0), (n_in // 2, n_in // 2 - 1), (n_in - 2, n_in - 1), (0, 1)} - {(0, 0), (-1, 0)})
        for a, b in pairs:
            if 0 <= a < n_in and 0 <= b < n_in and a != b:
                yield "dup %d->%d" % (a, b), _rc(base, [["dup", a, b]])
        yield "same object twice", _rc(base, [["alias", 0, n_in - 1]])
        yield "same object twice, neighbours", _rc(base, [["alias", n_in // 2, n_in // 2 - 1]])
        yield "three times one outpoint", _rc(base, [["append_ins", 1], ["dup", 0, n_in - 1], ["dup", 0, -1]])
        for pos in (_positions(n_in) if not light else [n_in - 1]):
            yield "null at %d" % pos, _rc(base, [["null", pos]])
            yield "null at %d, coinbase-like script" % pos, _rc(base, [["null", pos], ["in_script", pos, 4]])
            for j in (range(len(NEAR_NULL)) if not light else (0, 3)):
                yield "near-null %d at %d" % (j, pos), _rc(base, [["nearnull", pos, j]])
        if n_in >= 3:
            # (h,i) (h,j) (h,i): another output of the same previous transaction between the two spends of one outpoint
            yield "dup around a sibling output", _rc(base, [["sibling", 0, 1], ["dup", 0, 2]])
            yield "dup around a sibling output, far", _rc(base, [["sibling", 0, n_in // 2], ["dup", 0, n_in - 1]])
            yield "sibling outputs only", _rc(base, [["sibling", 0, 1], ["sibling", 0, n_in - 1]])
        yield "two nulls", _rc(base, [["null", 0], ["null", n_in - 1]])
        yield "null + value", _rc(base, [["null", n_in - 1], ["value", n_out - 1, MAX + 1]])
        yield "coinbase-shaped first input", _rc(base, [["null", 0], ["in_script", 0, 4]])
        for L in ((0, 1, 101) if not light else ()):
            yield "first script %d" % L, _rc(base, [["in_script", 0, L]])
    # sizes
    for tgt in TARGETS:
        if cb:
            wheres = [("out_script", 0), ("out_script", -1)]
        elif light:
            wheres = [("in_script", n_in // 2)]
        else:
            wheres = [("in_script", 0), ("in_script", -1), ("out_script", -1)]
        for where, pos in wheres:
            yield "stripped=%d %s[%d]" % (tgt, where, pos), _rc(base, [["pad", tgt, 1, where, pos]])
            if has_wit:
                yield "total=%d %s[%d]" % (tgt, where, pos), _rc(base, [["pad", tgt, 0, where, pos]])
        if has_wit:
            wpos = 0 if cb else (n_in - 1)
            yield "total=%d witness" % tgt, _rc(base, [["pad", tgt, 0, "witness", wpos]])
            yield "stripped=%d witness 40k" % tgt, _rc(base, [["witness", wpos, [40000]], ["pad", tgt, 1, "out_script", 0]])
        else:
            # the same transaction given a witness afterwards: witness bytes do not count
            yield "stripped=%d then witness" % tgt, _rc(base, [["pad", tgt, 1, "out_script", 0], ["witness", 0, [7, 0, 300]]])
    if cb:
        yield "oversize + short script", _rc(base, [["pad", LIMIT + 1, 1, "out_script", 0], ["in_script", 0, 1]])
        yield "2 MB", _rc(base, [["out_script", 0, 2 * LIMIT]])


def size_kind_recipes(kind):
    base = SIZE_KINDS[kind]
    cb = bool(base.get("coinbase"))
    has_wit = base.get("wit", "none") != "none"
    for tgt in TARGETS:
        where = ("out_script", -1) if (cb or "out" in kind) else ("in_script", 2500)
        yield "stripped=%d" % tgt, _rc(base, [["pad", tgt, 1, where[0], where[1]]])
        if has_wit:
            yield "total=%d" % tgt, _rc(base, [["pad", tgt, 0, where[0], where[1]]])


def count_edge_recipes(tier):
    """an output COUNT on the 16-bit compact-size boundary (65535 / 65536 / 65537 outputs of 9 bytes: 590 kB) at the size limit"""
    jobs = [(0xffff, LIMIT), (0xffff, LIMIT + 1), (0x10000, LIMIT), (0x10000, LIMIT + 1), (0x10001, LIMIT)]
    if tier != "quick":
        jobs += [(0x10001, LIMIT + 1), (0xffff, LIMIT - 1), (0x10000, LIMIT - 1), (0xfffe, LIMIT), (0xfffe, LIMIT + 1)]
    for n_out, tgt in jobs:
        yield "outputs=%d stripped=%d" % (n_out, tgt), _rc({"n_in": 2, "n_out": n_out, "out_script_len": 0, "tag": n_out}, [["pad", tgt, 1, "in_script", 1]])


def _run_recipe(net, T, rc, rec, label, unspents=False, second=False, via="attr", cell=None, full_snapshot=True):
    d, alias = big_tx(rc)
    case = {"net": net, "label": label, "recipe": rc, "unspents": unspents or None, "second": bool(second)}
    return _check_one(net, T, d, rec, label=label, with_unspents=unspents, case=case, alias=alias, second=second, via=via, cell=cell,
                      full_snapshot=full_snapshot)


# ---------------------------------------------------------------------------------------------
# one big live object, edited in place one field at a time between check() calls

LIVE_OPS = ["dup", "null", "alias_append", "swap", "sort", "reverse", "value_hi", "value_neg", "big_out_script", "witness", "relist",
            "pop_out_all", "unspents_short", "coinbase_first", "hash_zero", "index_only"]


def _apply_live(T, tx, op, MAX):
    """apply one edit to the live object; returns the undo closure"""
    name = op[0]
    ins, outs = tx.txs_in, tx.txs_out
    if name == "dup":
        a, b = op[1] % len(ins), op[2] % len(ins)
        old = (ins[b].previous_hash, ins[b].previous_index)
        ins[b].previous_hash, ins[b].previous_index = ins[a].previous_hash, ins[a].previous_index

        def undo():
            ins[b].previous_hash, ins[b].previous_index = old
    elif name in ("null", "coinbase_first"):
        b = 0 if name == "coinbase_first" else op[1] % len(ins)
        old = (ins[b].previous_hash, ins[b].previous_index, ins[b].script)
        ins[b].previous_hash, ins[b].previous_index = G.NULL_HASH, G.NULL_INDEX
        if name == "coinbase_first":
            ins[b].script = b"\x03abc"

        def undo():
            ins[b].previous_hash, ins[b].previous_index, ins[b].script = old
    elif name == "hash_zero":          # only the hash of one input (its index stays): a near-null outpoint, not a defect
        b = op[1] % len(ins)
        old = ins[b].previous_hash
        ins[b].previous_hash = G.NULL_HASH

        def undo():
            ins[b].previous_hash = old
    elif name == "index_only":         # only the index of one input (makes the null outpoint out of a zero-hash one, or unmakes it)
        b = op[1] % len(ins)
        old = ins[b].previous_index
        ins[b].previous_index = op[2]

        def undo():
            ins[b].previous_index = old
    elif name == "alias_append":
        ins.append(ins[op[1] % len(ins)])

        def undo():
            ins.pop()
    elif name == "swap":
        a, b = op[1] % len(ins), op[2] % len(ins)
        ins[a], ins[b] = ins[b], ins[a]

        def undo():
            ins[a], ins[b] = ins[b], ins[a]
    elif name in ("sort", "reverse"):
        saved = list(ins)
        if name == "sort":
            ins.sort(key=lambda t: (t.previous_hash, t.previous_index))
        else:
            ins.reverse()

        def undo():
            ins[:] = saved
    elif name in ("value_hi", "value_neg"):
        j = op[1] % len(outs)
        old = outs[j].coin_value
        outs[j].coin_value = MAX + 1 if name == "value_hi" else -1

        def undo():
            outs[j].coin_value = old
    elif name == "big_out_script":
        j = op[1] % len(outs)
        old = outs[j].script
        outs[j].script = b"\x6a" * op[2]

        def undo():
            outs[j].script = old
    elif name == "witness":
        b = op[1] % len(ins)
        old = ins[b].witness
        ins[b].witness = [b"\x30" * 72, b"\x02" * 33]

        def undo():
            ins[b].witness = old
    elif name == "relist":
        tx.txs_in = list(ins)

        def undo():
            pass
    elif name == "pop_out_all":
        saved = list(outs)
        del outs[:]

        def undo():
            outs[:] = saved
    elif name == "unspents_short":
        old = tx.unspents
        tx.unspents = list(old[:-1])

        def undo():
            tx.unspents = old
    else:
        raise AssertionError("unknown live op %r" % (op,))
    return undo


def big_history(net, T, rc, ops, rec, unspents="full"):
    """ops: live edits and ["undo"] entries (undo the latest edit); after every entry check() is judged on the object's CURRENT
    fields, with full before/after snapshots"""
    MAX = MAXES[net]
    d, alias = big_tx(rc)
    tx = G.to_pycoin(T, d)
    _attach_unspents(T, tx, unspents)
    done = []
    case = {"net": net, "live": {"recipe": rc, "unspents": unspents, "ops": done}}
    state = {}
    _judge_live(net, T, tx, rec, ["build"], case=case, state=state)
    undo = None
    for op in ops:
        if op[0] == "undo":
            if undo is None:
                continue
            undo()
            undo = None
        else:
            undo = _apply_live(T, tx, op, MAX)
        done.append(list(op))
        _judge_live(net, T, tx, rec, ["n_in=%d" % rc["n_in"]] + [o[0] for o in done[-3:]], case=case, state=state)


def _rand_live_ops(rng, n_in, n_steps):
    ops = []
    for _ in range(n_steps):
        name = rng.choice(LIVE_OPS)
        if name in ("dup", "swap"):
            a, b = rng.sample(range(n_in), 2)
            if rng.random() < 0.3:
                a, b = 0, n_in - 1
            ops.append([name, a, b])
        elif name == "big_out_script":
            ops.append([name, rng.randrange(3), rng.choice([LIMIT, 2000, LIMIT - n_in * 150])])
        elif name in ("sort", "reverse", "relist", "pop_out_all", "unspents_short", "coinbase_first"):
            ops.append([name])
        elif name == "hash_zero":
            # three edits of ONE input: hash only, then index only (now the null outpoint), then index only again
            b = rng.randrange(n_in)
            ops += [[name, b], ["index_only", b, G.NULL_INDEX], ["index_only", b, rng.choice([0, 0xfffffffe, 3])]]
            continue
        elif name == "index_only":
            ops.append([name, rng.randrange(n_in), rng.choice([G.NULL_INDEX, 0, 77])])
        else:
            ops.append([name, rng.randrange(n_in)])
        if name not in ("sort", "reverse", "relist", "swap") or rng.random() < 0.3:
            ops.append(["undo"])
    return ops


def _rand_count(rng, lo):
    """element counts of the random workload: mostly a handful; 240..300 (around the compact-size boundary of the count) in about
    1.5 % of the draws - the SIZE classes and KINDS workloads are where large transactions are covered systematically"""
    r = rng.random()
    if r < 0.005:
        return rng.choice(G.COUNT_EDGES[2:])
    if r < 0.015:
        return rng.randrange(240, 270)
    return max(lo, rng.choice([0, 1, 1, 1, 2, 2, 3, 4, 5, 8, rng.randrange(0, 20)]))


def _wellformed_random(rng, MAX):
    d = G.rand_tx(rng, n_in=_rand_count(rng, 1), n_out=_rand_count(rng, 0), distinct_outpoints=True)
    if not d["outs"]:
        d["outs"] = [{"value": 1, "script": b""}]
    left = MAX
    for o in d["outs"]:
        r = rng.random()
        v = 0 if r < 0.2 else 1 if r < 0.3 else left if r < 0.36 else rng.randrange(0, left + 1) if r < 0.6 else rng.randrange(0, min(left, 10 ** 10) + 1)
        v = min(v, left)
        o["value"] = v
        left -= v
    return d


VIAS = ["attr", "attr", "attr", "from_bin", "attr", "tuple", "attr", "set_witness", "attr", "from_bin", "attr"]
DEFECT_KINDS = ["value_hi", "value_neg", "total", "dup", "coinbase_short", "coinbase_long", "null_in_multi", "no_in", "no_out"]
BENIGN_KINDS = ["none", "none", "coinbase_ok", "near_null", "near_null_single", "same_hash", "fill_to_max", "reorder"]


def _inject(d, kind, rng, MAX):
    n_in, n_out = len(d["ins"]), len(d["outs"])
    if kind == "value_hi":
        d["outs"][rng.randrange(n_out)]["value"] = rng.choice([MAX + 1, MAX + 2, 1 << 63, (1 << 64) - 1, 1 << 64, MAX * 2])
    elif kind == "value_neg":
        d["outs"][rng.randrange(n_out)]["value"] = rng.choice([-1, -2, -MAX, -(1 << 63)])
    elif kind == "total":
        if n_out < 2:
            d["outs"].append({"value": 0, "script": b"\x51"})
        s = sum(o["value"] for o in d["outs"][:-1])
        d["outs"][-1]["value"] = MAX - s + rng.choice([1, 1, 2, 1000])
        if d["outs"][-1]["value"] > MAX:       # would be a single-value defect instead; spread it
            d["outs"][0]["value"] += 1
            d["outs"][-1]["value"] = MAX
    elif kind == "dup":
        if n_in < 2:
            d["ins"].append(dict(d["ins"][0], script=b"\x00"))
        else:
            a, b = rng.sample(range(n_in), 2)
            d["ins"][b]["prev"], d["ins"][b]["index"] = d["ins"][a]["prev"], d["ins"][a]["index"]
    elif kind in ("coinbase_short", "coinbase_long", "coinbase_ok"):
        d["ins"] = d["ins"][:1]
        _set_pt(d, 0, NULL)
        L = {"coinbase_short": rng.choice([0, 1]), "coinbase_long": rng.choice([101, 102, 253, rng.randrange(101, 3000)]),
             "coinbase_ok": rng.choice([2, 3, 100, 99, rng.randrange(2, 101)])}[kind]
        d["ins"][0]["script"] = G.rbytes(rng, L)
    elif kind == "null_in_multi":
        if n_in < 2:
            d["ins"].append({"prev": G.rbytes(rng, 32), "index": 1, "script": b"", "sequence": 0, "witness": []})
        _set_pt(d, rng.randrange(len(d["ins"])), NULL)
    elif kind == "no_in":
        d["ins"] = []
    elif kind == "no_out":
        d["outs"] = []
    elif kind == "near_null":
        _set_pt(d, rng.randrange(n_in), rng.choice(NEAR_NULL[:3] + [(G.NULL_HASH, rng.getrandbits(32) % 0xffffffff)] + NEAR_NULL[3:]))
    elif kind == "near_null_single":
        d["ins"] = d["ins"][:1]
        _set_pt(d, 0, rng.choice(NEAR_NULL))
        d["ins"][0]["script"] = G.rbytes(rng, rng.choice([0, 1, 2, 50, 100, 101, 150]))
    elif kind == "same_hash":
        if n_in >= 2:
            a, b = rng.sample(range(n_in), 2)
            d["ins"][b]["prev"] = d["ins"][a]["prev"]
            if d["ins"][b]["index"] == d["ins"][a]["index"]:
                d["ins"][b]["index"] ^= 1
    elif kind == "fill_to_max":
        s = sum(o["value"] for o in d["outs"][:-1])
        d["outs"][-1]["value"] = MAX - s
    elif kind == "reorder":
        d["ins"].sort(key=lambda i: i["prev"], reverse=True)
    return d


def _judge_live(net, T, tx, rec, hist, case=None, state=None):
    """check() on a live object against the defect predicate of its CURRENT fields, with before/after snapshots.
    state: dict kept by the caller for one object; used to count verdict changes along the history"""
    d = G.from_pycoin(tx)
    MAX = MAXES[net]
    ser = serialisable(d)
    stripped_size, total_size = sizes(d) if ser else (None, None)
    dfx = defects(d, MAX, stripped_size)
    before = _snapshot(tx)
    rec.ev("Tx.check(history)")
    st, r = observe(tx.check)
    diff = _snap_diff(before, _snapshot(tx))
    if case is None:
        case = {"net": net, "history": list(hist), "final_shape": [len(d["ins"]), len(d["outs"]), total_size]}
    rec.case((net, "hist", tuple(hist[-6:]), tuple(dfx), total_size if (total_size or 0) > 900000 else 0))
    path = "returning" if st == "ok" else "raising"
    rec.ev("purity_snapshot(history)." + path)
    rec.ev("purity_snapshot(history).%s.elements_%s" % (path, _size_class(d)))
    if diff:
        rec.violation("history.check_mutates_tx.%s_path" % path, case, diff, "unchanged")
    want = None
    if dfx:
        want = "reject"
        rec.ev("history.expected_reject." + dfx[0])
        if st == "ok":
            rec.violation("history.check_accepts_defective." + dfx[0], dict(case, defects=dfx), "returned", "raise")
    elif total_size is not None and total_size <= LIMIT:
        want = "accept"
        rec.ev("history.expected_accept")
        if zero_hash_non_null(d):
            rec.ev("history.expected_accept.zero_hash_non_null")
        if st != "ok":
            # (the key of F20-a when the zero-hash-but-not-null outpoint is what is left of an edit; same root cause)
            rec.violation("null_outpoint.index_ignored" if zero_hash_non_null(d) else "history.check_rejects_wellformed",
                          dict(case, api="check(history)"), r, "return")
    else:
        rec.ev("history.undecided")
    if state is not None:
        prev = state.get("want")
        if prev and want and prev != want:
            rec.ev("history.expected_verdict_changes.%s_to_%s" % (prev, want))
        if want == "reject" and state.get("defect") not in (None, dfx[0]) and prev == "reject":
            rec.ev("history.expected_defect_changes")
        state["want"], state["defect"] = want, (dfx[0] if dfx else None)


SMALL_OPS = ["grow_script", "shrink_script", "add_out", "pop_out", "value_hi", "value_ok", "dup_in", "undup_in", "null_in", "unnull_in", "big_witness",
             "grow_out_script", "zero_hash_in", "index_in", "index_in"]


def _pick_small_op(rng, tx, MAX):
    """one concrete in-place edit (name + parameters), or None when it does not apply to the object as it is now"""
    e = rng.choice(SMALL_OPS)
    if e == "grow_script":
        return [e, rng.choice([LIMIT - 200, LIMIT, LIMIT + 10])]
    if e == "shrink_script":
        return [e, rng.choice([0, 5, 100])]
    if e == "grow_out_script":
        return [e, rng.choice([LIMIT - 300, LIMIT + 1])]
    if e == "add_out":
        return [e, rng.choice([0, 1, MAX, MAX + 1, 5000])]
    if e == "pop_out":
        return [e] if len(tx.txs_out) > 1 else None
    if e == "value_hi":
        return [e, rng.choice([MAX + 1, MAX, -1])]
    if e == "value_ok":
        return [e, [rng.choice([0, 1, 1000]) for _ in tx.txs_out]]
    if e in ("dup_in", "null_in", "zero_hash_in"):
        return [e, rng.randrange(len(tx.txs_in))]
    if e == "index_in":
        return [e, rng.randrange(len(tx.txs_in)), rng.choice([G.NULL_INDEX, G.NULL_INDEX, 0, 0xfffffffe, 7])]
    if e == "undup_in":
        return [e] if len(tx.txs_in) > 1 else None
    if e == "big_witness":
        return [e, rng.choice([10, LIMIT])]
    return [e]


def _apply_small(T, tx, op):
    e = op[0]
    if e == "grow_script" or e == "shrink_script":
        tx.txs_in[0].script = b"\x51" * op[1]
    elif e == "grow_out_script":
        tx.txs_out[-1].script = b"\x6a" * op[1]
    elif e == "add_out":
        tx.txs_out.append(T.TxOut(op[1], b"\x51"))
    elif e == "pop_out":
        tx.txs_out.pop()
    elif e == "value_hi":
        tx.txs_out[0].coin_value = op[1]
    elif e == "value_ok":
        for o, v in zip(tx.txs_out, op[1]):
            o.coin_value = v
    elif e == "dup_in":
        t0 = tx.txs_in[op[1]]
        tx.txs_in.append(T.TxIn(t0.previous_hash, t0.previous_index, b"\x51", 7))
    elif e == "undup_in":
        tx.txs_in.pop()
    elif e == "null_in":
        tx.txs_in[op[1]].previous_hash, tx.txs_in[op[1]].previous_index = G.NULL_HASH, G.NULL_INDEX
    elif e == "zero_hash_in":      # only the hash: (0..0, whatever index the input had)
        tx.txs_in[op[1]].previous_hash = G.NULL_HASH
    elif e == "index_in":          # only the index
        tx.txs_in[op[1]].previous_index = op[2]
    elif e == "unnull_in":
        for k, ti in enumerate(tx.txs_in):
            if ti.previous_hash == G.NULL_HASH:
                ti.previous_hash = bytes([k + 1]) * 32
    elif e == "big_witness":
        tx.txs_in[0].witness = [b"\x00" * op[1]]
    else:
        raise AssertionError("unknown op %r" % (op,))


def small_history(net, T, d, steps, rec, rng=None, n_steps=0):
    """one Tx object, edited in place between check() calls: the verdict must follow the object's current fields. `steps` are replayed;
    with an rng, n_steps more are drawn."""
    MAX = MAXES[net]
    tx = G.to_pycoin(T, d)
    done = []
    case = {"net": net, "start": G.pack(d), "steps": done}
    state = {}
    _judge_live(net, T, tx, rec, [], case=case, state=state)
    todo = [list(op) for op in steps]
    for k in range(len(todo) + n_steps):
        op = todo[k] if k < len(todo) else _pick_small_op(rng, tx, MAX)
        if op is None:
            continue
        _apply_small(T, tx, op)
        done.append(op)
        _judge_live(net, T, tx, rec, [o[0] for o in done], case=case, state=state)


def scripted_histories(MAX):
    """fixed edit sequences on one live object: every defect class appears and disappears again, the null outpoint is made and unmade
    by editing only the index resp. only the hash of an input, a coinbase's script moves over both length limits; yields (start, steps)"""
    yield G.simple_tx(n_in=2, n_out=2, script_len=3), [
        ["null_in", 0], ["index_in", 0, 0], ["index_in", 0, G.NULL_INDEX], ["index_in", 0, 0xfffffffe], ["unnull_in"],
        ["zero_hash_in", 1], ["index_in", 1, G.NULL_INDEX], ["index_in", 1, 7], ["index_in", 0, 7], ["zero_hash_in", 0], ["unnull_in"],
        ["dup_in", 0], ["undup_in"], ["value_hi", MAX + 1], ["value_hi", MAX], ["add_out", 1], ["pop_out"], ["value_ok", [MAX - 1, 1]],
        ["value_ok", [MAX, 1]], ["value_ok", [0, 0]], ["pop_out"], ["pop_out"], ["add_out", 5],
        ["grow_script", LIMIT + 10], ["shrink_script", 5], ["big_witness", LIMIT], ["big_witness", 10], ["grow_out_script", LIMIT + 1],
        ["grow_out_script", 4]]
    yield G.simple_tx(n_in=1, n_out=1, script_len=0), [
        ["null_in", 0], ["shrink_script", 2], ["shrink_script", 1], ["shrink_script", 100], ["shrink_script", 101], ["shrink_script", 50],
        ["index_in", 0, 0], ["shrink_script", 101], ["index_in", 0, G.NULL_INDEX], ["shrink_script", 100], ["grow_out_script", LIMIT + 1],
        ["grow_out_script", 0], ["dup_in", 0], ["undup_in"], ["undup_in"]]


def history_cases(net, T, rng, rec, n):
    MAX = MAXES[net]
    for d, steps in scripted_histories(MAX):
        small_history(net, T, d, steps, rec)
    for _ in range(n):
        d = _wellformed_random(rng, MAX)
        if not d["ins"] or not d["outs"]:
            continue
        small_history(net, T, d, [], rec, rng=rng, n_steps=rng.randrange(2, 7))


# ---------------------------------------------------------------------------------------------
# flavours: field values that are equal (==, and hash() where hashable) to the plain bytes / int of the dict but of another type or from
# another producer. The statement speaks of "the same outpoint", "the null outpoint", values and totals - all of them by value.

# producers of the outpoint hash of one input
CORE_HASH_FLAVOURS = ["bytes", "hash()", "parsed", "spendable", "from_text", "from_dict", "revhex", "as_hex", "subclass"]
OPTIONAL_HASH_FLAVOURS = ["bytearray", "memoryview"]           # taken by TxIn today; nothing promises it
HASH_FLAVOURS = CORE_HASH_FLAVOURS + OPTIONAL_HASH_FLAVOURS
INDEX_FLAVOURS = ["int", "intsub", "intenum", "bool"]          # bool only for 0 / 1
SCRIPT_FLAVOURS = ["bytes", "bytearray"]
PLAIN = ["bytes", "int", "bytes"]


class _HashSub(bytes):
    """a caller's own bytes subclass: prints as something else than bytes do"""
    def __str__(self):
        return "<txid %02x..>" % (self[31] if len(self) > 31 else 0)
    __repr__ = __str__

    def __format__(self, spec):
        return str(self)


class _IntSub(int):
    """a caller's own int subclass (as IntEnum members, numpy-like scalars): prints as something else than ints do"""
    def __str__(self):
        return "vout#%d" % int(self)
    __repr__ = __str__


_ENUMS = {}


def _int_flavour(xf, v):
    if xf == "int":
        return int(v)
    if xf == "intsub":
        return _IntSub(v)
    if xf == "intenum":
        if v not in _ENUMS:
            import enum
            _ENUMS[v] = enum.IntEnum("Vout", {"n": v}).n
        return _ENUMS[v]
    if xf == "bool":
        assert v in (0, 1), "bool flavour asked for %r" % (v,)
        return bool(v)
    raise AssertionError("unknown int flavour %r" % (xf,))


def _hash_value(T, hf, prev):
    """the 32 bytes `prev` as the object of flavour hf (for the flavours that are a type rather than a producer of inputs)"""
    from pycoin.encoding import hexbytes
    if hf == "bytes":
        return bytes(bytearray(prev))          # a fresh object, never the dict's own
    if hf == "revhex":
        return hexbytes.bytes_as_revhex(prev)
    if hf == "as_hex":
        return hexbytes.bytes_as_hex(prev)
    if hf == "subclass":
        return _HashSub(prev)
    if hf == "bytearray":
        return bytearray(prev)
    if hf == "memoryview":
        return memoryview(bytes(bytearray(prev)))
    if hf == "hash()":
        # whatever type Tx.hash() hands out (also what tx_outs_as_spendable() puts into its Spendables), holding these 32 bytes
        sample = T(1, [T.TxIn(b"\1" * 32, 0, b"\x51")], [T.TxOut(1, b"\x51")]).hash()
        return type(sample)(prev)
    raise AssertionError("unknown hash flavour %r" % (hf,))


def _flavoured_in(T, i, hf, xf, sf):
    """a TxIn with the fields of i, its outpoint hash from producer hf, its index of flavour xf, its script of flavour sf"""
    import io
    prev, idx, script, seq = bytes(i["prev"]), i["index"], bytes(i["script"]), i["sequence"]
    x = _int_flavour(xf, idx)
    s = bytearray(script) if sf == "bytearray" else script
    if hf == "parsed":
        t = T.TxIn.parse(io.BytesIO(prev + idx.to_bytes(4, "little") + R.csize(len(script)) + script + seq.to_bytes(4, "little")))
    elif hf in ("spendable", "from_text", "from_dict"):
        # "spendable": what tx.tx_outs_as_spendable()[k].tx_in() gives (the Spendable holds the object Tx.hash() returned)
        sp = T.Spendable(1000, b"\x51", _hash_value(T, "hash()", prev) if hf == "spendable" else prev, idx)
        if hf == "from_text":
            sp = T.Spendable.from_text(sp.as_text())
        elif hf == "from_dict":
            sp = T.Spendable.from_dict(sp.as_dict())
        t = sp.tx_in(script, seq)
    else:
        t = T.TxIn(_hash_value(T, hf, prev), x, s, seq)
    if xf != "int":
        t.previous_index = x
    if sf != "bytes":
        t.script = s
    t.witness = list(i["witness"])
    return t


def _optional_flavours(flav):
    return any(f[0] in OPTIONAL_HASH_FLAVOURS or f[2] != "bytes" for f in flav["ins"])


def _apply_flavours(T, tx, d, flav):
    """replace the inputs of tx by flavoured ones (and the output values); returns None, or why the object could not be made"""
    assert len(flav["ins"]) == len(d["ins"]) and (not flav.get("outs") or len(flav["outs"]) == len(d["outs"]))
    for k, (i, f) in enumerate(zip(d["ins"], flav["ins"])):
        st, t = observe(_flavoured_in, T, i, *f)
        if st != "ok":
            if isinstance(t, AssertionError):
                raise t
            return "refused." + f[0]
        tx.txs_in[k] = t
    for j, vf in enumerate(flav.get("outs") or []):
        if vf != "int":
            tx.txs_out[j].coin_value = _int_flavour(vf, d["outs"][j]["value"])
    st, back = observe(G.from_pycoin, tx)
    if st != "ok" or back != G.norm(d):
        return "producer_changed_fields"
    return None


def _flavour_suffix(T, d, flav, want):
    """which root cause a wrong verdict on a flavoured object has: the same fields as plain bytes / ints judged rightly -> the flavours"""
    if not flav:
        return ""
    st, _ = observe(lambda: G.to_pycoin(T, d).check())
    return ".only_with_mixed_flavours" if (st == "ok") == (want == "return") else ""


def _flavour_events(rec, d, flav, dfx, cb, verdict):
    fi = flav["ins"]
    rec.ev("flavour.judged." + verdict)
    for f in fi:
        rec.ev("flavour.hash." + f[0])
        rec.ev("flavour.index." + f[1])
    pts = [(i["prev"], i["index"]) for i in d["ins"]]
    if dfx == ["duplicate_outpoint"]:
        first = {}
        for k, pt in enumerate(pts):
            if pt in first:
                a = first[pt]
                for z in (a, k):
                    rec.ev("flavour.duplicate.hash." + fi[z][0])
                    rec.ev("flavour.duplicate.index." + fi[z][1])
                rec.ev("flavour.duplicate.hash_pair.%s+%s" % tuple(sorted((fi[a][0], fi[k][0]))))
                if fi[a][0] != fi[k][0]:
                    rec.ev("flavour.duplicate.mixed_hash_flavours")
                if fi[a][1] != fi[k][1]:
                    rec.ev("flavour.duplicate.mixed_index_flavours")
                break
            first[pt] = k
    elif dfx == ["null_outpoint_in_non_coinbase"]:
        k = pts.index(NULL)
        rec.ev("flavour.null_outpoint.hash." + fi[k][0])
        rec.ev("flavour.null_outpoint.index." + fi[k][1])
    elif cb and dfx in ([], ["coinbase_script_size"]):
        rec.ev("flavour.coinbase.hash." + fi[0][0])
        rec.ev("flavour.coinbase.index." + fi[0][1])
        rec.ev("flavour.coinbase.script." + fi[0][2])
    elif not dfx:
        n = len(pts)
        if any(pts[a][0] == pts[b][0] and fi[a][0] != fi[b][0] for a in range(n) for b in range(a + 1, n)):
            rec.ev("flavour.accept.sibling_outputs_mixed_hash_flavours")
        if any(pts[a][1] == pts[b][1] and fi[a][1] != fi[b][1] for a in range(n) for b in range(a + 1, n)):
            rec.ev("flavour.accept.same_index_mixed_index_flavours")
        if zero_hash_non_null(d) or any(p != G.NULL_HASH and x == G.NULL_INDEX for p, x in pts):
            rec.ev("flavour.accept.near_null")
    if flav.get("outs") and any(v != "int" for v in flav["outs"]):
        rec.ev("flavour.values." + verdict)
        for v in flav["outs"]:
            rec.ev("flavour.value." + v)


FLAVOUR_COUNTERS = (["flavour.judged.accept", "flavour.judged.reject", "flavour.duplicate.mixed_hash_flavours", "flavour.duplicate.mixed_index_flavours",
                     "flavour.accept.sibling_outputs_mixed_hash_flavours", "flavour.accept.same_index_mixed_index_flavours", "flavour.accept.near_null",
                     "flavour.values.accept", "flavour.values.reject", "flavour.coinbase.script.bytes"] +
                    ["flavour.%s.hash.%s" % (c, h) for c in ("duplicate", "null_outpoint", "coinbase") for h in CORE_HASH_FLAVOURS] +
                    ["flavour.duplicate.hash_pair.%s+%s" % tuple(sorted((a, b))) for a in CORE_HASH_FLAVOURS for b in CORE_HASH_FLAVOURS if a <= b] +
                    ["flavour.duplicate.index." + x for x in INDEX_FLAVOURS] +
                    ["flavour.%s.index.%s" % (c, x) for c in ("null_outpoint", "coinbase") for x in INDEX_FLAVOURS if x != "bool"] +
                    ["flavour.value." + x for x in INDEX_FLAVOURS])


def _flav_tx(n_in, tag, n_out=2):
    """distinct outpoints with indices 0 / 1 (so that every index flavour applies), everything else different from input to input"""
    ins = [{"prev": _h(tag, k, b"f"), "index": k % 2, "script": b"\x51" * (1 + k), "sequence": 0xffffffff - k % 2, "witness": []} for k in range(n_in)]
    return {"version": 1 + tag % 2, "ins": ins, "outs": [{"value": 5 + j, "script": b"\x51" * j} for j in range(n_out)], "lock_time": 0}


def _fl(n, over=None, outs=None):
    f = {"ins": [list(PLAIN) for _ in range(n)], "outs": outs}
    for k, v in (over or {}).items():
        f["ins"][k] = list(v)
    return f


def flavour_sweep(net):
    """every pair of flavours on every rule of the statement that compares elements; yields (label, dict, flav)"""
    MAX = MAXES[net]
    H, X = HASH_FLAVOURS, INDEX_FLAVOURS
    tag = 0
    # the same outpoint twice: every ordered pair of hash flavours; next to each other, and apart with another output of the same
    # previous transaction (in a third flavour) between them. Twins that must be accepted: other index, other hash.
    for a, b in itertools.product(H, H):
        tag += 1
        c = H[tag % len(CORE_HASH_FLAVOURS)]
        t = _flav_tx(2, tag)
        _set_pt(t, 1, (t["ins"][0]["prev"], t["ins"][0]["index"]))
        yield "dup %s,%s" % (a, b), t, _fl(2, {0: [a, "int", "bytes"], 1: [b, "int", "bytes"]})
        t = _flav_tx(4, tag)
        _set_pt(t, 1, (t["ins"][0]["prev"], 1))
        _set_pt(t, 3, (t["ins"][0]["prev"], 0))
        yield "dup %s,(%s),%s apart" % (a, c, b), t, _fl(4, {0: [a, "int", "bytes"], 1: [c, X[tag % 4], "bytes"], 3: [b, "int", "bytes"]})
        t = _flav_tx(2, tag)
        _set_pt(t, 1, (t["ins"][0]["prev"], 1))
        yield "two outputs of one tx %s,%s" % (a, b), t, _fl(2, {0: [a, "int", "bytes"], 1: [b, "int", "bytes"]})
        t = _flav_tx(2, tag)
        _set_pt(t, 1, (t["ins"][0]["prev"][:31] + bytes([t["ins"][0]["prev"][31] ^ 1]), 0))
        yield "hashes differing in the last byte %s,%s" % (a, b), t, _fl(2, {0: [a, "int", "bytes"], 1: [b, "int", "bytes"]})
    # every ordered pair of index flavours (values 0 and 1), on a few hash flavour pairs
    for xa, xb in itertools.product(X, X):
        for ha, hb in (("bytes", "bytes"), ("hash()", "from_text"), ("parsed", "spendable"), ("subclass", "from_dict"), ("revhex", "bytes")):
            for v in (0, 1):
                tag += 1
                t = _flav_tx(3, tag)
                _set_pt(t, 0, (t["ins"][0]["prev"], v))
                _set_pt(t, 2, (t["ins"][0]["prev"], v))
                yield "dup index %s,%s" % (xa, xb), t, _fl(3, {0: [ha, xa, "bytes"], 2: [hb, xb, "bytes"]})
                t = _flav_tx(2, tag)
                _set_pt(t, 0, (t["ins"][0]["prev"], v))
                _set_pt(t, 1, (t["ins"][0]["prev"], 1 - v))
                yield "indices 0 and 1, %s,%s" % (xa, xb), t, _fl(2, {0: [ha, xa, "bytes"], 1: [hb, xb, "bytes"]})
    # the null outpoint among other inputs, and the outpoints that are nearly null, in every flavour
    for h in H:
        for x in ("int", "intsub", "intenum"):
            for pos in range(3):
                tag += 1
                yield "null outpoint %s/%s at %d" % (h, x, pos), _set_pt(_flav_tx(3, tag), pos, NULL), _fl(3, {pos: [h, x, "bytes"]})
            tag += 1
            yield "zero hash, index 0, %s/%s" % (h, x), _set_pt(_flav_tx(2, tag), 1, (G.NULL_HASH, 0)), _fl(2, {1: [h, x, "bytes"]})
            yield "index 2^32-1, %s/%s" % (h, x), _set_pt(_flav_tx(2, tag), 0, (_h(tag, 9, b"f"), G.NULL_INDEX)), _fl(2, {0: [h, x, "bytes"]})
            yield "zero hash alone, index 2^32-2, %s/%s" % (h, x), _set_pt(_flav_tx(1, tag), 0, (G.NULL_HASH, 0xfffffffe)), _fl(1, {0: [h, x, "bytes"]})
        tag += 1
        yield "zero hash, index False, %s" % h, _set_pt(_flav_tx(2, tag), 1, (G.NULL_HASH, 0)), _fl(2, {1: [h, "bool", "bytes"]})
    # coinbase: the script length rule applies whatever the flavour of its null outpoint (and of its script)
    for h in H:
        for x in ("int", "intsub", "intenum"):
            for L in (1, 2, 100, 101):
                tag += 1
                t = _set_pt(_flav_tx(1, tag), 0, NULL)
                t["ins"][0]["script"] = b"\x04" * L
                t["outs"][0]["value"] = MAX - t["outs"][1]["value"]
                yield "coinbase %s/%s script %d" % (h, x, L), t, _fl(1, {0: [h, x, SCRIPT_FLAVOURS[(tag // 3) % 2]]})
    # values and totals
    for vf in INDEX_FLAVOURS[1:3]:
        for v in (MAX, MAX + 1):
            tag += 1
            t = _flav_tx(2, tag, n_out=2)
            t["outs"][0]["value"], t["outs"][1]["value"] = 0, v
            yield "value %d as %s" % (v, vf), t, _fl(2, None, ["int", vf])
        for total in (MAX, MAX + 1):
            tag += 1
            t = _flav_tx(1, tag, n_out=3)
            t["outs"][0]["value"], t["outs"][1]["value"], t["outs"][2]["value"] = total - 2, 1, 1
            yield "total %d, %s + bool + int" % (total, vf), t, _fl(1, None, [vf, "bool", "int"])


def flavour_random(rng, net):
    """a random transaction with an injected defect (or a benign look-alike), each input from a producer drawn at random"""
    MAX = MAXES[net]
    d = _wellformed_random(rng, MAX)
    while len(d["ins"]) < 2:
        d["ins"].append({"prev": G.rbytes(rng, 32), "index": rng.randrange(4), "script": b"\x51", "sequence": 0xffffffff, "witness": []})
    d["ins"] = d["ins"][:8]
    d["outs"] = d["outs"][:6]
    if rng.random() < 0.6:
        for i in d["ins"]:
            i["index"] = rng.randrange(2)
        if rng.random() < 0.5:                   # several outputs of few previous transactions
            for i in d["ins"][1:]:
                if rng.random() < 0.6:
                    i["prev"] = d["ins"][0]["prev"]
        pts = set()
        for k, i in enumerate(d["ins"]):         # (distinct again)
            while (i["prev"], i["index"]) in pts:
                i["prev"] = G.rbytes(rng, 32)
            pts.add((i["prev"], i["index"]))
    kind = rng.choice(["dup", "dup", "dup", "null_in_multi", "coinbase_ok", "coinbase_short", "coinbase_long", "near_null", "same_hash", "none", "none",
                       "fill_to_max", "total"])
    d = _inject(d, kind, rng, MAX)
    fi = []
    for i in d["ins"]:
        x = rng.choice(INDEX_FLAVOURS if i["index"] in (0, 1) else INDEX_FLAVOURS[:3])
        fi.append([rng.choice(HASH_FLAVOURS if rng.random() < 0.25 else CORE_HASH_FLAVOURS), x, "bytearray" if rng.random() < 0.05 else "bytes"])
    fo = None
    if rng.random() < 0.3:
        fo = [rng.choice(INDEX_FLAVOURS if o["value"] in (0, 1) else INDEX_FLAVOURS[:3]) for o in d["outs"]]
    return kind, d, {"ins": fi, "outs": fo}


# ---------------------------------------------------------------------------------------------
# whole transactions handed over by the library's other producers (judged on the fields the object then has)

PRODUCERS = ["coinbase_tx", "create_tx", "deepcopy", "pickle", "from_hex", "parse"]
COIN_FORMS = ["object", "text", "dict", "reparsed"]


def producer_cases(net):
    MAX = MAXES[net]
    for L in (0, 1, 2, 100, 101):
        for v in (MAX, MAX + 1):
            yield ["coinbase_tx", L, v]
    for a, b in (itertools.product(COIN_FORMS, COIN_FORMS) if net != "GRS" else ()):     # (GRS addresses need a package that may be absent)
        yield ["create_tx", a, b, True]          # the same coin twice, in two forms
        yield ["create_tx", a, b, False]         # two coins of one transaction
    for how in ("deepcopy", "pickle", "from_hex", "parse"):
        for shape in ("wellformed", "duplicate", "coinbase_short", "coinbase_ok", "null_mid", "total_over"):
            yield [how, shape]


def _producer_tx(net, T, args):
    import copy
    import importlib
    import io
    import pickle
    MAX = MAXES[net]
    name = args[0]
    if name == "coinbase_tx":
        return T.coinbase_tx(b"\2" + b"\1" * 32, args[2], coinbase_bytes=b"\4" * args[1])
    if name == "create_tx":
        network = importlib.import_module("pycoin.symbols." + net.lower()).network
        script = b"\x76\xa9\x14" + b"\1" * 20 + b"\x88\xac"
        funding = T(1, [T.TxIn(b"\x11" * 32, 7, b"\x51")], [T.TxOut(60000, script), T.TxOut(40000, script)])
        coins = funding.tx_outs_as_spendable()

        def form(c, how):
            return (c if how == "object" else c.as_text() if how == "text" else c.as_dict() if how == "dict"
                    else T.Spendable.from_bin(c.as_bin(as_spendable=True)))
        sp = [form(coins[0], args[1]), form(coins[0 if args[3] else 1], args[2])]
        return network.tx_utils.create_tx(sp, [network.address.for_p2pkh(b"\2" * 20)], fee=0)
    shape = args[1]
    d = G.simple_tx(n_in=3, n_out=2, value=7, script_len=3)
    if shape == "duplicate":
        _set_pt(d, 2, (d["ins"][0]["prev"], d["ins"][0]["index"]))
    elif shape.startswith("coinbase"):
        d = _set_pt(G.simple_tx(script_len=1 if shape == "coinbase_short" else 100, value=MAX), 0, NULL)
    elif shape == "null_mid":
        _set_pt(d, 1, NULL)
    elif shape == "total_over":
        d["outs"][0]["value"], d["outs"][1]["value"] = MAX, 1
    if name == "from_hex":
        return T.from_hex(R.serialize(d).hex())
    if name == "parse":
        return T.parse(io.BytesIO(R.serialize(d)))
    tx = G.to_pycoin(T, d)
    tx.set_unspents([T.TxOut(1000 + k, b"\x51") for k in range(len(tx.txs_in))])
    return copy.deepcopy(tx) if name == "deepcopy" else pickle.loads(pickle.dumps(tx))


def producer_case(net, T, args, rec):
    st, tx = observe(_producer_tx, net, T, args)
    if st != "ok":
        rec.ev("producer.refused." + args[0])
        return
    rec.ev("producer." + args[0])
    _judge_live(net, T, tx, rec, ["producer"] + [str(a) for a in args], case={"net": net, "producer": list(args)}, state={})


# ---------------------------------------------------------------------------------------------
# error paths: calls the library refuses part-way through (a field that does not fit its wire format, a value of the wrong type, a
# missing element) between judged calls, in one process, on the same object and on other objects of the same and of other networks.
# The refused call itself is never judged (the statement does not say what check() does with such an object) except that it must not
# modify the object; the NEXT check() of a transaction the statement speaks about must give the statement's verdict.

BAD_VALUES = {"2^32": 1 << 32, "2^64": 1 << 64, "-1": -1, "float": 1.5, "inf": float("inf"), "None": None, "str": "00", "int": 5, "list": [1]}
# (family, position, value): position "first" / "mid" / "last" among the elements of that kind
REFUSALS = ([["lock_time", None, v] for v in ("2^32", "-1", "float", "None", "str", "2^64", "inf")] +
            [["version", None, v] for v in ("2^32", "-1", "None", "float")] +
            [["sequence", p, v] for p in ("first", "last") for v in ("2^32", "-1", "None")] +
            [["index", p, v] for p in ("first", "last") for v in ("2^32", "-1", "float", "None")] +
            [["hash", p, v] for p in ("first", "last") for v in ("None", "str", "int")] +
            [["in_script", p, v] for p in ("first", "last") for v in ("str", "None", "int")] +
            [["out_script", p, v] for p in ("first", "last") for v in ("str", "None", "int")] +
            [["value", p, v] for p in ("first", "last") for v in ("float", "None", "str")] +
            [["witness_item", p, v] for p in ("first", "last") for v in ("str", "None", "int")] +
            [["witness", "last", v] for v in ("None", "int")] +
            [["in_element", p, "None"] for p in ("first", "last")] + [["out_element", p, "None"] for p in ("first", "last")] +
            [["txs_in", None, "None"], ["txs_out", None, "None"]])
API_REFUSALS = ["as_bin", "as_hex", "id", "w_id", "hash", "from_bin_truncated", "from_bin_empty", "from_hex_bad", "parse_truncated",
                "bad_solution_count_without_unspents", "check_unspents", "set_witness_out_of_range", "sign_without_unspents"]
REFUSAL_FAMILIES = sorted({r[0] for r in REFUSALS}) + ["api"]
BROKEN_SIZES = [0, 400_000, 999_000]


def _pos(n, p):
    return 0 if p == "first" else n - 1 if p == "last" else n // 2


def _break(tx, ref):
    """put one value that cannot be serialised / compared into the object; returns the undo closure, or None when the object has no such field"""
    fam, p, vname = ref
    v = BAD_VALUES[vname]
    ins, outs = tx.txs_in, tx.txs_out
    if fam in ("lock_time", "version", "txs_in", "txs_out"):
        old = getattr(tx, fam)
        setattr(tx, fam, v)
        return lambda: setattr(tx, fam, old)
    if fam in ("sequence", "index", "hash", "in_script", "witness"):
        attr = {"sequence": "sequence", "index": "previous_index", "hash": "previous_hash", "in_script": "script", "witness": "witness"}[fam]
        t = ins[_pos(len(ins), p)]
        old = getattr(t, attr)
        setattr(t, attr, v)
        return lambda: setattr(t, attr, old)
    if fam in ("out_script", "value"):
        attr = {"out_script": "script", "value": "coin_value"}[fam]
        t = outs[_pos(len(outs), p)]
        old = getattr(t, attr)
        setattr(t, attr, v)
        return lambda: setattr(t, attr, old)
    if fam == "witness_item":
        cand = [t for t in ins if t.witness]
        if not cand:
            return None
        t = cand[_pos(len(cand), p)]
        old = t.witness
        t.witness = list(old[:-1]) + [v]
        return lambda: setattr(t, "witness", old)
    if fam in ("in_element", "out_element"):
        lst = ins if fam == "in_element" else outs
        k = _pos(len(lst), p)
        old = lst[k]
        lst[k] = v

        def undo():
            lst[k] = old
        return undo
    raise AssertionError("unknown refusal %r" % (ref,))


def _raw(tx):
    """the object's fields as they are (no library call; compared by value, like the snapshots of the judged calls, plus identity of the
    containers and elements): what a refused check() must leave alone"""
    def cp(v):
        return bytes(v) if isinstance(v, bytearray) else [cp(w) for w in v] if isinstance(v, (list, tuple)) else v

    def el(lst, fields):
        if not isinstance(lst, list):
            return cp(lst)
        return [None if t is None else (id(t),) + tuple(cp(getattr(t, f, None)) for f in fields) for t in lst]
    return (cp(tx.version), cp(tx.lock_time), id(tx.txs_in), id(tx.txs_out), id(tx.unspents),
            el(tx.txs_in, ("previous_hash", "previous_index", "script", "sequence", "witness")), el(tx.txs_out, ("coin_value", "script")))


_BROKEN_DICTS = {}


def _broken_dict(size, wit):
    key = (size, wit)
    if key not in _BROKEN_DICTS:
        rc = {"n_in": 3, "n_out": 3, "wit": "all" if wit else "none", "tag": 77 + size % 1000, "edits": [["pad", size, 0, "out_script", 1]] if size else []}
        _BROKEN_DICTS[key] = big_tx(rc)[0]
    return _BROKEN_DICTS[key]


def _refused_call(nets, rec, r, same_tx, case):
    """one refused call. r = {"on": "same" | [net, size, wit], "what": refusal | ["api", name]}; returns nothing: it is never judged,
    only counted, and its object is compared before / after"""
    import io
    what = r["what"]
    if r["on"] == "same" and what[0] != "api":
        tx = same_tx
    else:
        net_b, size, wit = r["on"] if r["on"] != "same" else (case["net"], 0, True)
        tx = G.to_pycoin(nets[net_b], _broken_dict(size, wit))
    T = type(tx)
    if what[0] == "api":
        name = what[1]
        ser = R.serialize(_broken_dict(0, True))
        tx.lock_time = 1 << 32
        fn = {"as_bin": tx.as_bin, "as_hex": tx.as_hex, "id": tx.id, "w_id": tx.w_id, "hash": tx.hash,
              "from_bin_truncated": lambda: T.from_bin(ser[:-5]), "from_bin_empty": lambda: T.from_bin(b""), "from_hex_bad": lambda: T.from_hex("zz"),
              "parse_truncated": lambda: T.parse(io.BytesIO(ser[:47])),
              "bad_solution_count_without_unspents": lambda: G.to_pycoin(T, _broken_dict(0, False)).bad_solution_count(),
              "check_unspents": lambda: G.to_pycoin(T, _broken_dict(0, False)).check_unspents(),
              "set_witness_out_of_range": lambda: G.to_pycoin(T, _broken_dict(0, False)).set_witness(7, [b"\1"]),
              "sign_without_unspents": lambda: G.to_pycoin(T, _broken_dict(0, False)).sign([])}[name]
        st, e = observe(fn)
        rec.ev("errpath.refused.api" if st != "ok" else "errpath.not_refused.api." + name)
        return
    undo = _break(tx, what)
    if undo is None:
        rec.ev("errpath.refusal_not_applicable")
        return
    raw0 = _raw(tx)
    st, e = observe(tx.check)
    raw1 = _raw(tx)
    undo()
    if st == "ok":
        rec.ev("errpath.not_refused.%s.%s" % (what[0], what[2]))
    else:
        rec.ev("errpath.refused." + what[0])
        rec.ev("errpath.refused.raises." + type(e).__name__)
        rec.ev("errpath.refused.on_same_object" if r["on"] == "same" else "errpath.refused.on_other_object")
    if raw0 != raw1:
        rec.violation("errpath.refused_check.mutates_tx", dict(case, refused=r), "fields differ after the call", "unchanged")


def errpath_probes(net):
    """the judged transactions: name -> dict (verdicts come from the defect predicate)"""
    MAX = MAXES[net]
    cb = _set_pt(G.simple_tx(script_len=100, n_out=2, value=MAX // 2), 0, NULL)
    dup = G.simple_tx(n_in=3, n_out=2, value=7)
    _set_pt(dup, 2, (dup["ins"][0]["prev"], dup["ins"][0]["index"]))
    return {"at_limit": lambda: sized_tx(LIMIT, True, 0, "out_script", n_in=2, n_out=2),
            "over_limit": lambda: sized_tx(LIMIT + 1, True, 0, "in_script", n_in=2, n_out=2),
            "half": lambda: sized_tx(500_000, True, 0, "in_script", n_in=2, n_out=2),
            "wit_at_limit": lambda: sized_tx(LIMIT, False, 10, "in_script", n_in=2, n_out=2),
            "wit_stripped_over": lambda: sized_tx(LIMIT + 1, True, 10, "in_script", n_in=2, n_out=2),
            "small": lambda: G.simple_tx(n_in=3, n_out=2, value=7, script_len=3),
            "small_wit": lambda: G.simple_tx(n_in=2, n_out=2, value=7, witness=[b"\x30" * 71, b"\x02" * 33]),
            "dup": lambda: dup, "coinbase": lambda: cb,
            "value_over": lambda: G.simple_tx(n_in=2, n_out=2, value=MAX // 2 + 1),
            "total_max": lambda: G.simple_tx(n_in=2, n_out=2, value=MAX // 2),
            "null_mid": lambda: _set_pt(G.simple_tx(n_in=3, n_out=1, value=7, script_len=3), 1, NULL)}


PROBE_NAMES = ["at_limit", "over_limit", "half", "wit_at_limit", "wit_stripped_over", "small", "small_wit", "dup", "coinbase", "value_over", "total_max",
               "null_mid"]


def errpath_history(nets, case, rec, minimise=True):
    """case = {"net", "probe", "rounds": [[refused call, ...], ...]}: ONE object of the probe transaction; judged fresh, then judged again
    right after each round of refused calls (the judged check() is the first library call after the last refused one).
    A wrong verdict is stored with the shortest history that shows it (the last round alone on a new object, when that does)"""
    net = case["net"]
    T, MAX = nets[net], MAXES[net]
    d = errpath_probes(net)[case["probe"]]()
    stripped_size, total_size = sizes(d)
    dfx = defects(d, MAX, stripped_size)
    cb = is_coinbase_ref(d)
    accept = not dfx and total_size <= LIMIT
    if not dfx and not accept:
        rec.ev("inconclusive:errpath_probe_undecided")
        return
    tx = G.to_pycoin(T, d)
    before = _snapshot(tx)
    done = []
    for rnd in [[]] + [list(r) for r in case["rounds"]]:
        for r in rnd:
            _refused_call(nets, rec, r, tx, case)
        st, e = observe(tx.check)
        after = _snapshot(tx)
        if rnd:
            done.append(rnd)
        cs = {"net": net, "probe": case["probe"], "rounds": [list(x) for x in done]}
        if rnd and minimise and (accept != (st == "ok")):
            from vmon.probe import Rec
            short = {"net": net, "probe": case["probe"], "rounds": [rnd]}
            trial = Rec()
            errpath_history(nets, short, trial, minimise=False)
            if any(v["mech"].startswith("errpath.next_check.") for v in trial.violations):
                cs = short
        rec.case((net, "errpath", case["probe"], len(done), repr(rnd)))
        which = "errpath.first_check" if not rnd else "errpath.next_check"
        rec.ev("Tx.check(errpath)")
        rec.ev("%s.expected_%s" % (which, "accept" if accept else "reject"))
        if rnd:
            if accept and total_size >= LIMIT - 1:
                rec.ev("errpath.next_check.expected_accept.at_size_limit")
            if len(rnd) > 1:
                rec.ev("errpath.next_check.after_several_refused_calls")
            for r in rnd:
                if r["on"] != "same" and r["on"][0] != net:
                    rec.ev("errpath.next_check.after_refusal_on_other_network")
        if accept and st != "ok":
            rec.violation(which + ".rejects_wellformed", cs, e, "return")
        elif not accept and st == "ok":
            rec.violation(which + ".accepts_defective." + dfx[0], dict(cs, defects=dfx), "returned", "raise")
        diff = _snap_diff(before, after)
        if diff:
            rec.violation(which + ".mutates_tx", cs, diff, "unchanged")
        if cb:
            st_, n = observe(tx.bad_solution_count)
            rec.ev("errpath.bad_solution_count(coinbase)")
            if st_ != "ok" or n != 0:
                rec.violation("errpath.coinbase.counted_as_unsigned", cs, n, 0)


def errpath_plan(rng, part, nparts):
    """the histories of one shard: every refusal family on the same and on other objects (three sizes, every network) before every probe"""
    refs = [list(r) for r in REFUSALS] + [["api", a] for a in API_REFUSALS]
    out = []
    k = 0
    for pi, probe in enumerate(PROBE_NAMES):
        if pi % nparts != part:
            continue
        net = NETS[pi % len(NETS)]
        order = list(refs)
        rng.shuffle(order)
        rounds = []
        for what in order:
            k += 1
            if what[0] != "api" and k % 3 == 0:
                on = "same"
            else:
                on = [NETS[(pi + k) % len(NETS)], BROKEN_SIZES[k % 3], what[0] in ("witness_item", "witness") or k % 2 == 0]
            rounds.append([{"on": on, "what": what}])
            if k % 7 == 0:                 # several refused calls in a row before the judged one
                rounds[-1] += [{"on": "same" if j else [NETS[(k + j) % len(NETS)], BROKEN_SIZES[2], True], "what": rng.choice(REFUSALS)} for j in range(2)]
        # the families on the SAME object, each once more, in another order
        same = [list(r) for r in REFUSALS if r[1] in (None, "last")]
        rng.shuffle(same)
        rounds += [[{"on": "same", "what": what}] for what in same[:20]]
        out.append({"net": net, "probe": probe, "rounds": rounds})
    return out


# ---------------------------------------------------------------------------------------------
# the N-th call: one object, one process, more than 2^16 check() calls, each judged from two running flags

LONGRUN_HOLDS = ["duplicate", "total_over", "null_outpoint", "oversize", "wellformed"]


def longrun(net, T, n_ops, rec, hold="duplicate"):
    """one object, n_ops check() calls. Outside the windows around call 2^16 and 2^17 the object is edited between calls (a fixed
    function of the call number, so that a stored case {"longrun": k, "hold": ...} replays the first k calls); inside a window (40 calls
    either side, so that a few more calls made by the harness do not matter) it is held in ONE state - `hold`: the only defect it has
    is the named one, or none - so that the 2^16-th call is judged on a rule that alone decides the verdict."""
    MAX = MAXES[net]
    d = _flav_tx(2, 4242)
    _set_pt(d, 1, (d["ins"][0]["prev"], 1))
    d["outs"][0]["value"], d["outs"][1]["value"] = MAX - 1, 0
    tx = G.to_pycoin(T, d)
    ins, outs = tx.txs_in, tx.txs_out
    dup = over = False
    held = None
    case = {"net": net, "hold": hold}
    state = {}
    bad = 0
    for k in range(1, n_ops + 1):
        in_window = abs(k - (1 << 16)) <= 40 or abs(k - (1 << 17)) <= 40
        if in_window and held is None:
            dup = over = False
            ins[1].previous_index, outs[1].coin_value = 1, 0
            if hold == "duplicate":
                ins[1].previous_index = 0
                held = lambda: setattr(ins[1], "previous_index", 1)
            elif hold == "total_over":
                outs[1].coin_value = 2
                held = lambda: setattr(outs[1], "coin_value", 0)
            elif hold == "null_outpoint":
                old = (ins[1].previous_hash, ins[1].previous_index)
                ins[1].previous_hash, ins[1].previous_index = NULL

                def held(old=old):
                    ins[1].previous_hash, ins[1].previous_index = old
            elif hold == "oversize":
                old = outs[1].script
                outs[1].script = b"\x6a" * LIMIT
                held = lambda old=old: setattr(outs[1], "script", old)
            else:
                held = lambda: None
        elif not in_window and held is not None:
            held()
            held = None
        if not in_window:
            r = ((k * 2654435761) >> 9) % 100
            if r < 30:
                dup = not dup
                ins[1].previous_index = 0 if dup else 1
            elif r < 60:
                over = not over
                outs[1].coin_value = 2 if over else k & 1
            elif r < 70:
                ins[0].script = b"\x51" * (k % 4)
        defective = (hold != "wellformed") if in_window else (dup or over)
        try:
            tx.check()
            ok = True
        except Exception:
            ok = False
        if in_window:
            rec.ev("longrun.window_call.expected_" + ("reject." + hold if defective else "accept"))
        if ok == defective:
            bad += 1
            if bad <= 3:
                rec.violation("longrun.check_%s_at_nth_call" % ("accepts_defective" if ok else "rejects_wellformed"),
                              dict(case, longrun=k, in_window=in_window), "returned" if ok else "raised", "raise" if ok else "return")
        if k % 8192 == 0 or k in (65500, 65580) or k == n_ops:
            # the running flags against the predicate over the object's fields, with full snapshots
            dd = G.from_pycoin(tx)
            if bool(defects(dd, MAX)) != defective:
                rec.ev("inconclusive:longrun_flags_disagree_with_predicate")
            _judge_live(net, T, tx, rec, ["longrun", hold, "call %d" % k], case=dict(case, longrun=k), state=state)
    rec.ev("longrun.calls_on_one_object", n_ops)
    rec.case((net, "longrun", hold, n_ops))
    if n_ops > (1 << 16) + 64:
        rec.ev("longrun.more_than_2^16_calls_on_one_object")


def run_shard(spec, rec):
    nets = _nets(rec)
    kind = spec["kind"]
    if kind not in ("history", "bighist", "errpath", "longrun"):
        rec.require("Tx.check", "Tx.is_coinbase", "purity_snapshot.returning", "purity_snapshot.raising", "expected_accept")
    if kind == "sweep":
        net = spec["net"]
        # one counter per clause of the statement / item of its quantifier (requirements are merged over the shards of a run)
        rec.require("Tx.bad_solution_count(coinbase)", "Tx.bad_solution_count(coinbase, flags=)", "Tx.check(second)", "expected_accept." + net,
                    "same_input_object_twice", "unspents.full", "unspents.holes", "unspents.short",
                    "made_via.attr", "made_via.from_bin", "made_via.tuple", "made_via.set_witness", "undecided.stripped_le_limit_lt_total")
        rec.require(*["expected_reject." + x for x in DEFECT_NAMES])
        # (value -1 is not among the quantifier's boundary values and a library may refuse to build such an output at all: counted, not required)
        rec.require(*["clause." + x for x in CLAUSE_COUNTERS if x != "value_-1.reject"])
        k = 0
        for label, d in sweep(net):
            _check_one(net, nets[net], d, rec, label=label, with_unspents=(k % 3 == 0))
            k += 1
            if label in ("coinbase script 2", "null outpoint at 1/2") and len(rec.samples) < 2 and net == "BTC":
                rec.sample({"class": net, "label": label, "tx": G.pack(d), "defects": defects(d, MAXES[net])})
        return
    if kind == "sizes":
        net = spec["net"]
        rec.require("expected_accept.at_size_limit", "expected_reject.stripped_size_over_limit")
        for label, d in size_cases(spec["part"]):
            _check_one(net, nets[net], d, rec, label=label)
        return
    rng = shard_rng(spec["seed"], PROPERTY, spec["tier"], spec["shard"])
    if kind == "flavours":
        rec.require(*FLAVOUR_COUNTERS)
        k = 0
        for net in spec["nets"]:
            for label, d, flav in flavour_sweep(net):
                k += 1
                _check_one(net, nets[net], d, rec, label="flavours: " + label, flav=flav, second=(k % 5 == 0), with_unspents=(k % 7 == 0))
        rec.require(*["producer." + x for x in PRODUCERS])
        rec.require("Tx.check(history)", "history.expected_accept", "history.expected_reject.duplicate_outpoint",
                    "history.expected_reject.coinbase_script_size")
        for net in spec["nets"]:
            for args in producer_cases(net):
                producer_case(net, nets[net], args, rec)
        for i in range(spec["n"]):
            net = spec["nets"][i % len(spec["nets"])]
            kd, d, flav = flavour_random(rng, net)
            _check_one(net, nets[net], d, rec, label="flavours: random " + kd, flav=flav, second=(i % 8 == 0), full_snapshot=(i % 4 == 0))
        return
    if kind == "countedge":
        rec.require("count_edge.accept.65535", "count_edge.accept.65536", "count_edge.reject.65535", "count_edge.reject.65536")
        for k, (label, rc) in enumerate(count_edge_recipes(spec["tier"])):
            net = NETS[(k + spec["seed"]) % len(NETS)]
            st = _run_recipe(net, nets[net], rc, rec, "count edge: " + label, full_snapshot="noids")
            if st:
                rec.ev("count_edge.%s.%d" % ("accept" if "=%d" % (LIMIT + 1) not in label else "reject", rc["n_out"]))
        return
    if kind == "errpath":
        rec.require("Tx.check(errpath)", "errpath.next_check.expected_accept", "errpath.next_check.expected_reject",
                    "errpath.next_check.expected_accept.at_size_limit", "errpath.next_check.after_several_refused_calls",
                    "errpath.next_check.after_refusal_on_other_network", "errpath.refused.on_same_object", "errpath.refused.on_other_object",
                    "errpath.bad_solution_count(coinbase)")
        rec.require(*["errpath.refused." + f for f in REFUSAL_FAMILIES])
        for _ in range(spec.get("repeat", 1)):
            for case in errpath_plan(rng, spec["part"], spec["nparts"]):
                errpath_history(nets, case, rec)
        return
    if kind == "longrun":
        rec.require("longrun.more_than_2^16_calls_on_one_object", "Tx.check(history)", "longrun.window_call.expected_accept")
        rec.require(*["longrun.window_call.expected_reject." + h for h in LONGRUN_HOLDS if h != "wellformed"])
        longrun(spec["net"], nets[spec["net"]], spec["n"], rec, hold=spec["hold"])
        return
    if kind == "sizeclass":
        for c in spec["classes"]:
            cls = _size_class({"ins": [0] * c, "outs": []})
            rec.require("purity_snapshot.raising.elements_" + cls, "purity_snapshot.returning.elements_" + cls)
        if min(spec["classes"]) <= 2000:
            rec.require("Tx.check(second)")
        k = rng.randrange(len(NETS))
        for label, rc, umode in purity_recipes(spec["classes"], full=spec["full"]):
            k += 1
            net = NETS[k % len(NETS)]
            rc["tag"] = rc.get("tag", 0) + 10007 * (spec["seed"] % 1000)
            _run_recipe(net, nets[net], rc, rec, label, unspents=umode, second=max(rc["n_in"], rc["n_out"]) <= 2000,
                        via=("attr", "attr", "from_bin")[k % 3])
        return
    if kind == "kinds":
        for kd, net, light in spec["jobs"]:
            k = 0
            # the defect x kind matrix: every cell must have been judged (and not refused at construction)
            for x in ["none"] + [x for x in DEFECT_NAMES if x != "coinbase_script_size" or KINDS[kd].get("coinbase")]:
                rec.require("matrix.%s.%s" % (kd, x))
            for label, rc in kind_recipes(kd, MAXES[net], light=light):
                k += 1
                # (id() / w_id() of the kinds with a thousand elements: on every fourth case; the SIZE classes take them always)
                _run_recipe(net, nets[net], rc, rec, kd + ": " + label, unspents=("full", False, "holes")[k % 3], second=(k % 4 == 0),
                            via=("attr", "from_bin", "attr", "tuple", "attr")[k % 5], cell=kd,
                            full_snapshot=True if (k % 4 == 1 or not kd.startswith(("many", "coinbase_many"))) else "noids")
        return
    if kind == "sizekinds":
        rec.require("expected_accept.at_size_limit", "expected_reject.stripped_size_over_limit")
        for kd, net, stripped_only in spec["jobs"]:
            for label, rc in size_kind_recipes(kd):
                if stripped_only and not label.startswith("stripped"):
                    continue
                _run_recipe(net, nets[net], rc, rec, kd + ": " + label, unspents=False)
        return
    if kind == "bighist":
        rec.require("Tx.check(history)", "purity_snapshot(history).returning", "purity_snapshot(history).raising")
        for c in spec["sizes"]:
            cls = _size_class({"ins": [0] * c, "outs": []})
            rec.require("purity_snapshot(history).raising.elements_" + cls, "purity_snapshot(history).returning.elements_" + cls)
        for j, n_in in enumerate(spec["sizes"]):
            steps = spec["steps"][j]
            net = NETS[(j + rng.randrange(5)) % len(NETS)]
            rc = {"n_in": n_in, "n_out": 3, "order": rng.choice(["rand", "rand", "asc", "desc"]), "wit": rng.choice(["none", "odd", "last"]),
                  "tag": rng.randrange(10 ** 6)}
            # (one edit with a known verdict and its undo first, so that both paths are certain to be seen at every size)
            big_history(net, nets[net], rc, [["dup", 0, n_in - 1], ["undo"]] + _rand_live_ops(rng, n_in, steps), rec,
                        unspents=rng.choice(["full", "full", "holes", False]))
        return
    if kind == "history":
        rec.require("Tx.check(history)", "history.expected_accept", "history.expected_accept.zero_hash_non_null",
                    "history.expected_verdict_changes.accept_to_reject", "history.expected_verdict_changes.reject_to_accept",
                    "history.expected_defect_changes")
        rec.require(*["history.expected_reject." + x for x in DEFECT_NAMES])
        for net in ("BTC", "GRS", "LTC"):
            history_cases(net, nets[net], rng, rec, spec["n"])
        return
    order = ["BTC", "GRS", "BTC", "GRS", "LTC", "BCH", "BTG"]
    for i in range(spec["n"]):
        net = order[i % len(order)]
        MAX = MAXES[net]
        d = _wellformed_random(rng, MAX)
        r = rng.random()
        if r < 0.45:
            kinds = [rng.choice(BENIGN_KINDS)]
        elif r < 0.9:
            kinds = [rng.choice(DEFECT_KINDS)]
        else:
            kinds = [rng.choice(DEFECT_KINDS + BENIGN_KINDS), rng.choice(DEFECT_KINDS + BENIGN_KINDS)]
        for kd in kinds:
            if d["ins"] and d["outs"]:
                d = _inject(d, kd, rng, MAX)
        _check_one(net, nets[net], d, rec, with_unspents=rng.choice([False, False, False, False, False, False, False, "full", "full", "holes", "short"]),
                   full_snapshot=(i % 16 == 0), second=(i % 32 == 5), via=VIAS[i % len(VIAS)])
        if i == 3 and len(R.serialize(d) if serialisable(d) else b"x" * 999) < 400:
            rec.sample({"class": net, "tx": G.pack(d), "defects": defects(d, MAX), "injected": kinds})


def replay_case(case, rec):
    nets = _nets(rec)
    net = case.get("net", "BTC")
    if "recipe" in case:
        _run_recipe(net, nets[net], case["recipe"], rec, case.get("label"), unspents=case.get("unspents") or False, second=bool(case.get("second")),
                    via=case.get("via", "attr"))
        return
    if "start" in case:
        small_history(net, nets[net], G.unpack(case["start"]), case["steps"], rec)
        return
    if "probe" in case:
        errpath_history(nets, case, rec)
        return
    if "producer" in case:
        producer_case(net, nets[net], case["producer"], rec)
        return
    if "longrun" in case:
        longrun(net, nets[net], int(case["longrun"]), rec, hold=case.get("hold", "duplicate"))
        return
    if case.get("flav"):
        _check_one(net, nets[net], G.unpack(case["tx"]), rec, label=case.get("label"), flav=case["flav"], second=True)
        return
    if "live" in case:
        lv = case["live"]
        big_history(net, nets[net], lv["recipe"], lv["ops"], rec, unspents=lv.get("unspents") or False)
        return
    d = G.unpack(case["tx"])
    _check_one(net, nets[net], d, rec, label=case.get("label"), via=case.get("via", "attr"))
    _check_one(net, nets[net], d, rec, label=case.get("label"), with_unspents=True, second=True, via=case.get("via", "attr"))
