"""C20 — the context-free transaction check accepts exactly the well-formed transactions, and never modifies them."""
import itertools

from vmon.probe import shard_rng, observe
from vmon.refs import txser as R
from vmon.gen import txgen as G

PROPERTY = "C20"
PRELOAD_NETWORK_ORDERS = [["btc", "xtn", "ltc", "bch", "grs", "doge", "dash", "btg"], ["btg", "grs", "bch", "doge", "ltc", "xtn", "btc"]]
LEVEL = "exploration"
TECHNIQUE = "two-sided oracle at Tx.check(): defect predicate written from the statement; before/after snapshots on returning and raising paths"
RULE = ("cases: (transaction class, transaction) pairs. Deterministic sweep: every listed defect alone and at every position "
        "(values 0,1,MAX-1,MAX,MAX+1,-1,2^63,2^64 at each output position; totals reaching MAX / MAX+1 only at the last output; the same "
        "outpoint at every pair of positions of 2..6 inputs; coinbase script lengths 0,1,2,3,99,100,101,...; the null outpoint and five "
        "near-null outpoints alone and at every position among siblings; sizes 999,999 / 1,000,000 / 1,000,001 total and witness-stripped, "
        "with and without witness data), then seeded random transactions with zero, one or two injected defects. Distinct by (class, "
        "defect set, field-shape vector); non-trivial when the transaction carries a defect or sits on one of the statement's boundaries "
        "(every generated case does, except plain random well-formed ones, which count as non-trivial only when on a wire boundary).")
ASSUMPTIONS = [
    "'rejects' = check() raises any exception; 'accepts' = check() returns normally",
    "null outpoint = (32 zero bytes, index 2^32-1); coinbase = exactly one input and that input's outpoint is the null outpoint",
    "MAX = 21,000,000 * 10^8 for BTC/LTC/BCH/BTG classes and 105,000,000 * 10^8 for the Groestlcoin class (per-coin MAX_MONEY, as the "
    "property's quantifier says)",
    "sizes are those of the reference serialisation (vmon/refs/txser.py, self-tested); a transaction without defects whose stripped size "
    "is <= 1,000,000 but whose total size is larger is not decided by the statement: it is executed, counted, and never judged",
    "is_coinbase() is compared with the statement's definition of a coinbase, since the statement's rules are phrased in terms of it",
]
EXPLANATION = ("defects(tx) is computed from the dict the transaction was built from; any defect => check() must raise, none and total size "
               "<= 1,000,000 => must return; fields, object order, unspents and as_bin() are compared before and after check() on both "
               "paths; for every coinbase transaction bad_solution_count() must be 0")
TIMEOUT = {"quick": 600, "thorough": 3 * 3600}

NETS = ["BTC", "GRS", "LTC", "BCH", "BTG"]
COIN = 10 ** 8
MAXES = {"BTC": 21_000_000 * COIN, "LTC": 21_000_000 * COIN, "BCH": 21_000_000 * COIN, "BTG": 21_000_000 * COIN,
         "GRS": 105_000_000 * COIN}
LIMIT = 1_000_000
NULL = (G.NULL_HASH, G.NULL_INDEX)
NEAR_NULL = [(G.NULL_HASH, 0), (G.NULL_HASH, 5), (G.NULL_HASH, 0xfffffffe), (b"\0" * 31 + b"\1", 0xffffffff),
             (b"\1" + b"\0" * 31, 0xffffffff), (G.NULL_HASH, 0x7fffffff)]


def exhaustive(tier):
    return False


def configurations(tier):
    return [{"tx_classes": NETS}]


def plan(tier, seed):
    if tier == "quick":
        return ([{"kind": "sweep", "net": n} for n in NETS] + [{"kind": "sizes", "net": n, "part": p} for n in ("BTC", "GRS") for p in (0, 1)] +
                [{"kind": "random", "n": 9000} for _ in range(7)] + [{"kind": "history", "n": 12} for _ in range(3)])
    return ([{"kind": "sweep", "net": n} for n in NETS] + [{"kind": "sizes", "net": n, "part": p} for n in ("BTC", "GRS", "LTC") for p in (0, 1)] +
            [{"kind": "random", "n": 180000} for _ in range(12)] + [{"kind": "history", "n": 400} for _ in range(6)])


# ---------------------------------------------------------------------------------------------
# the statement, as a predicate over the plain dict

def is_coinbase_ref(d):
    return len(d["ins"]) == 1 and (d["ins"][0]["prev"], d["ins"][0]["index"]) == NULL


def serialisable(d):
    return all(0 <= o["value"] < (1 << 64) for o in d["outs"])


def defects(d, MAX):
    out = []
    if not d["ins"]:
        out.append("no_inputs")
    if not d["outs"]:
        out.append("no_outputs")
    if any(o["value"] < 0 or o["value"] > MAX for o in d["outs"]):
        out.append("value_out_of_range")
    total, crossed = 0, False
    for o in d["outs"]:
        total += o["value"]
        if total > MAX or total < 0:
            crossed = True
    if crossed and "value_out_of_range" not in out:
        out.append("total_out_of_range")
    pts = [(i["prev"], i["index"]) for i in d["ins"]]
    if len(set(pts)) != len(pts):
        out.append("duplicate_outpoint")
    if is_coinbase_ref(d):
        if not 2 <= len(d["ins"][0]["script"]) <= 100:
            out.append("coinbase_script_size")
    elif NULL in pts:
        out.append("null_outpoint_in_non_coinbase")
    if serialisable(d) and len(R.serialize(d, with_witness=False)) > LIMIT:
        out.append("stripped_size_over_limit")
    return out


def zero_hash_non_null(d):
    """an input whose outpoint hash is all zero but which is NOT the null outpoint"""
    return any(i["prev"] == G.NULL_HASH and i["index"] != G.NULL_INDEX for i in d["ins"])


def selftest(rec):
    out = {"txser_builtin": R.selftest()}
    MAX = MAXES["BTC"]
    ok = G.simple_tx(n_in=2, n_out=2, value=5)
    assert defects(ok, MAX) == []
    # the genesis coinbase is a coinbase with a 77-byte script and 50 BTC: no defect
    g, _ = R.parse(bytes.fromhex(
        "01000000010000000000000000000000000000000000000000000000000000000000000000ffffffff4d04ffff001d0104455468652054696d65732030332f4a616e2f"
        "32303039204368616e63656c6c6f72206f6e206272696e6b206f66207365636f6e64206261696c6f757420666f722062616e6b73ffffffff0100f2052a01000000434104"
        "678afdb0fe5548271967f1a67130b7105cd6a828e03909a67962e0ea1f61deb649f6bc3f4cef38c4f35504e51ec112de5c384df7ba0b8d578a4c702b6bf11d5fac00000000"))
    assert is_coinbase_ref(g) and defects(g, MAX) == [] and len(g["ins"][0]["script"]) == 77
    # one law per clause of the statement
    t = G.simple_tx(); t["ins"] = []
    assert defects(t, MAX) == ["no_inputs"]
    t = G.simple_tx(n_out=0)
    assert defects(t, MAX) == ["no_outputs"]
    for v, bad in ((0, False), (MAX, False), (MAX + 1, True), (-1, True)):
        assert (defects(G.simple_tx(value=v), MAX) == ["value_out_of_range"]) == bad and (defects(G.simple_tx(value=v), MAX) == []) != bad
    t = G.simple_tx(n_out=2, value=MAX // 2 + 1)
    assert defects(t, MAX) == ["total_out_of_range"]
    t = G.simple_tx(n_out=2, value=MAX // 2)
    assert defects(t, MAX) == []
    t = G.simple_tx(n_in=3); t["ins"][2]["prev"], t["ins"][2]["index"] = t["ins"][0]["prev"], t["ins"][0]["index"]
    assert defects(t, MAX) == ["duplicate_outpoint"]
    for L, bad in ((1, True), (2, False), (100, False), (101, True)):
        t = G.simple_tx(script_len=L); t["ins"][0]["prev"], t["ins"][0]["index"] = NULL
        assert is_coinbase_ref(t) and (defects(t, MAX) == ["coinbase_script_size"]) == bad
    t = G.simple_tx(n_in=2); t["ins"][1]["prev"], t["ins"][1]["index"] = NULL
    assert not is_coinbase_ref(t) and defects(t, MAX) == ["null_outpoint_in_non_coinbase"]
    for pt in NEAR_NULL:
        t = G.simple_tx(n_in=1); t["ins"][0]["prev"], t["ins"][0]["index"] = pt
        assert not is_coinbase_ref(t) and defects(t, MAX) == []
    n = 0
    for target, bad in ((LIMIT - 1, False), (LIMIT, False), (LIMIT + 1, True)):
        t = sized_tx(target, stripped=True, witness_bytes=0)
        assert len(R.serialize(t)) == target and (defects(t, MAX) == ["stripped_size_over_limit"]) == bad
        t = sized_tx(target, stripped=True, witness_bytes=5000)
        assert len(R.serialize(t, False)) == target and len(R.serialize(t)) > target and (defects(t, MAX) == ["stripped_size_over_limit"]) == bad
        t = sized_tx(target, stripped=False, witness_bytes=5000)
        assert len(R.serialize(t)) == target and defects(t, MAX) == []
        n += 3
    assert defects(G.simple_tx(value=MAXES["BTC"] + 1), MAXES["GRS"]) == []
    out["predicate_laws"] = 30 + n
    return out


# ---------------------------------------------------------------------------------------------
# size-targeted transactions

def sized_tx(target, stripped, witness_bytes, where="in_script", n_in=1, n_out=1):
    """a defect-free transaction whose (stripped or total) reference size is exactly `target`"""
    w = [b"\x33" * witness_bytes] if witness_bytes else []
    t = G.simple_tx(n_in=n_in, n_out=n_out, witness=None)
    if w:
        t["ins"][-1]["witness"] = w

    def size():
        return len(R.serialize(t, with_witness=not stripped))

    def setpad(n):
        if where == "in_script":
            t["ins"][0]["script"] = b"\x51" * n
        elif where == "out_script":
            t["outs"][0]["script"] = b"\x6a" * n
        else:
            t["ins"][-1]["witness"] = [b"\x33" * n]
    pad = max(0, target - size())
    setpad(pad)
    for _ in range(12):
        delta = target - size()
        if delta == 0:
            return t
        pad += delta
        setpad(pad)
    raise AssertionError("cannot hit size %d" % target)


# ---------------------------------------------------------------------------------------------

def _nets(rec=None):
    import importlib
    nets = {}
    for n in NETS:
        try:
            nets[n] = importlib.import_module("pycoin.symbols." + n.lower()).network.tx
        except Exception as e:
            if rec is not None:
                rec.note("config_absent: %s transaction class not importable (%s)" % (n, type(e).__name__))
    return nets


def _snapshot(tx):
    st, b = observe(tx.as_bin)
    return {"fields": G.from_pycoin(tx), "in_ids": [id(t) for t in tx.txs_in], "out_ids": [id(t) for t in tx.txs_out],
            "lists": (id(tx.txs_in), id(tx.txs_out)),
            "unspents": [None if u is None else (u.coin_value, bytes(u.script)) for u in (tx.unspents or [])],
            "as_bin": b if st == "ok" else "raises " + type(b).__name__}


def _snap_diff(a, b):
    for k in ("as_bin", "fields", "in_ids", "out_ids", "lists", "unspents"):
        if a[k] != b[k]:
            if k == "fields":
                return "fields." + str(G.first_difference(a[k], b[k]))
            return k
    return None


def _check_one(net, T, d, rec, label=None, with_unspents=False):
    MAX = MAXES[net]
    case = {"net": net, "tx": G.pack(d)}
    if label:
        case["label"] = label
    dfx = defects(d, MAX)
    cb = is_coinbase_ref(d)
    total_size = len(R.serialize(d)) if serialisable(d) else None
    nontrivial = bool(dfx) or bool(label) or G.on_boundary(d)
    rec.case((net, tuple(dfx), G.shape(d), tuple((i["prev"] == G.NULL_HASH, i["index"] == G.NULL_INDEX) for i in d["ins"][:8]),
              total_size if (total_size or 0) > 900000 else 0), nontrivial=nontrivial)
    st, tx = observe(G.to_pycoin, T, d)
    if st != "ok":
        rec.violation("construct.raises", case, tx, "object")
        return
    if with_unspents and d["ins"]:
        tx.set_unspents([T.TxOut(1000 + k, b"\x51") for k in range(len(d["ins"]))])
    # coinbase detection
    rec.ev("Tx.is_coinbase")
    st, ic = observe(tx.is_coinbase)
    if st != "ok":
        rec.violation("is_coinbase.raises", case, ic, cb)
    elif bool(ic) != cb:
        if ic and zero_hash_non_null(d):
            rec.violation("null_outpoint.index_ignored", dict(case, api="is_coinbase"), True, False)
        else:
            rec.violation("is_coinbase.mismatch", case, ic, cb)
    # the check itself, with snapshots on both paths
    before = _snapshot(tx)
    rec.ev("Tx.check")
    st, r = observe(tx.check)
    after = _snapshot(tx)
    rec.ev("check.returned" if st == "ok" else "check.raised")
    if st != "ok":
        rec.ev("check.raised." + type(r).__name__)
    diff = _snap_diff(before, after)
    rec.ev("purity_snapshot." + ("returning" if st == "ok" else "raising"))
    if diff:
        rec.violation("check.mutates_tx.%s_path" % ("returning" if st == "ok" else "raising"), case, diff, "unchanged")
    if dfx:
        rec.ev("expected_reject." + dfx[0])
        if st == "ok":
            rec.violation("check.accepts_defective." + (dfx[0] if len(dfx) == 1 else "multiple"), dict(case, defects=dfx), "returned", "raise")
    elif total_size is not None and total_size <= LIMIT:
        rec.ev("expected_accept")
        if total_size >= LIMIT - 1:
            rec.ev("expected_accept.at_size_limit")
        if st != "ok":
            if zero_hash_non_null(d):
                rec.violation("null_outpoint.index_ignored", dict(case, api="check"), r, "return")
            else:
                rec.violation("check.rejects_wellformed", case, r, "return")
    else:
        rec.ev("undecided.stripped_le_limit_lt_total")
    # a coinbase is never counted as having unsigned inputs
    if cb:
        rec.ev("Tx.bad_solution_count(coinbase)")
        st, n = observe(tx.bad_solution_count)
        if st != "ok" or n != 0:
            rec.violation("coinbase.counted_as_unsigned", case, n, 0)
    return st


def _with(d, **kw):
    e = G.norm(d)
    e.update(kw)
    return e


def _set_pt(d, k, pt):
    d["ins"][k]["prev"], d["ins"][k]["index"] = pt
    return d


def sweep(net):
    """deterministic boundary cases, one statement clause at a time; yields (label, dict)"""
    MAX = MAXES[net]
    for n_in in range(1, 7):
        for n_out in range(1, 5):
            yield "plain %d/%d" % (n_in, n_out), G.simple_tx(n_in=n_in, n_out=n_out, value=7)
    # counts
    t = G.simple_tx(n_out=2); t["ins"] = []
    yield "no inputs", t
    yield "no outputs", G.simple_tx(n_in=2, n_out=0)
    t = G.simple_tx(n_out=0); t["ins"] = []
    yield "nothing", t
    # single values at every position
    vals = [0, 1, MAX - 1, MAX, MAX + 1, MAX + 2, -1, -MAX, 1 << 63, (1 << 64) - 1, 1 << 64, 21_000_000 * COIN, 21_000_000 * COIN + 1,
            105_000_000 * COIN, 105_000_000 * COIN + 1, 2 * MAX]
    for n_out in (1, 2, 3):
        for pos in range(n_out):
            for v in vals:
                t = G.simple_tx(n_out=n_out, value=0)
                t["outs"][pos]["value"] = v
                yield "value %d at %d/%d" % (v, pos, n_out), t
    # totals
    for n_out in range(2, 7):
        for total in (MAX - 1, MAX, MAX + 1):
            # crossing / reaching only at the last output
            t = G.simple_tx(n_out=n_out, value=1)
            t["outs"][0]["value"] = total - (n_out - 1)
            yield "total %d last, big first" % total, t
            t = G.simple_tx(n_out=n_out, value=1)
            t["outs"][-1]["value"] = total - (n_out - 1)
            yield "total %d last, big last" % total, t
            share = total // n_out
            t = G.simple_tx(n_out=n_out, value=share)
            t["outs"][-1]["value"] = total - share * (n_out - 1)
            yield "total %d equal shares" % total, t
            t = G.simple_tx(n_out=n_out, value=0)
            t["outs"][0]["value"] = MAX
            t["outs"][-1]["value"] = total - MAX if total >= MAX else 0
            yield "MAX then %d" % (total - MAX), t
        # a prefix above MAX in the middle (later outputs are zero)
        t = G.simple_tx(n_out=n_out + 1, value=0)
        t["outs"][0]["value"], t["outs"][1]["value"] = MAX, 1
        yield "prefix crosses at second of %d" % (n_out + 1), t
    # duplicates at every pair of positions
    for n_in in range(2, 7):
        for a, b in itertools.combinations(range(n_in), 2):
            t = G.simple_tx(n_in=n_in)
            _set_pt(t, b, (t["ins"][a]["prev"], t["ins"][a]["index"]))
            t["ins"][b]["script"], t["ins"][b]["sequence"] = b"\x01\x02", 5        # the outpoint is what counts
            yield "duplicate %d=%d of %d" % (a, b, n_in), t
            t = G.simple_tx(n_in=n_in)
            _set_pt(t, b, (t["ins"][a]["prev"], t["ins"][a]["index"] + 1000))      # same source tx, other output: fine
            yield "same hash, other index %d,%d of %d" % (a, b, n_in), t
            t = G.simple_tx(n_in=n_in)
            _set_pt(t, b, (b"\x99" * 32, t["ins"][a]["index"]))                    # same index, other tx: fine
            yield "same index, other hash %d,%d of %d" % (a, b, n_in), t
    t = G.simple_tx(n_in=2)
    _set_pt(t, 1, (t["ins"][0]["prev"], t["ins"][0]["index"]))
    t["ins"][1]["witness"] = [b"\x01"]
    yield "duplicate differing in witness", t
    # coinbase script lengths
    for L in (0, 1, 2, 3, 50, 99, 100, 101, 102, 0xfc, 0xfd, 1000):
        for seq in (0xffffffff, 0):
            t = _set_pt(G.simple_tx(script_len=L, value=50 * COIN), 0, NULL)
            t["ins"][0]["sequence"] = seq
            yield "coinbase script %d" % L, t
        t = _set_pt(G.simple_tx(script_len=L, n_out=3, value=1, witness=[b"\0" * 32]), 0, NULL)
        yield "coinbase script %d with witness" % L, t
    # null outpoint among siblings; near-null outpoints alone and among siblings
    for n_in in range(2, 5):
        for pos in range(n_in):
            yield "null outpoint at %d/%d" % (pos, n_in), _set_pt(G.simple_tx(n_in=n_in, script_len=4), pos, NULL)
            for pt in NEAR_NULL:
                yield "near-null %s:%x at %d/%d" % (pt[0][:1].hex() + pt[0][-1:].hex(), pt[1], pos, n_in), \
                    _set_pt(G.simple_tx(n_in=n_in, script_len=4), pos, pt)
        t = _set_pt(_set_pt(G.simple_tx(n_in=n_in), 0, NULL), n_in - 1, NULL)
        yield "two null outpoints", t
        t = _set_pt(_set_pt(G.simple_tx(n_in=n_in), 0, NEAR_NULL[0]), n_in - 1, NEAR_NULL[1])
        yield "two zero-hash outpoints, different indices", t
    for pt in NEAR_NULL:
        for L in (0, 1, 2, 50, 100, 101, 200):
            yield "near-null alone, script %d" % L, _set_pt(G.simple_tx(script_len=L), 0, pt)
    # moderately large but far from the limit
    yield "100k script", G.simple_tx(script_len=100_000)
    yield "300 in 300 out", G.simple_tx(n_in=300, n_out=300)


def size_cases(part):
    """sizes around the limit; part 0: no witness, part 1: with witness"""
    targets = (LIMIT - 1, LIMIT, LIMIT + 1)
    if part == 0:
        for tgt in targets:
            yield "total=stripped=%d in_script" % tgt, sized_tx(tgt, True, 0, "in_script")
            yield "total=stripped=%d out_script" % tgt, sized_tx(tgt, True, 0, "out_script")
            yield "total=stripped=%d many outputs" % tgt, sized_tx(tgt, True, 0, "in_script", n_in=3, n_out=2000)
        # exact-limit transactions that also contain elements sitting on the compact-size boundaries (length or count of
        # exactly 252 / 253 / 254 / 65535 / 65536): a size computed by adding up field sizes must agree with the bytes
        for tgt in targets:
            for edge in (252, 253, 254, 0xffff, 0x10000):
                t = sized_tx(tgt - 0, True, 0, "in_script", n_in=2, n_out=2)
                # second input's script and second output's script sit on the boundary; re-balance the padding
                t["ins"][1]["script"] = b"\x51" * edge
                t["outs"][1]["script"] = b"\x6a" * edge
                pad = len(t["ins"][0]["script"]) - (len(R.serialize(t, with_witness=False)) - tgt)
                if pad >= 0:
                    t["ins"][0]["script"] = b"\x51" * pad
                    for _ in range(6):
                        d_ = tgt - len(R.serialize(t, with_witness=False))
                        if d_ == 0:
                            break
                        t["ins"][0]["script"] = b"\x51" * (len(t["ins"][0]["script"]) + d_)
                    if len(R.serialize(t, with_witness=False)) == tgt:
                        yield "total=stripped=%d with %d-byte scripts" % (tgt, edge), t
            for count in (252, 253, 254):
                yield "total=stripped=%d with %d outputs" % (tgt, count), sized_tx(tgt, True, 0, "in_script", n_in=1, n_out=count)
                yield "total=stripped=%d with %d inputs" % (tgt, count), sized_tx(tgt, True, 0, "out_script", n_in=count, n_out=1)
        yield "total=stripped=%d coinbase-sized plain" % (LIMIT + 5000), sized_tx(LIMIT + 5000, True, 0)
        yield "total=stripped=2*LIMIT", sized_tx(2 * LIMIT, True, 0, "out_script")
    else:
        for tgt in targets:
            yield "total=%d with small witness" % tgt, sized_tx(tgt, False, 10, "in_script")
            yield "total=%d mostly witness" % tgt, sized_tx(tgt, False, 1, "witness", n_in=2)
            yield "stripped=%d plus witness" % tgt, sized_tx(tgt, True, 3000, "out_script")
            yield "stripped=%d plus one witness byte" % tgt, sized_tx(tgt, True, 1, "in_script", n_in=2)
        for tgt in targets:
            t = sized_tx(tgt, True, 0, "in_script", n_in=2)
            t["ins"][1]["witness"] = [b"\x33" * 253, b"\x44" * 252]
            yield "stripped=%d plus 253-byte witness items" % tgt, t
        yield "stripped small, total 1.2M", sized_tx(1_200_000, False, 1, "witness")
        yield "stripped=%d, witness 300k" % (LIMIT - 50_000), sized_tx(LIMIT - 50_000, True, 300_000, "in_script")


def _wellformed_random(rng, MAX):
    d = G.rand_tx(rng, distinct_outpoints=True, p_count_edge=0.01)
    if not d["outs"]:
        d["outs"] = [{"value": 1, "script": b""}]
    left = MAX
    for o in d["outs"]:
        r = rng.random()
        v = 0 if r < 0.2 else 1 if r < 0.3 else left if r < 0.36 else rng.randrange(0, left + 1) if r < 0.6 else rng.randrange(0, min(left, 10 ** 10) + 1)
        v = min(v, left)
        o["value"] = v
        left -= v
    return d


DEFECT_KINDS = ["value_hi", "value_neg", "total", "dup", "coinbase_short", "coinbase_long", "null_in_multi", "no_in", "no_out"]
BENIGN_KINDS = ["none", "none", "coinbase_ok", "near_null", "near_null_single", "same_hash", "fill_to_max", "reorder"]


def _inject(d, kind, rng, MAX):
    n_in, n_out = len(d["ins"]), len(d["outs"])
    if kind == "value_hi":
        d["outs"][rng.randrange(n_out)]["value"] = rng.choice([MAX + 1, MAX + 2, 1 << 63, (1 << 64) - 1, 1 << 64, MAX * 2])
    elif kind == "value_neg":
        d["outs"][rng.randrange(n_out)]["value"] = rng.choice([-1, -2, -MAX, -(1 << 63)])
    elif kind == "total":
        if n_out < 2:
            d["outs"].append({"value": 0, "script": b"\x51"})
        s = sum(o["value"] for o in d["outs"][:-1])
        d["outs"][-1]["value"] = MAX - s + rng.choice([1, 1, 2, 1000])
        if d["outs"][-1]["value"] > MAX:       # would be a single-value defect instead; spread it
            d["outs"][0]["value"] += 1
            d["outs"][-1]["value"] = MAX
    elif kind == "dup":
        if n_in < 2:
            d["ins"].append(dict(d["ins"][0], script=b"\x00"))
        else:
            a, b = rng.sample(range(n_in), 2)
            d["ins"][b]["prev"], d["ins"][b]["index"] = d["ins"][a]["prev"], d["ins"][a]["index"]
    elif kind in ("coinbase_short", "coinbase_long", "coinbase_ok"):
        d["ins"] = d["ins"][:1]
        _set_pt(d, 0, NULL)
        L = {"coinbase_short": rng.choice([0, 1]), "coinbase_long": rng.choice([101, 102, 253, rng.randrange(101, 3000)]),
             "coinbase_ok": rng.choice([2, 3, 100, 99, rng.randrange(2, 101)])}[kind]
        d["ins"][0]["script"] = G.rbytes(rng, L)
    elif kind == "null_in_multi":
        if n_in < 2:
            d["ins"].append({"prev": G.rbytes(rng, 32), "index": 1, "script": b"", "sequence": 0, "witness": []})
        _set_pt(d, rng.randrange(len(d["ins"])), NULL)
    elif kind == "no_in":
        d["ins"] = []
    elif kind == "no_out":
        d["outs"] = []
    elif kind == "near_null":
        _set_pt(d, rng.randrange(n_in), rng.choice(NEAR_NULL[:3] + [(G.NULL_HASH, rng.getrandbits(32) % 0xffffffff)] + NEAR_NULL[3:]))
    elif kind == "near_null_single":
        d["ins"] = d["ins"][:1]
        _set_pt(d, 0, rng.choice(NEAR_NULL))
        d["ins"][0]["script"] = G.rbytes(rng, rng.choice([0, 1, 2, 50, 100, 101, 150]))
    elif kind == "same_hash":
        if n_in >= 2:
            a, b = rng.sample(range(n_in), 2)
            d["ins"][b]["prev"] = d["ins"][a]["prev"]
            if d["ins"][b]["index"] == d["ins"][a]["index"]:
                d["ins"][b]["index"] ^= 1
    elif kind == "fill_to_max":
        s = sum(o["value"] for o in d["outs"][:-1])
        d["outs"][-1]["value"] = MAX - s
    elif kind == "reorder":
        d["ins"].sort(key=lambda i: i["prev"], reverse=True)
    return d


def _judge_live(net, T, tx, rec, hist):
    """check() on a live object against the defect predicate of its CURRENT fields"""
    d = G.from_pycoin(tx)
    MAX = MAXES[net]
    dfx = defects(d, MAX)
    total_size = len(R.serialize(d)) if serialisable(d) else None
    rec.ev("Tx.check(history)")
    st, r = observe(tx.check)
    case = {"net": net, "history": list(hist), "final_shape": [len(d["ins"]), len(d["outs"]), total_size]}
    rec.case((net, "hist", tuple(hist[-6:]), tuple(dfx), total_size if (total_size or 0) > 900000 else 0))
    if dfx:
        if st == "ok":
            rec.violation("history.check_accepts_defective." + dfx[0], dict(case, defects=dfx), "returned", "raise")
    elif total_size is not None and total_size <= LIMIT:
        if st != "ok" and not zero_hash_non_null(d):
            rec.violation("history.check_rejects_wellformed", case, r, "return")


def history_cases(net, T, rng, rec, n):
    """one Tx object, edited in place between check() calls: the verdict must follow the object's current fields"""
    MAX = MAXES[net]
    for _ in range(n):
        d = _wellformed_random(rng, MAX)
        if not d["ins"] or not d["outs"]:
            continue
        tx = G.to_pycoin(T, d)
        hist = []
        _judge_live(net, T, tx, rec, hist)
        for step in range(rng.randrange(2, 7)):
            e = rng.choice(["grow_script", "shrink_script", "add_out", "pop_out", "value_hi", "value_ok", "dup_in", "undup_in", "null_in", "unnull_in",
                            "big_witness", "grow_out_script"])
            if e == "grow_script":
                tx.txs_in[0].script = b"\x51" * rng.choice([LIMIT - 200, LIMIT, LIMIT + 10])
            elif e == "shrink_script":
                tx.txs_in[0].script = b"\x51" * rng.choice([0, 5, 100])
            elif e == "grow_out_script":
                tx.txs_out[-1].script = b"\x6a" * rng.choice([LIMIT - 300, LIMIT + 1])
            elif e == "add_out":
                tx.txs_out.append(T.TxOut(rng.choice([0, 1, MAX, MAX + 1, 5000]), b"\x51"))
            elif e == "pop_out" and len(tx.txs_out) > 1:
                tx.txs_out.pop()
            elif e == "value_hi":
                tx.txs_out[0].coin_value = rng.choice([MAX + 1, MAX, -1])
            elif e == "value_ok":
                for o in tx.txs_out:
                    o.coin_value = rng.choice([0, 1, 1000])
            elif e == "dup_in":
                t0 = tx.txs_in[rng.randrange(len(tx.txs_in))]
                tx.txs_in.append(T.TxIn(t0.previous_hash, t0.previous_index, b"\x51", 7))
            elif e == "undup_in" and len(tx.txs_in) > 1:
                tx.txs_in.pop()
            elif e == "null_in":
                k = rng.randrange(len(tx.txs_in))
                tx.txs_in[k].previous_hash, tx.txs_in[k].previous_index = G.NULL_HASH, G.NULL_INDEX
            elif e == "unnull_in":
                for k, ti in enumerate(tx.txs_in):
                    if ti.previous_hash == G.NULL_HASH:
                        ti.previous_hash = bytes([k + 1]) * 32
            elif e == "big_witness":
                tx.txs_in[0].witness = [b"\x00" * rng.choice([10, LIMIT])]
            else:
                continue
            hist.append(e)
            _judge_live(net, T, tx, rec, hist)


def run_shard(spec, rec):
    nets = _nets(rec)
    kind = spec["kind"]
    if kind != "history":
        rec.require("Tx.check", "Tx.is_coinbase", "purity_snapshot.returning", "purity_snapshot.raising", "expected_accept")
    if kind == "sweep":
        net = spec["net"]
        rec.require("Tx.bad_solution_count(coinbase)")
        k = 0
        for label, d in sweep(net):
            _check_one(net, nets[net], d, rec, label=label, with_unspents=(k % 3 == 0))
            k += 1
            if label in ("coinbase script 2", "null outpoint at 1/2") and len(rec.samples) < 2 and net == "BTC":
                rec.sample({"class": net, "label": label, "tx": G.pack(d), "defects": defects(d, MAXES[net])})
        return
    if kind == "sizes":
        net = spec["net"]
        rec.require("expected_accept.at_size_limit", "expected_reject.stripped_size_over_limit")
        for label, d in size_cases(spec["part"]):
            _check_one(net, nets[net], d, rec, label=label)
        return
    rng = shard_rng(spec["seed"], PROPERTY, spec["tier"], spec["shard"])
    if kind == "history":
        rec.require("Tx.check(history)")
        for net in ("BTC", "GRS", "LTC"):
            history_cases(net, nets[net], rng, rec, spec["n"])
        return
    order = ["BTC", "GRS", "BTC", "GRS", "LTC", "BCH", "BTG"]
    for i in range(spec["n"]):
        net = order[i % len(order)]
        MAX = MAXES[net]
        d = _wellformed_random(rng, MAX)
        r = rng.random()
        if r < 0.45:
            kinds = [rng.choice(BENIGN_KINDS)]
        elif r < 0.9:
            kinds = [rng.choice(DEFECT_KINDS)]
        else:
            kinds = [rng.choice(DEFECT_KINDS + BENIGN_KINDS), rng.choice(DEFECT_KINDS + BENIGN_KINDS)]
        for kd in kinds:
            if d["ins"] and d["outs"]:
                d = _inject(d, kd, rng, MAX)
        _check_one(net, nets[net], d, rec, with_unspents=rng.random() < 0.2)
        if i == 3 and len(R.serialize(d) if serialisable(d) else b"x" * 999) < 400:
            rec.sample({"class": net, "tx": G.pack(d), "defects": defects(d, MAX), "injected": kinds})


def replay_case(case, rec):
    nets = _nets(rec)
    d = G.unpack(case["tx"])
    net = case.get("net", "BTC")
    _check_one(net, nets[net], d, rec, label=case.get("label"))
    _check_one(net, nets[net], d, rec, label=case.get("label"), with_unspents=True)
