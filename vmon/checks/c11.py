"""C11 — Base58, Base58Check, Bech32/Bech32m codecs are exact and detect corruption."""
import itertools

from vmon.probe import shard_rng, observe
from vmon.refs import b58 as RB, bech32 as R32

PROPERTY = "C11"
LEVEL = "exploration"
TECHNIQUE = "differential runtime monitor vs independent codec references; exhaustive substitution sweeps"
RULE = ("cases: byte strings of every length 0..80 x leading-zero counts (all-zero inputs included), every Base58 string of at most "
        "two characters, alphabet/non-alphabet strings, Base58Check checksum byte / payload byte / single-character corruptions and "
        "checksums cut short or missing, (hrp, version, program) triples incl. every version 0..16 (one evidence counter each), every "
        "allowed and disallowed length, random human-readable parts over 33..126 of every length 1..83, total lengths 88..92 around "
        "the 90-character limit, mixed case (single flipped letter, one part / only the checksum in the other case), wrong checksum "
        "constant, bad padding, and all single + all/sampled double + sampled triple/quadruple substitutions of valid addresses "
        "(quick tier: one Bech32 v0 and one Bech32m v1 address); every string the reference says is no Bech32 string also goes "
        "through parse_bech32; strings from restricted alphabets (valid addresses with no cased "
        "character at all - digit/punctuation HRP, digit-only data part and checksum - found by search, and characters "
        "outside ASCII whose case folding lands in the charset); call histories on one process: the same request repeated "
        "and spelled differently (plain str / parseable_str, bytes / list program, explicit max_length=90, the same text "
        "under two HRPs) after every mutable value handed out earlier or passed in was modified in place by the caller; "
        "histories with refused calls in between (human-readable parts in upper / mixed case as the first use of a fresh, "
        "never-used HRP in the process, versions / programs / items / texts of the wrong value or type, for every public "
        "function of the anchors), after which the next judged calls must be right and the caller's list / bytearray "
        "arguments unchanged; byte strings handed over as bytearray and asked twice with the same object; results of a decoder "
        "handed to the encoder; one parseable_str through both families of parsers incl. addresses that are Base58 strings too; "
        "HRPs that nest; one long run of more than 2**16 operations in one process on one HRP and two parseable_str objects; "
        "constructed 5-bit symbol streams with a valid checksum of either constant: for every program length 0..41, version 0, 1 "
        "and others, every padding shape (zero padding of 0..4 bits, 5..19 zero bits as extra all-zero groups, a non-zero padding "
        "bit in every position and in combinations, extra non-zero groups, random streams with a biased tail), lower and upper "
        "case, through bech32m.decode, bech32_decode, convertbits, parse_bech32 (plain str and parseable_str) and the address "
        "parsers (parse.address, p2pkh_segwit, p2sh_segwit, p2tr) of the networks owning the HRPs bc, tb, bcrt, ltc, tltc, with a "
        "plain string or with the parseable_str that went through parse_bech32 before. "
        "A case is non-trivial when it is not the empty input; distinct by (operation, input).")
ASSUMPTIONS = [
    "reference codecs in vmon/refs/b58.py and vmon/refs/bech32.py are correct (self-tested on every run against the "
    "published Base58 vectors and the BIP173/BIP350 valid/invalid lists)",
    "'difference of up to four characters' is read as up to four substituted character positions (the BCH guarantee)",
    "a byte string held in a bytearray is a byte string: the Base58 encoders (which take one today) answer as for bytes, leave "
    "the caller's buffer as it was and answer the same when handed the same buffer again; likewise list / bytearray programs "
    "and lists of 5-bit groups",
    "requests outside the statement (a human-readable part with upper-case letters on the encoding side, versions, programs, "
    "items, texts of the wrong value or type) are never judged themselves - refusing or answering is both fine - only the "
    "judged calls that follow them in the same process and the caller's mutable arguments are",
    "parse_bech32 (the cached decode helper) rejects a checksum-valid string with invalid padding when it raises, returns None "
    "or returns an empty / None program; it is not asked to enforce version, program length or checksum-constant rules "
    "(strings invalid for those reasons only are not judged at the helper, whatever it answers)",
    "the address parsers network.parse.address / p2pkh_segwit / p2sh_segwit / p2tr are decoders of segwit addresses: for a "
    "checksum-valid Bech32 string under the network's own HRP that BIP173/BIP350 call invalid (padding, length, version, "
    "constant) and that is no Base58Check string, they return None or raise; which valid programs they recognise is not judged "
    "(valid P2WPKH / P2WSH / P2TR siblings being accepted is counted as evidence only)",
]
EXPLANATION = ("every pycoin codec call is compared with the reference codec's result; rejection classes must raise EncodingError / "
               "return (None, None); in history shards the expected result of a call never depends on earlier calls or on what the "
               "caller did with earlier results, nor on refused requests in between; the long-run shard repeats the comparison for more "
               "than 2**16 operations in one process; the padding-shape shards build the 5-bit stream themselves, decide it with "
               "two independent formulations of the BIP173 padding rule (big-integer regrouping and bit arithmetic on the last groups, "
               "compared on every case) and require every decoding entry point, the cached helper and the address parsers "
               "included, to yield no program for a stream with more than four or with non-zero padding bits")


def exhaustive(tier):
    return False


def plan(tier, seed):
    n_addr = 2 if tier == "quick" else 10      # quick: a v0 (Bech32) and a v1 (Bech32m) address, 6 parts each
    shards = [{"kind": "b58", "n": 6000 if tier == "quick" else 300000},
              {"kind": "b58check", "n": 1500 if tier == "quick" else 60000},
              {"kind": "bech32", "n": 8000 if tier == "quick" else 400000},
              {"kind": "bech32_reject", "n": 6000 if tier == "quick" else 300000}]
    shards.append({"kind": "caseless", "n": 90 if tier == "quick" else 3000, "label": "caseless"})
    for p in range(2 if tier == "quick" else 6):
        shards.append({"kind": "hist", "n": 500 if tier == "quick" else 25000, "label": "hist%d" % p})
    # substitution sweeps: singles fully, doubles split over shards by first position
    parts = 6 if tier == "quick" else 12
    for a in range(n_addr):
        for p in range(parts):
            shards.append({"kind": "subst", "addr": a, "part": p, "parts": parts,
                           "double_budget": 8000 if tier == "quick" else None,
                           "multi": 2600 if tier == "quick" else 20000})
    # appended last: the shard number feeds the rng of the shards above
    for p in range(2 if tier == "quick" else 6):
        shards.append({"kind": "errhist", "n": 1200 if tier == "quick" else 20000, "label": "errhist%d" % p})
    shards.append({"kind": "longrun", "n": (1 << 16 if tier == "quick" else 1 << 17) + 100 + 150, "label": "longrun"})
    # padding shapes of constructed 5-bit streams through every segwit-decoding entry point (appended last, see above)
    pp = 2 if tier == "quick" else 4
    for p in range(pp):
        shards.append({"kind": "padshape", "part": p, "parts": pp, "n": 700 if tier == "quick" else 60000, "label": "padshape%d" % p})
    return shards


# valid segwit addresses without a single cased character (hrp, version, program hex, address); the reference codec is
# validated on them at self-test time and the search below must be able to produce strings of exactly this class
CASELESS_EXAMPLES = [
    ("2", 7, "aebd4a", "21846755369899"),
    ("2", 5, "2a8e5f", "21992897204456"),
    ("42", 15, "8ea2aa", "421036325653706"),
    ("42", 5, "3d6b5d7954", "421984446725020036"),
    ("2024", 10, "557d4d1cf4546952be873d28a52954a78b43d3ca", "20241224756885235490588552222557958572990008"),
    ("?", 7, "abfd5f", "?1840747220099"),
    ("?", 10, "7aa3a7d7c75168a52b5ad1e25f1caa3bcfea9551", "?1202360478295222666839789280874923556206"),
    ("1", 5, "f1df4f", "11978057522247"),
    ("#1", 10, "aea95f", "#11246547403453"),
]
CASELESS_HRPS = ["2", "42", "2024", "?", "#1", "1", "11", "0", "~", "_", "[]", "`", "{|}", "9-9", "@", "!\"#", "^_^", "$%&'()*+,-./:;<=>"]
DIGIT5 = [i for i, ch in enumerate(R32.CHARSET) if ch.isdigit()]


def _has_case(text):
    return text.lower() != text or text.upper() != text


def _caseless_groups(rng, nbits_pad, n):
    """n 5-bit groups drawn from the digit characters of the charset, the last one with `nbits_pad` zero low bits."""
    last = [g for g in DIGIT5 if g % (1 << nbits_pad) == 0]
    if n == 0:
        return []
    if not last:
        return None
    return [rng.choice(DIGIT5) for _ in range(n - 1)] + [rng.choice(last)]


def _pm_feed(c, vals):
    for v in vals:
        b = c >> 25
        c = ((c & 0x1ffffff) << 5) ^ v
        for i in range(5):
            if (b >> i) & 1:
                c ^= R32.GEN[i]
    return c


def caseless_search(rng, hrp, first, n, pad, variant, tries=400):
    """Search data = [first] + n digit groups whose 6 checksum characters are digits too. -> data5 or None.
    The checksum state of a random prefix is computed once and the last (up to) three groups are enumerated."""
    if n and not [g for g in DIGIT5 if g % (1 << pad) == 0]:
        return None
    digits = set(DIGIT5)
    head = ([first] if first is not None else [])
    k = min(n, 3)
    for _ in range(tries):
        g = _caseless_groups(rng, pad, n)
        fixed = head + g[:n - k]
        c0 = _pm_feed(1, R32._expand(hrp) + fixed)
        tails = [[]]
        for j in range(k):
            allowed = DIGIT5 if j < k - 1 else [x for x in DIGIT5 if x % (1 << pad) == 0]
            tails = [t + [x] for t in tails for x in allowed]
        rng.shuffle(tails)
        for t in tails:
            pm = _pm_feed(c0, t + [0] * 6) ^ R32.CONST[variant]
            if all(((pm >> (5 * (5 - i))) & 31) in digits for i in range(6)):
                data = fixed + t
                assert R32.checksum(hrp, data, variant) == [(pm >> (5 * (5 - i))) & 31 for i in range(6)]
                return data
    return None


def selftest(rec):
    n = 0
    for hrp, ver, ph, text in CASELESS_EXAMPLES:
        prog = bytes.fromhex(ph)
        assert not _has_case(text) and not any(ch.isalpha() for ch in text), text
        assert R32.segwit_encode(hrp, ver, prog) == text, text
        assert R32.segwit_decode(hrp, text) == (ver, prog), text
        assert R32.raw_decode(text) == (hrp, [ver] + R32.to5(prog), "bech32m"), text
        for k in range(len(hrp) + 1, len(text)):        # every single digit substitution is detected
            for ch in "0234":
                if ch != text[k]:
                    assert R32.raw_decode(text[:k] + ch + text[k + 1:]) is None
        n += 1
    import random
    d = caseless_search(random.Random(11), "42", 7, 5, 1, "bech32m")
    assert d is not None and not _has_case(R32.raw_encode("42", d, "bech32m")) and R32.from5(d[1:]) is not None
    # case folding facts the unicode class relies on
    assert "\u212a".lower() == "k" and "\u017f".upper() == "S" and "\u0131".upper() == "I"
    return {"b58_vectors": RB.selftest(), "bech32_vectors": R32.selftest(), "caseless_examples": n + 1,
            "padding_verdicts": _pad_selftest()}


# ---------------------------------------------------------------------------------------------

def _imports():
    from pycoin.encoding import b58
    from pycoin.encoding.exceptions import EncodingError
    from pycoin.contrib import bech32m
    from pycoin.networks import parseable_str as ps
    return b58, EncodingError, bech32m, ps


def _check_b58_bytes(data, rec, M):
    b58, EncodingError, _, ps = M
    exp = RB.encode(data)
    rec.ev("b2a_base58")
    st, got = observe(b58.b2a_base58, data)
    rec.case(("b58", data), nontrivial=len(data) > 0)
    if data[:1] == b"\0":
        rec.ev("b58.input_with_leading_zeros" if data.strip(b"\0") else "b58.input_all_zeros")
    if st != "ok" or got != exp:
        rec.violation("b58.encode_mismatch", {"data": data}, got, exp)
        return
    rec.ev("a2b_base58")
    st, back = observe(b58.a2b_base58, exp)
    if st != "ok" or back != data:
        rec.violation("b58.decode_not_inverse", {"text": exp}, back, data)
    # checksummed form
    expc = RB.encode_check(data)
    rec.ev("b2a_hashed_base58")
    st, gotc = observe(b58.b2a_hashed_base58, data)
    if st != "ok" or gotc != expc:
        rec.violation("b58check.encode_mismatch", {"data": data}, gotc, expc)
        return
    rec.ev("a2b_hashed_base58")
    st, backc = observe(b58.a2b_hashed_base58, expc)
    if st != "ok" or backc != data:
        rec.violation("b58check.decode_not_inverse", {"text": expc}, backc, data)
    rec.ev("is_hashed_base58_valid")
    if b58.is_hashed_base58_valid(expc) is not True:
        rec.violation("b58check.valid_reported_invalid", {"text": expc}, False, True)
    rec.ev("parse_b58_double_sha256")
    st, p = observe(ps.parse_b58_double_sha256, expc)
    # parse_b58_double_sha256 returns None for an empty payload by design of `if data:`; only non-empty judged
    if len(data) > 0 and (st != "ok" or p != data):
        rec.violation("parseable.b58check_mismatch", {"text": expc}, p, data)


def _check_b58_text(text, rec, M):
    """Arbitrary text through the decoders: compare with reference (None = reject)."""
    b58, EncodingError, _, ps = M
    exp = RB.decode(text)
    rec.ev("a2b_base58")
    rec.case(("b58text", text), nontrivial=len(text) > 0)
    st, got = observe(b58.a2b_base58, text)
    if exp is None:
        rec.ev("b58.expected_reject.non_alphabet")
        if st == "ok":
            rec.violation("b58.accepts_non_alphabet", {"text": text}, got, "EncodingError")
        elif not isinstance(got, EncodingError):
            rec.violation("b58.wrong_exception", {"text": text}, got, "EncodingError")
    else:
        if st != "ok" or got != exp:
            rec.violation("b58.decode_mismatch", {"text": text}, got, exp)
        else:
            rec.ev("b58.text_decode_then_encode")
            st2, re = observe(b58.b2a_base58, got)
            if st2 != "ok" or re != text:
                rec.violation("b58.encode_not_inverse_of_decode", {"text": text}, re, text)
    expc = RB.decode_check(text)
    rec.ev("a2b_hashed_base58")
    st, got = observe(b58.a2b_hashed_base58, text)
    valid = b58.is_hashed_base58_valid(text) if (st == "ok" or isinstance(got, EncodingError)) else None
    rec.ev("is_hashed_base58_valid")
    if expc is None:
        if exp is not None:
            rec.ev("b58check.expected_reject.wrong_checksum" if len(exp) >= 4 else "b58check.expected_reject.shorter_than_checksum")
        if st == "ok":
            rec.violation("b58check.accepts_bad_checksum", {"text": text}, got, "EncodingError")
        elif not isinstance(got, EncodingError):
            rec.violation("b58check.wrong_exception", {"text": text}, got, "EncodingError")
        if valid is True:
            rec.violation("b58check.is_valid_true_on_bad", {"text": text}, True, False)
        st3, p = observe(ps.parse_b58_double_sha256, text)
        rec.ev("parse_b58_double_sha256")
        if st3 != "ok" or p is not None:
            rec.violation("parseable.accepts_bad_checksum", {"text": text}, p, None)
    else:
        if st != "ok" or got != expc:
            rec.violation("b58check.decode_mismatch", {"text": text}, got, expc)
        if valid is False:
            rec.violation("b58check.valid_reported_invalid", {"text": text}, False, True)


def run_b58(spec, rec, M):
    rng = shard_rng(spec["seed"], PROPERTY, spec["tier"], spec["shard"])
    n = spec["n"]
    done = 0
    # every length 0..80 x every leading-zero count, three fillers
    for L in range(0, 81):
        for z in range(0, L + 1):
            if z > 6 and z not in (L, L - 1) and rng.random() < 0.8:
                continue
            for fill in ("ff", "01", "rnd"):
                body = {"ff": b"\xff" * (L - z), "01": b"\x01" * (L - z),
                        "rnd": bytes(rng.randrange(1, 256) if i == 0 else rng.randrange(256) for i in range(L - z))}[fill]
                _check_b58_bytes(b"\0" * z + body, rec, M)
                done += 1
    while done < n:
        L = rng.choice([1, 2, 3, 4, 5, 20, 21, 25, 32, 33, 34, 37, 38, 74, 78, 82, rng.randrange(0, 130)])
        z = rng.choice([0, 0, 0, 1, 2, rng.randrange(0, L + 1)])
        data = b"\0" * z + bytes(rng.randrange(256) for _ in range(L - z))
        _check_b58_bytes(data, rec, M)
        done += 1
    # every string of at most two alphabet characters (the short end of "all strings over the alphabet": these decode to
    # fewer bytes than a checksum has)
    _check_b58_text("", rec, M)
    for a in RB.ALPHABET:
        _check_b58_text(a, rec, M)
        for b in RB.ALPHABET:
            _check_b58_text(a + b, rec, M)
    # arbitrary text: alphabet-only, near-alphabet, non-ascii
    outside = "0OIl+/= _-\n\té€\U0001F600\x00"
    for i in range(n // 2):
        L = rng.choice([0, 1, 2, 3, 5, 6, 7, 10, 27, 34, 35, 51, 52, 111])
        chars = [rng.choice(RB.ALPHABET) for _ in range(L)]
        mode = rng.random()
        if mode < 0.35 and L:
            chars[rng.randrange(L)] = rng.choice(outside)
        elif mode < 0.45:
            chars = ["1"] * rng.randrange(0, 6) + chars
        elif mode < 0.5:
            chars = [chr(rng.randrange(1, 0x3000)) for _ in range(L)]
        _check_b58_text("".join(chars), rec, M)
    rec.sample({"op": "b2a_base58", "data": b"\0\0\x01\x02", "text": RB.encode(b"\0\0\x01\x02")})
    rec.require("b2a_base58", "a2b_base58", "b2a_hashed_base58", "a2b_hashed_base58", "is_hashed_base58_valid",
                "parse_b58_double_sha256", "b58.input_with_leading_zeros", "b58.input_all_zeros", "b58.text_decode_then_encode",
                "b58.expected_reject.non_alphabet", "b58check.expected_reject.shorter_than_checksum")


def run_b58check(spec, rec, M):
    rng = shard_rng(spec["seed"], PROPERTY, spec["tier"], spec["shard"])
    rng2 = shard_rng(spec["seed"], PROPERTY, spec["tier"], spec["shard"], "cut")
    for i in range(spec["n"]):
        L = rng.choice([0, 1, 20, 21, 33, 34, 37, 78, rng.randrange(0, 90)])
        payload = bytes(rng.randrange(256) for _ in range(L))
        if rng.random() < 0.3:
            payload = b"\0" * rng.randrange(1, 4) + payload
        good = RB.encode_check(payload)
        raw = payload + RB.dsha(payload)[:4]
        # each of the 4 checksum bytes altered
        k = rng.randrange(4)
        bad = bytearray(raw)
        bad[len(raw) - 4 + k] ^= 1 << rng.randrange(8)
        _check_b58_text(RB.encode(bytes(bad)), rec, M)
        # a payload byte altered
        if payload:
            bad = bytearray(raw)
            bad[rng.randrange(len(payload))] ^= 1 << rng.randrange(8)
            _check_b58_text(RB.encode(bytes(bad)), rec, M)
        # truncated checksum (3 bytes compared would pass this if only 3 were checked)
        bad = bytearray(raw)
        bad[-1] ^= 0xff
        _check_b58_text(RB.encode(bytes(bad)), rec, M)
        # checksum cut short / missing / followed by one more byte (short payloads: the string is shorter than a checksum)
        if i % 4 == 0:
            short = payload[:rng2.choice([0, 0, 1, 2, 3, len(payload)])]
            full = short + RB.dsha(short)[:4]
            for cut in (full[:-1], full[:-2], full[:-3], short, full + b"\0", b"\0" + full):
                _check_b58_text(RB.encode(cut), rec, M)
        # single-character substitutions of the text (all positions for a few, sampled otherwise)
        positions = range(len(good)) if i % 40 == 0 else [rng.randrange(len(good))]
        for pos in positions:
            for ch in (RB.ALPHABET if i % 40 == 0 else [rng.choice(RB.ALPHABET)]):
                if ch != good[pos]:
                    _check_b58_text(good[:pos] + ch + good[pos + 1:], rec, M)
        if i < 2:
            rec.sample({"op": "a2b_hashed_base58", "valid": good, "corrupted": RB.encode(bytes(bad))})
    rec.require("a2b_hashed_base58", "is_hashed_base58_valid", "b58check.expected_reject.wrong_checksum",
                "b58check.expected_reject.shorter_than_checksum")


HRPS = ["bc", "tb", "bcrt", "ltc", "a", "1", "11", "x1y", "tltc", "vtc", "abcdefghijklmnopqrst", "z9", "?", "~hrp~", "bc1"]


def _segwit_lengths(ver):
    return [20, 32] if ver == 0 else list(range(2, 41))


def _check_segwit_triple(hrp, ver, prog, rec, M):
    """encode/decode for any triple, allowed or not."""
    _, _, bm, ps = M
    exp = R32.segwit_encode(hrp, ver, prog)
    rec.ev("bech32m.encode")
    rec.case(("enc", hrp, ver, prog))
    st, got = observe(bm.encode, hrp, ver, prog)
    if exp is None:
        if st == "ok" and got is not None:
            rec.violation("bech32.encodes_disallowed", {"hrp": hrp, "ver": ver, "prog": prog}, got, None)
        return None
    sfx = "" if _has_case(exp) else ".caseless_string"
    if sfx:
        rec.ev("bech32.caseless_valid_string")
    if st != "ok" or got != exp:
        rec.violation("bech32.encode_mismatch" + sfx, {"hrp": hrp, "ver": ver, "prog": prog}, got, exp)
        return None
    # the program given as a list of byte values is the same request
    rec.ev("bech32m.encode.list_program")
    st, got = observe(bm.encode, hrp, ver, list(prog))
    if st != "ok" or got != exp:
        rec.violation("bech32.encode_mismatch.list_program", {"hrp": hrp, "ver": ver, "prog": prog}, got, exp)
    for text in (exp, exp.upper()):
        rec.ev("bech32m.decode")
        st, d = observe(bm.decode, hrp, text)
        if st != "ok" or d[0] != ver or d[1] is None or bytes(d[1]) != prog:
            rec.violation("bech32.decode_not_inverse" + sfx, {"hrp": hrp, "text": text}, d, [ver, prog])
    rec.ev("parse_bech32")
    for arg in (exp, ps.parseable_str(exp)):
        st, t = observe(ps.parse_bech32, arg)
        if st != "ok" or t is None or t[0] != hrp or t[1] != ver or t[2] != prog:
            rec.violation("parseable.bech32_mismatch" + sfx, {"text": exp}, t, [hrp, ver, prog])
    rec.ev("bech32.roundtrip.witver_%d" % ver)
    if len(exp) == 90:
        rec.ev("bech32.roundtrip.length_90")
    return exp


# rejection classes that get their own evidence counter (the first four are named by the property statement)
REJECT_CLASSES = ("mixed_case", "wrong_constant", "bad_length", "bad_padding", "bad_version", "malformed", "other_hrp", "overlong",
                  "unicode_fold", "caseless_corrupted")


def _check_decode_text(hrp, text, rec, M, must_reject=False, why=""):
    """bech32m.decode(hrp, text) and bech32_decode(text) against the reference."""
    _, _, bm, ps = M
    exp = R32.segwit_decode(hrp, text)
    rec.ev("bech32m.decode")
    rec.case(("dec", hrp, text))
    st, got = observe(bm.decode, hrp, text)
    if must_reject and exp is not None:
        rec.note("oracle disagreement with BIP guarantee on %r (%s)" % (text, why))
        rec.violation("oracle.bech32_reference_accepts_corruption", {"hrp": hrp, "text": text}, exp, None)
        return
    if exp is None:
        if why in REJECT_CLASSES:
            rec.ev("bech32.expected_reject." + why)
        if st != "ok":
            rec.violation("bech32.decode_raises", {"hrp": hrp, "text": text, "why": why}, got, [None, None])
        elif tuple(got) != (None, None):
            rec.violation("bech32.accepts_invalid" + ("." + why if why else ""), {"hrp": hrp, "text": text, "why": why}, got, [None, None])
    else:
        if st != "ok" or got[0] != exp[0] or got[1] is None or bytes(got[1]) != exp[1]:
            rec.violation("bech32.decode_mismatch" + ("" if _has_case(text) else ".caseless_string"), {"hrp": hrp, "text": text}, got, exp)
    rexp = R32.raw_decode(text)
    rec.ev("bech32m.bech32_decode")
    st, rg = observe(bm.bech32_decode, text)
    if rexp is None:
        if st != "ok":
            rec.violation("bech32.raw_decode_raises", {"text": text}, rg, None)
        elif tuple(rg) != (None, None, None):
            rec.violation("bech32.raw_accepts_invalid" + ("." + why if why else ""), {"hrp": hrp, "text": text, "why": why}, rg, None)
        # the cached helper used by address parsing is a decoder too: not a Bech32 string -> nothing parsed (raising = rejecting)
        rec.ev("parse_bech32.expected_reject")
        st, t = observe(ps.parse_bech32, text)
        if st == "ok" and t is not None:
            rec.violation("parseable.bech32_accepts_invalid" + ("." + why if why else ""), {"hrp": hrp, "text": text, "why": why}, t, None)
    else:
        want = (rexp[0], rexp[1], 1 if rexp[2] == "bech32" else 2)
        if st == "ok" and rg[1] is not None:
            rg = (rg[0], list(rg[1]), rg[2])
        if st != "ok" or (rg[0], rg[1], rg[2]) != want:
            rec.violation("bech32.raw_decode_mismatch" + ("" if _has_case(text) else ".caseless_string"), {"hrp": hrp, "text": text}, rg, want)
            return
        # the documented default spelled out is the same request
        rec.ev("bech32m.bech32_decode.max_length_90")
        for a, kw in (((text, 90), {}), ((text,), {"max_length": 90})):
            st, rg = observe(bm.bech32_decode, *a, **kw)
            if st != "ok" or rg[1] is None or (rg[0], list(rg[1]), rg[2]) != want:
                rec.violation("bech32.raw_decode_mismatch.explicit_max_length", {"hrp": hrp, "text": text}, rg, want)


HRP_CHARS = [chr(c) for c in range(33, 127) if not chr(c).isupper()]     # BIP173: 1..83 characters of 33..126; encoders emit lower case


def _rand_hrp(rng, n):
    return "".join(rng.choice(HRP_CHARS) for _ in range(n))


def run_bech32(spec, rec, M):
    rng = shard_rng(spec["seed"], PROPERTY, spec["tier"], spec["shard"])
    rng2 = shard_rng(spec["seed"], PROPERTY, spec["tier"], spec["shard"], "hrp")
    n = spec["n"]
    done = 0
    # the 90-character limit of BIP173: addresses of total length 88..90 are valid and must round-trip, 91 and 92 are no
    # Bech32 strings; human-readable parts of every length up to the maximum of 83
    for ver, L in ((0, 20), (0, 32), (1, 32), (1, 40), (16, 2), (2, 3), (7, 11), (16, 40)):
        fixed = 2 + (8 * L + 4) // 5 + 6
        for total in (88, 89, 90, 91, 92):
            for _ in range(3):
                hrp = _rand_hrp(rng2, total - fixed)
                prog = bytes(rng2.randrange(256) for _ in range(L))
                if total <= 90:
                    _check_segwit_triple(hrp, ver, prog, rec, M)
                else:
                    text = R32.raw_encode(hrp, [ver] + R32.to5(prog), "bech32" if ver == 0 else "bech32m")
                    assert len(text) == total
                    _check_decode_text(hrp, text, rec, M, why="overlong")
    for hl in list(range(1, 86)):
        for variant in ("bech32", "bech32m"):
            hrp = _rand_hrp(rng2, hl)
            k = rng2.choice([0, 0, 1, 90 - hl - 7]) if hl <= 83 else 0
            text = R32.raw_encode(hrp, [rng2.randrange(32) for _ in range(max(0, k))], variant)
            if len(text) == 90 and R32.raw_decode(text) is not None:
                rec.ev("bech32.raw_valid.length_90")
            _check_decode_text(hrp, text, rec, M, why="overlong" if len(text) > 90 else "hrp_length")
    # every version x every program length 0..42 (allowed and not) for a few HRPs
    for hrp in HRPS[:4] if spec["tier"] == "quick" else HRPS:
        for ver in range(-1, 19):
            for L in range(0, 43):
                if len(hrp) + 1 + 1 + (L * 8 + 4) // 5 + 6 > 90:
                    continue
                prog = bytes(rng.randrange(256) for _ in range(L))
                if ver < 0:
                    continue
                _check_segwit_triple(hrp, ver, prog, rec, M)
                done += 1
    while done < n:
        hrp = rng.choice(HRPS)
        if rng2.random() < 0.15:
            hrp = _rand_hrp(rng2, rng2.choice([1, 2, 3, 4, 5, 8, 13, rng2.randrange(1, 40)]))
        ver = rng.choice([0, 0, 1, 1, 2, 15, 16, rng.randrange(17)])
        L = rng.choice(_segwit_lengths(ver))
        fill = rng.random()
        prog = (b"\0" * L if fill < 0.1 else b"\xff" * L if fill < 0.2 else bytes(rng.randrange(256) for _ in range(L)))
        if len(hrp) + 2 + (L * 8 + 4) // 5 + 6 > 90:
            continue
        t = _check_segwit_triple(hrp, ver, prog, rec, M)
        if done % 1000 == 0 and t:
            rec.sample({"op": "bech32m.encode", "hrp": hrp, "ver": ver, "prog": prog, "text": t})
        done += 1
    rec.require("bech32m.encode", "bech32m.encode.list_program", "bech32m.decode", "bech32m.bech32_decode", "parse_bech32",
                "bech32.roundtrip.length_90", "bech32.raw_valid.length_90", "bech32.expected_reject.overlong", "convertbits",
                *["bech32.roundtrip.witver_%d" % v for v in range(17)])
    # convertbits both ways
    _, _, bm, _ = M
    for L in range(0, 70):
        for _ in range(3):
            d = bytes(rng.randrange(256) for _ in range(L))
            rec.ev("convertbits")
            rec.case(("cb", d), nontrivial=L > 0)
            five = bm.convertbits(d, 8, 5)
            if five != R32.to5(d):
                rec.violation("bech32.convertbits_8to5", {"data": d}, five, R32.to5(d))
            back = bm.convertbits(five, 5, 8, False)
            if back is None or bytes(back) != d:
                rec.violation("bech32.convertbits_5to8", {"data": d}, back, d)
            # arbitrary 5-bit groups: strict padding rule
            vals = [rng.randrange(32) for _ in range(rng.randrange(0, 40))]
            if rng.random() < 0.5 and vals:
                vals[-1] = 0
            e = R32.from5(vals)
            g = bm.convertbits(vals, 5, 8, False)
            rec.case(("cb5", tuple(vals)), nontrivial=bool(vals))
            if (e is None) != (g is None) or (e is not None and bytes(g) != e):
                rec.violation("bech32.convertbits_padding", {"vals": vals}, g, e)


def run_bech32_reject(spec, rec, M):
    """Rejection classes named by the property: mixed case, wrong constant, bad length, bad padding."""
    rng = shard_rng(spec["seed"], PROPERTY, spec["tier"], spec["shard"])
    n = spec["n"]
    for i in range(n):
        hrp = rng.choice(HRPS[:6])
        ver = rng.choice([0, 0, 1, 2, 16, rng.randrange(17)])
        cls = i % 8
        if cls == 0:      # wrong checksum constant for the version
            L = rng.choice(_segwit_lengths(ver))
            prog = bytes(rng.randrange(256) for _ in range(L))
            text = R32.raw_encode(hrp, [ver] + R32.to5(prog), "bech32m" if ver == 0 else "bech32")
            _check_decode_text(hrp, text, rec, M, why="wrong_constant")
        elif cls == 1:    # mixed case
            L = rng.choice(_segwit_lengths(ver))
            good = R32.segwit_encode(hrp, ver, bytes(rng.randrange(256) for _ in range(L)))
            idx = [k for k, ch in enumerate(good) if ch.isalpha()]
            k = rng.choice(idx)
            _check_decode_text(hrp, good[:k] + good[k].upper() + good[k + 1:], rec, M, why="mixed_case")
            if i % 16 == 1:   # upper-case everything but one
                up = good.upper()
                _check_decode_text(hrp, up[:k] + up[k].lower() + up[k + 1:], rec, M, why="mixed_case")
            if i % 16 == 9:   # each part in one case, the two parts in different cases; only the checksum in the other case
                sep = len(hrp)
                for t in (good[:sep].upper() + good[sep:], good[:sep] + good[sep:].upper(), good[:-6] + good[-6:].upper(),
                          good[:-6].upper() + good[-6:]):
                    if t.lower() != t and t.upper() != t:
                        _check_decode_text(hrp, t, rec, M, why="mixed_case")
        elif cls == 2:    # invalid program length (valid checksum)
            L = rng.choice([0, 1, 41, 42, 45] if ver else [0, 1, 2, 19, 21, 31, 33, 40, 41])
            prog = bytes(rng.randrange(256) for _ in range(L))
            text = R32.raw_encode(hrp, [ver] + R32.to5(prog), "bech32" if ver == 0 else "bech32m")
            _check_decode_text(hrp, text, rec, M, why="bad_length")
        elif cls == 3:    # non-zero padding / too many padding bits (valid checksum)
            L = rng.choice(_segwit_lengths(ver))
            five = R32.to5(bytes(rng.randrange(256) for _ in range(L)))
            mode = rng.random()
            pad = (-8 * L) % 5
            if mode < 0.5 and pad:
                five[-1] |= 1 << rng.randrange(pad)
            else:
                five = five + [0] * rng.choice([1, 2])     # 5+ padding bits (may equal a valid longer program)
            text = R32.raw_encode(hrp, [ver] + five, "bech32" if ver == 0 else "bech32m")
            _check_decode_text(hrp, text, rec, M, why="bad_padding")
        elif cls == 4:    # version > 16
            v = rng.randrange(17, 32)
            prog = bytes(rng.randrange(256) for _ in range(rng.choice([20, 32])))
            text = R32.raw_encode(hrp, [v] + R32.to5(prog), "bech32m")
            _check_decode_text(hrp, text, rec, M, why="bad_version")
        elif cls == 5:    # other hrp / empty data / no separator / overlong
            good = R32.segwit_encode(hrp, ver, bytes(rng.randrange(256) for _ in range(rng.choice(_segwit_lengths(ver)))))
            variants = [good.replace("1", "", 1), "1" + good, good + "q", good[:-1], hrp + "1", good[len(hrp) + 1:],
                        R32.raw_encode(hrp, [], "bech32"), R32.raw_encode(hrp, [], "bech32m"),
                        R32.raw_encode(hrp + "x" * 60, [ver] + R32.to5(b"\1" * 32), "bech32m"), "", " " + good, good + " ",
                        good[:3] + "é" + good[4:], good[:-3] + "b" + good[-2:]]
            _check_decode_text(hrp, rng.choice(variants), rec, M, why="malformed")
            _check_decode_text(rng.choice([h for h in HRPS if h != hrp]), good, rec, M, why="other_hrp")
        elif cls == 6:    # random raw-valid strings of either constant: decode must equal reference
            five = [rng.randrange(32) for _ in range(rng.randrange(0, 60))]
            if len(hrp) + 1 + len(five) + 6 > 92:
                five = five[:30]
            text = R32.raw_encode(hrp, five, rng.choice(["bech32", "bech32m"]))
            _check_decode_text(hrp, text, rec, M, why="random_valid_checksum")
        else:             # random strings over the charset
            text = hrp + "1" + "".join(rng.choice(R32.CHARSET) for _ in range(rng.randrange(0, 50)))
            _check_decode_text(hrp, text, rec, M, why="random_text")
        if i < 2:
            rec.sample({"op": "bech32m.decode", "class": cls, "hrp": hrp})
    rec.require("bech32m.bech32_decode", "parse_bech32.expected_reject",
                *["bech32.expected_reject." + w for w in ("mixed_case", "wrong_constant", "bad_length", "bad_padding", "bad_version",
                                                          "malformed", "other_hrp")])


CASELESS_LENGTHS = [L for L in range(2, 41) if L % 5 in (0, 1, 3)]      # other lengths need a last group that is no digit


def run_caseless(spec, rec, M):
    """Restricted alphabets: valid strings with no cased character at all (letter-free HRP, data part and checksum made of
    the nine digit characters of the charset), found by search; their corruptions; non-ASCII characters whose case
    folding is a charset character."""
    rng = shard_rng(spec["seed"], PROPERTY, spec["tier"], spec["shard"])
    found = 0
    for hrp, ver, ph, text in CASELESS_EXAMPLES:
        t = _check_segwit_triple(hrp, ver, bytes.fromhex(ph), rec, M)
        assert t is None or t == text
        _check_decode_text(hrp, text, rec, M, why="caseless")
    for i in range(spec["n"]):
        hrp = CASELESS_HRPS[i % len(CASELESS_HRPS)] if i < 2 * len(CASELESS_HRPS) else rng.choice(CASELESS_HRPS)
        ver = rng.choice([5, 7, 10, 15])
        L = rng.choice([3, 5, 6, 20] + CASELESS_LENGTHS)
        while len(hrp) + 2 + (8 * L + 4) // 5 + 6 > 90:
            L = rng.choice(CASELESS_LENGTHS[:8])
        kind = i % 5
        if kind < 3:          # a valid segwit address
            data = caseless_search(rng, hrp, ver, (8 * L + 4) // 5, (-8 * L) % 5, "bech32m")
            if data is None:
                continue
            prog = R32.from5(data[1:])
            text = _check_segwit_triple(hrp, ver, prog, rec, M)
            if text is None:
                continue
            assert not _has_case(text)
            found += 1
            _check_decode_text(hrp, text, rec, M, why="caseless")
            # corruptions that stay letter-free, and one that brings in a letter in either case
            for _ in range(8):
                k = rng.randrange(len(hrp) + 1, len(text))
                ch = rng.choice([c for c in "023456789" if c != text[k]])
                _check_decode_text(hrp, text[:k] + ch + text[k + 1:], rec, M, why="caseless_corrupted")
            k = rng.randrange(len(hrp) + 1, len(text))
            for ch in ("q", "Q", "l", "L"):
                _check_decode_text(hrp, text[:k] + ch + text[k + 1:], rec, M, why="caseless_corrupted")
            if found <= 2:
                rec.sample({"op": "bech32m.encode (no cased character)", "hrp": hrp, "ver": ver, "prog": prog, "text": text})
        elif kind == 3:       # the other checksum constant, still letter-free: raw-valid, not an address
            data = caseless_search(rng, hrp, ver, (8 * L + 4) // 5, (-8 * L) % 5, "bech32")
            if data is not None:
                _check_decode_text(hrp, R32.raw_encode(hrp, data, "bech32"), rec, M, why="wrong_constant")
        else:                 # raw strings of either constant, any data length
            variant = rng.choice(["bech32", "bech32m"])
            data = caseless_search(rng, hrp, None, rng.choice([3, 4, 6, 8, 13, rng.randrange(3, 40)]), 0, variant)
            if data is not None:
                text = R32.raw_encode(hrp, data, variant)
                assert not _has_case(text)
                rec.ev("bech32.caseless_valid_string")
                _check_decode_text(hrp, text, rec, M, why="caseless_raw")
    rec.require("bech32.caseless_valid_string", "bech32.expected_reject.caseless_corrupted")
    # characters outside ASCII that case-fold into ASCII letters (KELVIN SIGN -> k, LONG S -> S, DOTLESS I -> I)
    folds = {"k": "\u212a", "K": "\u212a", "s": "\u017f", "S": "\u017f"}
    for i in range(spec["n"]):
        hrp = rng.choice(["bc", "tb", "ks", "sk1k", "2", "ltc"])
        ver = rng.choice([0, 1, rng.randrange(17)])
        prog = bytes(rng.randrange(256) for _ in range(rng.choice(_segwit_lengths(ver))))
        good = R32.segwit_encode(hrp, ver, prog)
        for spelled in (good, good.upper()):
            idx = [k for k, ch in enumerate(spelled) if ch in folds]
            for k in rng.sample(idx, min(3, len(idx))):
                rec.ev("bech32.unicode_fold")
                _check_decode_text(hrp, spelled[:k] + folds[spelled[k]] + spelled[k + 1:], rec, M, why="unicode_fold")
            if "i" not in hrp:
                k = rng.randrange(len(spelled))
                _check_decode_text(hrp, spelled[:k] + "\u0131" + spelled[k + 1:], rec, M, why="unicode_fold")
    rec.require("bech32.unicode_fold", "bech32.expected_reject.unicode_fold")


# -- call histories ---------------------------------------------------------------------------
# One process, many calls: the expected result of every call is the reference's answer for that call alone. Between calls
# the caller modifies in place every mutable value it was handed (lists of 5-bit groups, program lists) and every list it
# passed in; requests are repeated, spelled differently (str / parseable_str, bytes / list, explicit max_length), and the
# same text is asked about under different HRPs.

MUTS = ["none", "none", "pop0", "clear", "reverse", "append", "flip0", "del_tail", "insert0", "fill"]


def _mutate(obj, how):
    if how == "none" or obj is None:
        return
    lists = [obj] if isinstance(obj, (list, bytearray)) else [x for x in obj if isinstance(x, (list, bytearray))] \
        if isinstance(obj, tuple) else []
    for x in lists:
        if how == "pop0":
            if len(x):
                x.pop(0)
        elif how == "clear":
            del x[:]
        elif how == "reverse":
            x.reverse()
        elif how == "append":
            x.append(31)
        elif how == "flip0":
            if len(x):
                x[0] ^= 1
        elif how == "del_tail":
            del x[-3:]
        elif how == "insert0":
            x.insert(0, 1)
        elif how == "fill":
            x[:] = [7] * len(x)


def _h_expected(st):
    """-> normalised expected outcome, or None when the statement does not decide the call."""
    op = st["op"]
    if op == "bech32_decode":
        t = R32.raw_decode(st["text"])
        return ("rej",) if t is None else ("ok", t[0], list(t[1]), 1 if t[2] == "bech32" else 2)
    if op == "decode":
        t = R32.segwit_decode(st["hrp"], st["text"])
        return ("rej",) if t is None else ("ok", t[0], t[1])
    if op == "encode":
        t = R32.segwit_encode(st["hrp"], st["ver"], st["prog"])
        return ("rej",) if t is None else ("ok", t)
    if op == "parse_bech32":
        raw = R32.raw_decode(st["text"])
        if raw is None:
            return ("rej",)
        t = R32.segwit_decode(raw[0], st["text"])
        return None if t is None else ("ok", raw[0], t[0], t[1])
    if op == "convertbits85":
        return ("ok", R32.to5(st["data"]))
    if op == "convertbits58":
        t = R32.from5(st["vals"])
        return ("rej",) if t is None else ("ok", t)
    if op == "bech32_encode":
        return ("ok", R32.raw_encode(st["hrp"], st["vals"], st["variant"]))
    if op == "a2b_base58":
        t = RB.decode(st["text"])
        return ("rej",) if t is None else ("ok", t)
    if op == "a2b_hashed_base58":
        t = RB.decode_check(st["text"])
        return ("rej",) if t is None else ("ok", t)
    if op == "is_hashed_base58_valid":
        return ("ok", RB.decode_check(st["text"]) is not None)
    if op == "parse_b58_double_sha256":
        t = RB.decode_check(st["text"])
        return ("rej",) if t is None else None if t == b"" else ("ok", t)
    if op == "b2a_base58":
        return ("ok", RB.encode(st["data"]))
    if op == "b2a_hashed_base58":
        return ("ok", RB.encode_check(st["data"]))
    if op == "x":                        # a call the library may refuse: never judged itself
        return None
    if op == "parse_b58":
        t = RB.decode(st["text"])
        return ("rej",) if t is None else ("ok", t)
    if op == "chain_bech32":             # bech32_decode, then bech32_encode of exactly what came back
        return ("rej",) if R32.raw_decode(st["text"]) is None else ("ok", st["text"].lower())
    if op == "chain_segwit":             # decode, then encode of the returned version and list
        return ("rej",) if R32.segwit_decode(st["hrp"], st["text"]) is None else ("ok", st["text"].lower())
    if op == "chain_parse":              # parse_bech32, then encode of the returned triple
        raw = R32.raw_decode(st["text"])
        if raw is None:
            return ("rej",)
        return None if R32.segwit_decode(raw[0], st["text"]) is None else ("ok", st["text"].lower())
    if op == "chain_b58":                # a2b_hashed_base58, then b2a_hashed_base58 of a bytearray of what came back
        return ("rej",) if RB.decode_check(st["text"]) is None else ("ok", st["text"])
    raise ValueError(op)


def _h_text_arg(st, env, M):
    ps = M[3]
    if st.get("spell") == "pstr":        # one parseable_str object per text for the whole history (it carries a cache)
        o = env["pstr"].get(st["text"])
        if o is None:
            o = env["pstr"][st["text"]] = ps.parseable_str(st["text"])
        return o
    if st.get("spell") == "pstr_new":
        return ps.parseable_str(st["text"])
    return st["text"]


def _h_run(st, env, M, reuse=None):
    """Perform the call; -> (normalised observed outcome, returned object, list / bytearray argument passed in or None,
    copy of that argument taken before the call). `reuse`: pass this very object again instead of building the argument."""
    b58, _, bm, ps = M
    op = st["op"]
    arg = snap = None
    seq = {"list": list, "bytearray": bytearray}

    def mk(value, how):
        a = reuse if reuse is not None else seq.get(how, bytes)(value)
        return a, (type(a)(a) if isinstance(a, (list, bytearray)) else None)

    if op == "x":
        return _x_run(st, M)
    if op == "bech32_decode":
        t = _h_text_arg(st, env, M)
        a, kw = {"pos90": ((t, 90), {}), "kw90": ((t,), {"max_length": 90})}.get(st.get("spell"), ((t,), {}))
        s, r = observe(bm.bech32_decode, *a, **kw)
        if s == "ok":
            n = ("rej",) if tuple(r) == (None, None, None) else ("ok", r[0], None if r[1] is None else list(r[1]), r[2])
    elif op == "decode":
        s, r = observe(bm.decode, st["hrp"], _h_text_arg(st, env, M))
        if s == "ok":
            n = ("rej",) if tuple(r) == (None, None) else ("ok", r[0], None if r[1] is None else bytes(r[1]))
    elif op == "encode":
        arg, snap = mk(st["prog"], st.get("as"))
        s, r = observe(bm.encode, st["hrp"], st["ver"], arg)
        if s == "ok":
            n = ("rej",) if r is None else ("ok", r)
    elif op == "parse_bech32":
        s, r = observe(ps.parse_bech32, _h_text_arg(st, env, M))
        if s == "ok":
            n = ("rej",) if r is None else ("ok", r[0], r[1], r[2])
    elif op == "convertbits85":
        arg, snap = mk(st["data"], st.get("as"))
        s, r = observe(bm.convertbits, arg, 8, 5)
        if s == "ok":
            n = ("rej",) if r is None else ("ok", list(r))
    elif op == "convertbits58":
        arg, snap = mk(st["vals"], "list")
        s, r = observe(bm.convertbits, arg, 5, 8, False)
        if s == "ok":
            n = ("rej",) if r is None else ("ok", bytes(r))
    elif op == "bech32_encode":
        arg, snap = mk(st["vals"], "list")
        s, r = observe(bm.bech32_encode, st["hrp"], arg, 1 if st["variant"] == "bech32" else 2)
        if s == "ok":
            n = ("ok", r)
    elif op in ("a2b_base58", "a2b_hashed_base58", "is_hashed_base58_valid"):
        s, r = observe(getattr(b58, op), st["text"])
        if s == "ok":
            n = ("ok", r)
    elif op in ("parse_b58_double_sha256", "parse_b58"):
        s, r = observe(getattr(ps, op), _h_text_arg(st, env, M))
        if s == "ok":
            n = ("rej",) if r is None else ("ok", r)
    elif op in ("b2a_base58", "b2a_hashed_base58"):
        if st.get("as") == "bytearray":          # a byte string in a buffer the caller owns
            arg, snap = mk(st["data"], "bytearray")
        s, r = observe(getattr(b58, op), st["data"] if arg is None else arg)
        if s == "ok":
            n = ("ok", r)
    elif op == "chain_bech32":
        s, r = observe(bm.bech32_decode, _h_text_arg(st, env, M))
        if s == "ok":
            if tuple(r) == (None, None, None):
                n = ("rej",)
            else:
                s, r = observe(bm.bech32_encode, r[0], r[1], r[2])
                n = ("ok", r)
    elif op == "chain_segwit":
        s, r = observe(bm.decode, st["hrp"], _h_text_arg(st, env, M))
        if s == "ok":
            if tuple(r) == (None, None):
                n = ("rej",)
            else:
                s, r = observe(bm.encode, st["hrp"], r[0], r[1])
                n = ("rej",) if r is None else ("ok", r)
    elif op == "chain_parse":
        s, r = observe(ps.parse_bech32, _h_text_arg(st, env, M))
        if s == "ok":
            if r is None:
                n = ("rej",)
            else:
                s, r = observe(bm.encode, r[0], r[1], r[2])
                n = ("rej",) if r is None else ("ok", r)
    elif op == "chain_b58":
        s, r = observe(b58.a2b_hashed_base58, st["text"])
        if s == "ok":
            arg, snap = mk(r, "bytearray")
            s, r = observe(b58.b2a_hashed_base58, arg)
            n = ("ok", r)
    else:
        raise ValueError(op)
    if s != "ok":
        return ("exc", type(r).__name__), None, arg, snap
    return n, r, arg, snap


def _h_agrees(op, exp, got):
    if exp is None or got == exp:
        return True
    if got[0] == "exc":
        # raising is a way of rejecting; only the two functions that promise a boolean / an encoding must not raise
        return exp == ("rej",) or (op == "is_hashed_base58_valid" and exp == ("ok", False))
    return False


_SEEN_HRPS = set()          # lower-cased human-readable parts any history step of this process has named so far


def _h_hrps(st):
    """Human-readable parts a step is about (as spelled in the request and as found in its text)."""
    out = set()
    if isinstance(st.get("hrp"), str):
        out.add(st["hrp"].lower())
    t = st.get("text")
    if isinstance(t, str) and "1" in t and (st["op"] in BECH32_OPS or st.get("call") in BECH32_OPS):
        out.add(t.lower()[:t.rfind("1")])
    return out


BECH32_OPS = ("bech32_decode", "decode", "encode", "parse_bech32", "bech32_encode", "chain_bech32", "chain_segwit", "chain_parse",
              "bech32_create_checksum", "bech32_verify_checksum")


def _h_step(st, H, env, rec, M):
    """Execute step `st` (already appended to H). -> True when it disagreed with the reference."""
    exp = _h_expected(st)
    op = st["op"]
    rec.ev("hist.step")
    rec.ev("hist." + op)
    refused_before = any(h["op"] == "x" for h in H[:-1])
    if op == "x":
        rec.ev("hist.refused_call.%s.%s" % (st["call"], st["bad"].split("_")[0]))
        if st["bad"] in X_CASE_BADS and st["call"] in X_ENCODE_SIDE and st["hrp"].lower() not in _SEEN_HRPS:
            rec.ev("hist.refused_call.cased_hrp_is_first_use_of_hrp")
            env.setdefault("poisoned", set()).add(st["hrp"].lower())
    else:
        if refused_before and exp is not None:
            rec.ev("hist.judged_after_refused_call")
            if exp != ("rej",):
                rec.ev("hist.judged_after_refused_call.valid_request")
        if exp is not None and exp != ("rej",) and _h_hrps(st) & env.get("poisoned", set()):
            rec.ev("hist.valid_request_on_hrp_first_used_by_refused_call")
        if st.get("nested"):
            rec.ev("hist.decode.nested_hrp")
        if op == "parse_b58" and exp is not None and exp != ("rej",) and R32.raw_decode(st["text"]) is not None:
            rec.ev("hist.parse_b58.text_is_bech32_string_too")
    _SEEN_HRPS.update(_h_hrps(st))
    got, ret, arg, snap = _h_run(st, env, M)
    bad = not _h_agrees(op, exp, got)
    if bad:
        earlier = [h for h in H[:-1] if h.get("g") == st.get("g")]
        hands_out_list = lambda h: h["op"] in ("bech32_decode", "decode", "convertbits85", "convertbits58", "bech32_encode") or \
            h.get("as") in ("list", "bytearray")
        if refused_before:
            when = "after_refused_call"
        elif any(h.get("mut", "none") != "none" and hands_out_list(h) for h in earlier):
            when = "after_caller_modified_earlier_values"
        elif earlier:
            when = "after_related_calls"
        else:
            when = "first_call"
        rec.violation("hist.%s.%s" % (op, when), {"history": list(H)}, got, exp)
    # what the caller handed over is the caller's: a list / bytearray argument reads the same after the call, refused or not
    if snap is not None:
        rec.ev("hist.mutable_argument")
        rec.ev("hist.mutable_argument.%s" % type(arg).__name__)
        if op == "x":
            rec.ev("hist.mutable_argument.refused_call")
        if type(arg) is not type(snap) or arg != snap:
            rec.violation("hist.%s.argument_modified" % (op if op != "x" else "refused_call"), {"history": list(H)},
                          {"argument_after": arg}, {"argument_before": snap})
            bad = True
        elif st.get("twice") and not bad and op != "x":
            rec.ev("hist.second_call_same_object")
            got2, ret2, _, _ = _h_run(st, env, M, reuse=arg)
            if not (_h_agrees(op, exp, got2) if exp is not None else got2 == got):
                rec.violation("hist.%s.second_call_same_object" % op, {"history": list(H)}, got2, exp if exp is not None else got)
                bad = True
            _mutate(ret2, st.get("mut", "none"))
    how = st.get("mut", "none")
    if how != "none":
        rec.ev("hist.caller_mutation")
        _mutate(ret, how)
        _mutate(arg, how)
    return bad


FRESH_CHARS = "abcdefghijklmnopqrstuvwxyz" * 3 + "0123456789" + "-_.~?"


def _fresh_hrp(rng):
    """A human-readable part with at least one letter that no history step of this process has named before."""
    while True:
        n = rng.choice([1, 2, 2, 3, 3, 4, 5, 8, 12])
        hrp = "".join(rng.choice(FRESH_CHARS) for _ in range(n))
        if any(ch.isalpha() for ch in hrp) and hrp not in _SEEN_HRPS and hrp not in HRPS:
            return hrp


def _h_pool(rng, fresh=False):
    """-> list of (group, entry) the steps of one history draw from. fresh: human-readable parts never used in this process;
    some addresses picked so that their text is a Base58 string too (no '0', 'O', 'I', 'l')."""
    pool = []
    g = 0
    for _ in range(rng.choice([1, 2, 3])):
        hrp = _fresh_hrp(rng) if fresh else rng.choice(HRPS[:8] + ["2", "42"])
        ver = rng.choice([0, 0, 1, 1, 2, 16, rng.randrange(17)])
        prog = bytes(rng.randrange(256) for _ in range(rng.choice(_segwit_lengths(ver))))
        if len(hrp) + 2 + (len(prog) * 8 + 4) // 5 + 6 > 90:
            prog = prog[:20]
        if fresh and rng.random() < 0.4:
            hrp = "".join(ch for ch in hrp if ch not in "0l-_.~?")
            if hrp in _SEEN_HRPS or not any(ch.isalpha() for ch in hrp):
                hrp = _fresh_hrp(rng)
            for _ in range(60):
                if RB.decode(R32.segwit_encode(hrp, ver, prog)) is not None:
                    break
                prog = bytes(rng.randrange(256) for _ in range(len(prog) if ver == 0 else rng.choice([2, 3, 5, 8])))
        good = R32.segwit_encode(hrp, ver, prog)
        pool.append((g, {"t": "addr", "hrp": hrp, "ver": ver, "prog": prog, "text": good}))
        if rng.random() < 0.5:
            pool.append((g, {"t": "addr", "hrp": hrp, "ver": ver, "prog": prog, "text": good.upper()}))
        k = rng.randrange(len(hrp) + 1, len(good))
        bad = good[:k] + rng.choice([c for c in R32.CHARSET if c != good[k]]) + good[k + 1:]
        pool.append((g, {"t": "text32", "hrp": hrp, "text": bad}))
        other = R32.raw_encode(hrp, [ver] + R32.to5(prog), "bech32m" if ver == 0 else "bech32")
        pool.append((g, {"t": "text32", "hrp": hrp, "text": other}))
        g += 1
    hrp = rng.choice(HRPS[:6])
    pool.append((g, {"t": "text32", "hrp": hrp, "text": R32.raw_encode(hrp, [rng.randrange(32) for _ in range(rng.randrange(0, 30))],
                                                                       rng.choice(["bech32", "bech32m"]))}))
    g += 1
    for _ in range(rng.choice([1, 2])):
        payload = b"\0" * rng.choice([0, 0, 1, 3]) + bytes(rng.randrange(256) for _ in range(rng.choice([0, 1, 20, 21, 33, 78])))
        good = RB.encode_check(payload)
        pool.append((g, {"t": "bytes", "data": payload}))
        pool.append((g, {"t": "b58", "text": good}))
        k = rng.randrange(len(good))
        pool.append((g, {"t": "b58", "text": good[:k] + rng.choice([c for c in RB.ALPHABET if c != good[k]]) + good[k + 1:]}))
        pool.append((g, {"t": "b58", "text": good[:k] + rng.choice("0OIl ") + good[k + 1:]}))
        pool.append((g, {"t": "b58", "text": RB.encode(payload)}))
        g += 1
    return pool


EXT_OPS = {      # extended histories: both families of parsers on every text, decoder results handed to the encoder
    "addr": ["bech32_decode", "decode", "decode", "decode_other", "encode", "encode", "parse_bech32", "bech32_encode", "convertbits85",
             "convertbits58", "chain_bech32", "chain_segwit", "chain_parse", "parse_b58", "parse_b58", "parse_b58_double_sha256",
             "a2b_base58"],
    "text32": ["bech32_decode", "decode", "parse_bech32", "decode_other", "chain_bech32", "chain_segwit", "chain_parse", "parse_b58",
               "parse_b58_double_sha256"],
    "b58": ["a2b_base58", "a2b_hashed_base58", "is_hashed_base58_valid", "parse_b58_double_sha256", "parse_b58", "chain_b58",
            "parse_bech32", "bech32_decode"],
    "bytes": ["b2a_base58", "b2a_hashed_base58", "b2a_hashed_base58", "convertbits85"],
}


def _h_make_step(rng, g, e, ext=False):
    t = e["t"]
    mut = rng.choice(MUTS)
    if ext and t in ("addr", "text32") and rng.random() < 0.35 and RB.decode(e["text"]) is not None:
        # a Bech32 text over the Base58 alphabet: one object through both families of parsers
        op = rng.choice(["parse_b58", "parse_b58", "parse_bech32", "chain_parse", "parse_b58_double_sha256"])
        st = {"op": op, "g": g, "mut": mut, "twice": False, "text": e["text"], "spell": rng.choice(["pstr", "pstr", "pstr", "plain"])}
        return st
    if ext:
        op = rng.choice(EXT_OPS[t])
    elif t == "addr":
        op = rng.choice(["bech32_decode", "bech32_decode", "decode", "decode", "decode_other", "encode", "encode", "parse_bech32",
                         "bech32_encode", "convertbits85", "convertbits58"])
    elif t == "text32":
        op = rng.choice(["bech32_decode", "decode", "parse_bech32", "decode_other"])
    elif t == "b58":
        op = rng.choice(["a2b_base58", "a2b_hashed_base58", "is_hashed_base58_valid", "parse_b58_double_sha256"])
    else:
        op = rng.choice(["b2a_base58", "b2a_hashed_base58", "convertbits85"])
    st = {"op": op, "g": g, "mut": mut}
    if ext:
        st["twice"] = rng.random() < 0.5
    if ext and op == "decode_other" and rng.random() < 0.7:        # human-readable parts that nest
        h = e["hrp"]
        st.update(op="decode", hrp=rng.choice([h + "1", h + "1q", h + h, "1" + h, h[:-1] or "1", h[1:] or "1", h + "1" + h]),
                  text=e["text"], spell="plain", nested=True)
        return st
    if ext and op in ("chain_bech32", "chain_segwit", "chain_parse", "parse_b58"):
        st.update(text=e["text"], spell=rng.choice(["plain", "pstr", "pstr"]))
        if op == "chain_segwit":
            st.update(hrp=e["hrp"])
        return st
    if ext and op == "chain_b58":
        st.update(text=e["text"])
        return st
    if ext and op in ("b2a_base58", "b2a_hashed_base58"):
        st["as"] = rng.choice(["bytes", "bytearray", "bytearray"])
    if op == "bech32_decode":
        st.update(text=e["text"], spell=rng.choice(["plain", "plain", "pos90", "kw90", "pstr", "pstr_new"]))
    elif op == "decode":
        st.update(hrp=e["hrp"], text=e["text"], spell=rng.choice(["plain", "plain", "pstr"]))
    elif op == "decode_other":
        st.update(op="decode", hrp=rng.choice([h for h in HRPS[:6] if h != e["hrp"]]), text=e["text"], spell="plain")
    elif op == "encode":
        st.update(hrp=e["hrp"], ver=e["ver"], prog=e["prog"])
        st["as"] = rng.choice(["bytes", "list", "bytearray"])
    elif op == "parse_bech32":
        st.update(text=e["text"], spell=rng.choice(["plain", "pstr", "pstr_new"]))
    elif op == "bech32_encode":
        st.update(hrp=e["hrp"], vals=[e["ver"]] + R32.to5(e["prog"]), variant="bech32" if e["ver"] == 0 else "bech32m")
    elif op == "convertbits85":
        st.update(data=e["prog"] if t == "addr" else e["data"])
        st["as"] = rng.choice(["bytes", "list", "bytearray"])
    elif op == "convertbits58":
        st.update(vals=R32.to5(e["prog"]))
    elif op == "parse_b58_double_sha256":
        st.update(text=e["text"], spell=rng.choice(["plain", "pstr", "pstr_new"]))
    elif op in ("b2a_base58", "b2a_hashed_base58"):
        st.update(data=e["data"])
    else:
        st.update(text=e["text"])
    return st


# -- calls the library may refuse ---------------------------------------------------------------
# A step {"op": "x", "call": <function>, "bad": <what is wrong with the request>, ...the valid request it was derived from}.
# Nothing is demanded of the call itself (refusing is right, and where the library answers anyway the statement does not
# say what); what is judged are the calls after it, and that the caller's list / bytearray arguments are left alone.

X_CASE_BADS = ("hrp_upper", "hrp_mixed", "hrp_lastupper")
X_ENCODE_SIDE = ("encode", "bech32_encode", "bech32_create_checksum")
X_CASE = [(c, b) for c in X_ENCODE_SIDE for b in X_CASE_BADS] + [("bech32_verify_checksum", "hrp_upper"), ("decode", "hrp_upper")]
X_HRP = ["hrp_none", "hrp_bytes", "hrp_space", "hrp_empty", "hrp_del", "hrp_int"]
X_VER = ["ver_17", "ver_32", "ver_neg", "ver_2p32", "ver_none", "ver_str", "ver_float", "ver_list"]
X_PROG = ["prog_short", "prog_long", "prog_v0len", "prog_empty", "prog_item_256", "prog_item_neg", "prog_item_none", "prog_item_float",
          "prog_item_str", "prog_str", "prog_none", "prog_int"]
X_VALS = ["vals_item_32", "vals_item_none", "vals_item_str", "vals_none", "vals_str", "spec_none", "spec_3"]
X_TEXT = ["text_none", "text_bytes", "text_bytearray", "text_list", "text_int", "text_nonascii", "text_nul"]
X_DATA = ["data_str", "data_none", "data_int", "data_list", "data_list_300", "data_list_neg", "data_list_none", "data_list_str",
          "data_memoryview"]
X_ADDR = ([("encode", b) for b in X_CASE_BADS + tuple(X_HRP) + tuple(X_VER) + tuple(X_PROG)] +
          [("bech32_encode", b) for b in X_CASE_BADS + tuple(X_HRP[:3]) + tuple(X_VALS)] +
          [("bech32_create_checksum", b) for b in X_CASE_BADS + ("vals_item_none", "vals_none")] +
          [("bech32_verify_checksum", b) for b in ("hrp_upper", "hrp_none", "vals_item_none")] +
          [("convertbits85", b) for b in X_PROG[4:]] + [("convertbits58", b) for b in X_VALS[:5]])
X_TEXT32 = ([("decode", b) for b in ["hrp_upper", "hrp_none", "hrp_bytes", "hrp_int"] + X_TEXT] +
            [("bech32_decode", b) for b in X_TEXT + ["maxlen_none", "maxlen_str", "maxlen_10", "maxlen_neg"]] +
            [("parse_bech32", b) for b in X_TEXT])
X_B58 = [(c, b) for c in ("a2b_base58", "a2b_hashed_base58", "is_hashed_base58_valid", "parse_b58_double_sha256", "parse_b58")
         for b in X_TEXT + ["text_outside"]]
X_BYTES = [(c, b) for c in ("b2a_base58", "b2a_hashed_base58") for b in X_DATA] + [("convertbits85", b) for b in X_PROG[4:]]


def _x_make_step(rng, g, e, cased=False):
    t = e["t"]
    if t == "addr":
        call, bad = rng.choice(X_CASE if cased else X_ADDR + X_TEXT32)
    elif t == "text32":
        call, bad = rng.choice(X_TEXT32)
    elif t == "b58":
        call, bad = rng.choice(X_B58)
    else:
        call, bad = rng.choice(X_BYTES)
    st = {"op": "x", "call": call, "bad": bad, "g": g, "k": rng.choice([-1, -1, -1, 0, rng.randrange(1 << 16)])}
    for f in ("hrp", "ver", "prog", "text", "data"):
        if f in e:
            st[f] = e[f]
    if "prog" not in st and "data" in st:
        st["prog"] = st["data"]
    return st


def _x_seq(base, bad, k):
    """The sequence argument of a refused call: `base` (bytes or list) with the fault named by `bad` put in at position k."""
    what = bad.split("_", 1)[1]
    if what == "none":
        return None
    if what == "int":
        return 7
    if what == "str":
        return bytes(base).hex() if all(isinstance(x, int) and 0 <= x < 256 for x in base) else "qpzry"
    item = {"item_256": 256, "item_32": 32, "item_neg": -1, "item_none": None, "item_float": 1.5, "item_str": "1",
            "list_300": 300, "list_neg": -1, "list_none": None, "list_str": "a"}.get(what)
    out = list(base)
    if what == "list":
        return out
    if not out:
        return [item]
    k = k % len(out) if k >= 0 else len(out) - 1
    if k == len(out) - 1 and (k % 2 or len(out) == 1):
        out.append(item)         # every valid item first, then the bad one
    else:
        out[k] = item
    return out


def _x_run(st, M):
    """Perform the call of an "x" step. -> like _h_run."""
    b58, _, bm, ps = M
    call, bad, k = st["call"], st["bad"], st.get("k", -1)
    hrp, ver, prog, text = st.get("hrp"), st.get("ver"), st.get("prog"), st.get("text")
    if bad.startswith("hrp_"):
        letters = [i for i, ch in enumerate(hrp) if ch.isalpha()]
        i = letters[k % len(letters)] if letters else 0
        hrp = {"hrp_upper": hrp.upper(), "hrp_mixed": hrp[:i] + hrp[i:i + 1].upper() + hrp[i + 1:],
               "hrp_lastupper": hrp[:-1] + hrp[-1:].upper() if hrp[-1:].isalpha() else hrp.upper(),
               "hrp_none": None, "hrp_bytes": hrp.encode("utf8"), "hrp_space": hrp + " ", "hrp_empty": "", "hrp_del": hrp + "\x7f",
               "hrp_int": 5}[bad]
    if bad.startswith("ver_"):
        ver = {"ver_17": 17, "ver_32": 32, "ver_neg": -1, "ver_2p32": 1 << 32, "ver_none": None, "ver_str": str(ver),
               "ver_float": ver + 0.5, "ver_list": [ver]}[bad]
    arg = None
    if call in ("encode", "convertbits85"):
        if bad == "prog_short":
            prog = prog[:1]
        elif bad == "prog_long":
            prog = prog + prog + b"\1" * 41
        elif bad == "prog_v0len":
            ver, prog = 0, (prog + b"\0" * 32)[:21 + k % 11]
        elif bad == "prog_empty":
            prog = b""
        elif bad.startswith("prog_"):
            prog = _x_seq(prog, bad, k)
        if isinstance(prog, list):
            arg = prog
        elif bad.startswith(("hrp_", "ver_")) and k % 3 == 0:
            prog = arg = bytearray(prog)
        fn, a = (bm.encode, (hrp, ver, prog)) if call == "encode" else (bm.convertbits, (prog, 8, 5))
    elif call in ("bech32_encode", "bech32_create_checksum", "bech32_verify_checksum", "convertbits58"):
        vals = [ver] + R32.to5(prog)
        variant = "bech32" if ver == 0 else "bech32m"
        spec = {"spec_none": None, "spec_3": 3}.get(bad, 1 if ver == 0 else 2)
        if call == "bech32_verify_checksum":
            vals = vals + R32.checksum(st["hrp"], vals, variant)
        if bad.startswith("vals_"):
            vals = _x_seq(vals, bad, k)
        if isinstance(vals, list):
            arg = vals
        fn = getattr(bm, {"convertbits58": "convertbits"}.get(call, call), None)
        a = {"bech32_encode": (hrp, vals, spec), "bech32_create_checksum": (hrp, vals, spec),
             "bech32_verify_checksum": (hrp, vals), "convertbits58": (vals, 5, 8, False)}[call]
    elif call in ("decode", "bech32_decode", "parse_bech32", "a2b_base58", "a2b_hashed_base58", "is_hashed_base58_valid",
                  "parse_b58_double_sha256", "parse_b58"):
        if bad.startswith("text_"):
            i = k % (len(text) + 1)
            text = {"text_none": None, "text_bytes": text.encode("utf8"), "text_bytearray": bytearray(text.encode("utf8")),
                    "text_list": list(text), "text_int": 5, "text_nonascii": text[:i] + "\xe9" + text[i:],
                    "text_nul": text[:i] + "\0" + text[i:], "text_outside": text[:i] + "0OIl"[k % 4] + text[i:]}[bad]
        if isinstance(text, (list, bytearray)):
            arg = text
        if call == "decode":
            fn, a = bm.decode, (hrp, text)
        elif call == "bech32_decode":
            fn = bm.bech32_decode
            a = (text,) if not bad.startswith("maxlen_") else \
                (text, {"maxlen_none": None, "maxlen_str": "90", "maxlen_10": 10, "maxlen_neg": -1}[bad])
        else:
            fn, a = getattr(b58, call, None) or getattr(ps, call, None), (text,)
    elif call in ("b2a_base58", "b2a_hashed_base58"):
        data = st["data"]
        data = memoryview(data) if bad == "data_memoryview" else _x_seq(data, bad, k)
        if isinstance(data, list):
            arg = data
        fn, a = getattr(b58, call), (data,)
    else:
        raise ValueError(call)
    if fn is None:
        return ("absent",), None, None, None
    snap = type(arg)(arg) if arg is not None else None
    s, r = observe(fn, *a)
    if s != "ok":
        return ("exc", type(r).__name__), None, arg, snap
    refused = r is None or (isinstance(r, tuple) and r and all(x is None for x in r)) or r is False
    return ("rej",) if refused else ("answered",), r, arg, snap


def run_errhist(spec, rec, M):
    """Histories in which requests the library may refuse (wrong case of a never-used human-readable part, values and
    types that do not fit) stand between the judged calls."""
    rng = shard_rng(spec["seed"], PROPERTY, spec["tier"], spec["shard"])
    for r in range(spec["n"]):
        pool = _h_pool(rng, fresh=True)
        env = {"pstr": {}}
        H = []
        last = None
        queue = []
        if rng.random() < 0.6:          # the very first time the process hears of an HRP it is spelled in the wrong case
            for g in sorted({x[0] for x in pool if x[1]["t"] == "addr"}):
                if rng.random() < 0.8:
                    queue.append((g, [x[1] for x in pool if x[0] == g and x[1]["t"] == "addr"][0]))
        for i in range(rng.choice([6, 10, 16, 24])):
            if queue:
                g, e = queue.pop(0)
                st = _x_make_step(rng, g, e, cased=True)
            else:
                if last is not None and rng.random() < 0.6:
                    g, e = rng.choice([x for x in pool if x[0] == last])
                else:
                    g, e = rng.choice(pool)
                st = _x_make_step(rng, g, e) if rng.random() < 0.3 else _h_make_step(rng, g, e, ext=True)
            last = g
            H.append(st)
            rec.case(("errhist", r, i, st["op"], st.get("call"), st.get("bad"), st.get("text"), st.get("prog"), st.get("data"),
                      st.get("spell"), st.get("mut")))
            if _h_step(st, H, env, rec, M):
                break
        if r == 0:
            rec.sample({"op": "call history with refused calls", "steps": [{k: v for k, v in h.items() if k != "g"} for h in H[:5]]})
    rec.require("hist.refused_call.cased_hrp_is_first_use_of_hrp", "hist.valid_request_on_hrp_first_used_by_refused_call",
                "hist.judged_after_refused_call.valid_request", "hist.mutable_argument.refused_call",
                "hist.mutable_argument.list", "hist.mutable_argument.bytearray", "hist.second_call_same_object",
                "hist.parse_b58.text_is_bech32_string_too", "hist.decode.nested_hrp",
                *["hist." + op for op in ("x", "chain_bech32", "chain_segwit", "chain_parse", "chain_b58", "parse_b58", "b2a_base58",
                                          "b2a_hashed_base58", "encode", "decode", "bech32_decode", "parse_bech32",
                                          "a2b_hashed_base58", "parse_b58_double_sha256")],
                *["hist.refused_call.%s.%s" % cb for cb in (
                    ("encode", "hrp"), ("encode", "ver"), ("encode", "prog"), ("bech32_encode", "hrp"), ("bech32_encode", "vals"),
                    ("bech32_create_checksum", "hrp"), ("decode", "text"), ("bech32_decode", "text"), ("bech32_decode", "maxlen"),
                    ("convertbits85", "prog"), ("convertbits58", "vals"), ("b2a_base58", "data"), ("b2a_hashed_base58", "data"),
                    ("a2b_base58", "text"), ("a2b_hashed_base58", "text"), ("parse_b58_double_sha256", "text"),
                    ("parse_bech32", "text"))])


def run_hist(spec, rec, M):
    rng = shard_rng(spec["seed"], PROPERTY, spec["tier"], spec["shard"])
    for r in range(spec["n"]):
        pool = _h_pool(rng)
        env = {"pstr": {}}
        H = []
        last = None
        for i in range(rng.choice([6, 12, 25, 40])):
            if last is not None and rng.random() < 0.55:       # stay with the same valid string and its neighbours
                cands = [x for x in pool if x[0] == last]
                g, e = rng.choice(cands)
            else:
                g, e = rng.choice(pool)
            last = g
            st = _h_make_step(rng, g, e)
            H.append(st)
            rec.case(("hist", r, i, st["op"], st.get("text"), st.get("prog"), st.get("data"), st.get("spell"), st["mut"]))
            if _h_step(st, H, env, rec, M):
                break
        if r == 0:
            rec.sample({"op": "call history", "steps": [{k: v for k, v in h.items() if k != "g"} for h in H[:4]]})
    rec.require("hist.caller_mutation", *["hist." + op for op in (
        "bech32_decode", "decode", "encode", "parse_bech32", "bech32_encode", "convertbits85", "convertbits58", "a2b_base58",
        "a2b_hashed_base58", "is_hashed_base58_valid", "parse_b58_double_sha256", "b2a_base58", "b2a_hashed_base58")])


# -- one long run -----------------------------------------------------------------------------------
# More than 2**16 operations in one process: every codec entry point on one human-readable part, and the cached helpers on
# the same two parseable_str objects every time as well as on a new string every time. Requests are a function of the
# operation number alone, so a witness {"longrun_upto": i} is replayed by running operations 0..i again.

LR_HRP = "lr"


def _lr_payload(i):
    return i.to_bytes(3, "big") + bytes([(i * 167 + 13) & 255])


def run_longrun(spec, rec, M, upto=None):
    b58, EncodingError, bm, ps = M
    n = spec["n"] if upto is None else upto + 1
    c0 = _pm_feed(1, R32._expand(LR_HRP))
    p_payload = b"\0long run"
    P = ps.parseable_str(RB.encode_check(p_payload))
    q = ("bc", 1, bytes(range(32)))
    Q = ps.parseable_str(R32.segwit_encode(*q))
    bad = 0

    def differs(mech, i, got, exp):
        rec.violation("longrun." + mech, {"longrun_upto": i, "payload": _lr_payload(i)}, got, exp)
        return 1

    for i in range(n):
        rec.ev("longrun.operation")
        rec.case(("lr", i))
        payload = _lr_payload(i)
        # Base58Check, a new string every time
        text = RB.encode(payload + RB.dsha(payload)[:4])
        st, got = observe(b58.b2a_hashed_base58, payload)
        if st != "ok" or got != text:
            bad += differs("b2a_hashed_base58", i, got, text)
        st, got = observe(b58.a2b_hashed_base58, text)
        if st != "ok" or got != payload:
            bad += differs("a2b_hashed_base58", i, got, payload)
        st, got = observe(ps.parse_b58_double_sha256, text)
        if st != "ok" or got != payload:
            bad += differs("parse_b58_double_sha256", i, got, payload)
        # segwit address on one HRP, a new string every time; checksum continued from the state after the HRP
        ver = 1 + i % 16
        data = [ver] + R32.to5(payload)
        pm = _pm_feed(c0, data + [0] * 6) ^ R32.CONST["bech32m"]
        addr = LR_HRP + "1" + "".join(R32.CHARSET[d] for d in data + [(pm >> (5 * (5 - j))) & 31 for j in range(6)])
        if i % 4096 == 0 and addr != R32.segwit_encode(LR_HRP, ver, payload):
            rec.ev("inconclusive:longrun_incremental_reference_disagrees_with_reference")
            rec.note("long run: incremental Bech32m reference disagrees with refs/bech32 at operation %d" % i)
            return
        st, got = observe(bm.encode, LR_HRP, ver, payload)
        if st != "ok" or got != addr:
            bad += differs("encode", i, got, addr)
        st, got = observe(bm.decode, LR_HRP, addr if i & 1 else addr.upper())
        if st != "ok" or got[0] != ver or got[1] is None or bytes(got[1]) != payload:
            bad += differs("decode", i, got, [ver, payload])
        st, got = observe(ps.parse_bech32, addr)
        if st != "ok" or got is None or tuple(got[:3]) != (LR_HRP, ver, payload):
            bad += differs("parse_bech32", i, got, [LR_HRP, ver, payload])
        # the same two objects every time
        st, got = observe(ps.parse_b58_double_sha256, P)
        if st != "ok" or got != p_payload:
            bad += differs("parse_b58_double_sha256.same_object", i, got, p_payload)
        st, got = observe(ps.parse_bech32, Q)
        if st != "ok" or got is None or tuple(got[:3]) != q:
            bad += differs("parse_bech32.same_object", i, got, list(q))
        if i % 8 == 0:          # corruption is still noticed
            k = (i >> 3) % len(text)
            wrong = text[:k] + RB.ALPHABET[(RB.ALPHABET.index(text[k]) + 1 + i % 57) % 58] + text[k + 1:]
            st, got = observe(b58.a2b_hashed_base58, wrong)
            if st == "ok":
                bad += differs("a2b_hashed_base58.accepts_corrupted", i, got, "EncodingError")
            k = len(LR_HRP) + 1 + (i >> 3) % (len(addr) - len(LR_HRP) - 1)
            wrong = addr[:k] + R32.CHARSET[(R32.CHARSET.index(addr[k]) + 1 + i % 31) % 32] + addr[k + 1:]
            st, got = observe(bm.decode, LR_HRP, wrong)
            if st == "ok" and tuple(got) != (None, None):
                bad += differs("decode.accepts_corrupted", i, got, [None, None])
        if i == (1 << 16) + 99:
            rec.ev("longrun.beyond_2**16_plus_100_operations")
        if bad >= 4:
            break
    rec.require("longrun.operation", "longrun.beyond_2**16_plus_100_operations")
    rec.sample({"op": "long run", "operations": n, "hrp": LR_HRP, "same_objects": [str(P), str(Q)]})


def replay_history(case, rec, M):
    env = {"pstr": {}}
    H = []
    for st in case["history"]:
        st = dict(st)
        for k in ("prog", "data"):
            if k in st and not isinstance(st[k], bytes):
                st[k] = b""
        H.append(st)
        _h_step(st, H, env, rec, M)


SUBST_ADDRS = [("bc", 0, 20), ("bc", 1, 32), ("tb", 0, 32), ("ltc", 0, 20), ("bc", 16, 2), ("bcrt", 1, 32), ("tb", 2, 40),
               ("a", 0, 20), ("vtc", 5, 11), ("bc", 0, 32)]


def run_subst(spec, rec, M):
    """All single substitutions, all (or budgeted) double substitutions with first position in this part,
    sampled triples/quadruples. Expected outcome for every one of them: rejected."""
    _, _, bm, _ = M
    hrp, ver, L = SUBST_ADDRS[spec["addr"] % len(SUBST_ADDRS)]
    rng0 = shard_rng(spec["seed"], PROPERTY, "addr", spec["addr"])
    prog = bytes(rng0.randrange(256) for _ in range(L))
    good = R32.segwit_encode(hrp, ver, prog)
    assert bm.decode(hrp, good)[0] == ver
    rng = shard_rng(spec["seed"], PROPERTY, spec["tier"], spec["shard"])
    sep = len(hrp)
    data_pos = list(range(sep + 1, len(good)))
    all_pos = list(range(len(good)))
    alphabet_for = lambda p: R32.CHARSET if p > sep else "abcdefghijklmnopqrstuvwxyz0123456789?"

    def apply(subs):
        s = list(good)
        for p, ch in subs:
            s[p] = ch
        return "".join(s)

    def judge(text, k):
        rec.ev("subst%d" % k)
        rec.case(("sub", text))
        r = bm.decode(hrp, text)
        if tuple(r) != (None, None):
            # the BCH guarantee makes this impossible for <= 4 substitutions; cross-check with the reference
            if R32.segwit_decode(hrp, text) is None:
                rec.violation("bech32.accepts_corrupted", {"hrp": hrp, "valid": good, "corrupted": text, "k": k}, r, [None, None])
            else:
                rec.violation("oracle.bech32_reference_accepts_corruption", {"valid": good, "corrupted": text}, r, None)

    def judge_raw(text, k):
        rec.ev("subst_raw%d" % k)
        r = bm.bech32_decode(text)
        if tuple(r) != (None, None, None):
            rec.violation("bech32.raw_accepts_corrupted", {"valid": good, "corrupted": text, "k": k}, r, None)

    part, parts = spec["part"], spec["parts"]
    mine = [p for i, p in enumerate(all_pos) if i % parts == part]
    # singles
    for p in mine:
        for ch in alphabet_for(p):
            if ch == good[p]:
                continue
            t = apply([(p, ch)])
            judge(t, 1)
            if p > sep:
                judge_raw(t, 1)
        if p != sep and good[p].isalpha():
            judge(apply([(p, good[p].upper())]), 1)
    # doubles with first position in `mine`, both in the data part (the code's domain) plus hrp mixes sampled
    budget = spec.get("double_budget")
    pairs = [(p, q) for p in mine if p > sep for q in data_pos if q > p]
    count = 0
    if budget is None:
        for p, q in pairs:
            for c1 in R32.CHARSET:
                if c1 == good[p]:
                    continue
                for c2 in R32.CHARSET:
                    if c2 == good[q]:
                        continue
                    t = apply([(p, c1), (q, c2)])
                    judge(t, 2)
                    judge_raw(t, 2)
    else:
        while count < budget and pairs:
            p, q = rng.choice(pairs)
            c1 = rng.choice([c for c in R32.CHARSET if c != good[p]])
            c2 = rng.choice([c for c in R32.CHARSET if c != good[q]])
            t = apply([(p, c1), (q, c2)])
            judge(t, 2)
            judge_raw(t, 2)
            count += 1
    # triples and quadruples sampled; burst errors (adjacent positions) emphasised
    for i in range(spec.get("multi", 0)):
        k = 3 + (i & 1)
        if i % 3 == 0:
            start = rng.randrange(sep + 1, len(good) - k + 1)
            pos = list(range(start, start + k))
        else:
            pos = rng.sample(data_pos, k)
        subs = [(p, rng.choice([c for c in R32.CHARSET if c != good[p]])) for p in pos]
        t = apply(subs)
        judge(t, k)
        judge_raw(t, k)
    rec.require("subst1", "subst2", "subst3", "subst4", "subst_raw1", "subst_raw2", "subst_raw3", "subst_raw4")
    rec.ev("subst.valid_string_is_%s" % ("bech32" if ver == 0 else "bech32m"))
    rec.require("subst.valid_string_is_bech32", "subst.valid_string_is_bech32m")     # counters are merged over shards
    if part == 0:
        rec.sample({"op": "substitution sweep", "valid": good, "example_corruption": apply([(sep + 2, "q" if good[sep + 2] != "q" else "p")])})


# ---------------------------------------------------------------------------------------------
# padding shapes: constructed 5-bit symbol streams through every entry point that decodes a segwit address

PAD_NETS = (("bc", "btc"), ("tb", "xtn"), ("ltc", "ltc"), ("bcrt", "xrt"), ("tltc", "xlt"))     # BIP173 / litecoin HRPs -> pycoin symbol
PAD_PARSERS = ("address", "p2pkh_segwit", "p2sh_segwit", "p2tr")
PAD_SHAPES = ("exact", "nonzero_bit", "nonzero_mask", "extra_zero_groups", "extra_nonzero_group", "extra_zero_then_nonzero",
              "random_stream")


def _pad_nets():
    import importlib
    return {hrp: importlib.import_module("pycoin.symbols." + sym).network for hrp, sym in PAD_NETS}


def _pad_verdict(vals, variant):
    """Why the reference refuses the stream [version] + groups under this checksum constant; '' = a valid segwit address.
    Written from BIP173 ("any value ... zero padding of more than 4 bits ... non-zero padding" are invalid) with plain bit
    arithmetic on the last groups, a second formulation next to refs.bech32.from5 (the two are compared on every case)."""
    groups = vals[1:]
    spare = (5 * len(groups)) % 8                 # bits left over after the last whole byte
    low = 0
    for k in range(spare):                        # the spare bits are the lowest bits of the stream
        g = groups[len(groups) - 1 - k // 5]
        low |= ((g >> (k % 5)) & 1) << k
    if low:
        return "bad_padding.nonzero_bits"
    if spare > 4:
        return "bad_padding.excess_zero_bits"
    nbytes = (5 * len(groups)) // 8
    if vals[0] > 16:
        return "bad_version"
    if nbytes < 2 or nbytes > 40 or (vals[0] == 0 and nbytes not in (20, 32)):
        return "bad_length"
    if (vals[0] == 0) != (variant == "bech32"):
        return "wrong_constant"
    return ""


def _pad_selftest():
    """The padding verdict on the BIPs' published invalid addresses (the reason is the one the BIP gives) and against
    refs.bech32.from5 on every stream of up to three groups."""
    n = 0
    for text, want in (("bc1zw508d6qejxtdg4y5r3zarvaryvqyzf3du", "bad_padding.excess_zero_bits"),
                       ("tb1qrp33g0q5c5txsp9arysrx4k6zdkfs4nce4xj0gdcccefvpysxf3pjxtptv", "bad_padding.nonzero_bits"),
                       ("bc1p0xlxvlhemja6c4dqv22uapctqupfhlxm9h8z3k2e72q4k9hcz7v07qwwzcrf", "bad_padding.excess_zero_bits"),
                       ("tb1p0xlxvlhemja6c4dqv22uapctqupfhlxm9h8z3k2e72q4k9hcz7vpggkg4j", "bad_padding.nonzero_bits"),
                       ("bc1pw5dgrnzv", "bad_length"), ("BC1QR508D6QEJXTDG4Y5R3ZARVARYV98GJ9P", "bad_length"),
                       ("bc1rw5uspcuh", "bad_length"), ("BC130XLXVLHEMJA6C4DQV22UAPCTQUPFHLXM9H8Z3K2E72Q4K9HCZ7VQ7ZWS8R", "bad_version"),
                       ("bc1qw508d6qejxtdg4y5r3zarvary0c5xw7kemeawh", "wrong_constant"),
                       ("bc1p0xlxvlhemja6c4dqv22uapctqupfhlxm9h8z3k2e72q4k9hcz7vqh2y7hd", "wrong_constant")):
        t = R32.raw_decode(text)
        assert t is not None and _pad_verdict(t[1], t[2]) == want, (text, t and _pad_verdict(t[1], t[2]))
        n += 1
    for a, _ in R32.VALID_ADDR:
        t = R32.raw_decode(a)
        assert _pad_verdict(t[1], t[2]) == "", a
        n += 1
    for a in R32.INVALID_ADDR:
        t = R32.raw_decode(a)
        if t is not None and t[1] and t[0] in ("bc", "tb"):
            assert _pad_verdict(t[1], t[2]) != "", a
            n += 1
    for k in range(0, 4):
        for gs in itertools.product(range(32), repeat=k):
            assert (R32.from5(list(gs)) is None) == _pad_verdict([1] + list(gs), "bech32m").startswith("bad_padding"), gs
            n += 1
    return n


def _check_pad_stream(hrp, vals, variant, shape, rec, M, nets, upper=False, via_cache=False):
    """One constructed stream [version] + 5-bit groups with a valid checksum of the given constant, through bech32m.decode,
    bech32_decode, convertbits, parse_bech32 (str and parseable_str) and the address parsers of the network owning the HRP."""
    _, _, bm, ps = M
    text = R32.raw_encode(hrp, vals, variant)
    if len(text) > 90:
        return False
    if upper:
        text = text.upper()
    case = {"padshape": shape, "hrp": hrp, "vals": list(vals), "variant": variant, "upper": bool(upper), "via_cache": bool(via_cache)}
    why = _pad_verdict(vals, variant)
    e = R32.from5(vals[1:])
    ref = R32.segwit_decode(hrp, text)
    if R32.raw_decode(text) != (hrp, list(vals), variant) or (e is None) != why.startswith("bad_padding") or (ref is None) != bool(why) \
            or (ref is not None and ref != (vals[0], e)):
        rec.ev("inconclusive:padshape_reference_formulations_disagree")
        rec.note("padding-shape references disagree on %r: verdict %r, from5 %r, segwit_decode %r" % (text, why, e, ref))
        return False
    rec.ev("padshape.stream")
    rec.ev("padshape.shape." + shape)
    rec.ev("padshape.verdict." + (why or "valid"))
    rec.case(("pad", hrp, tuple(vals), variant, upper))
    # bech32m.decode / bech32_decode against the reference (existing oracle and keys)
    _check_decode_text(hrp, text, rec, M, why=why.split(".")[0] if why else "")
    # the regrouping primitive itself
    rec.ev("padshape.convertbits")
    st, g = observe(bm.convertbits, list(vals[1:]), 5, 8, False)
    if st != "ok" or (e is None) != (g is None) or (e is not None and bytes(g) != e):
        rec.violation("bech32.convertbits_padding", {"vals": list(vals[1:])}, g, e)
    # the cached helper: a stream whose padding is invalid holds no program at all. Refusing = raising, None, or an empty
    # program (how the helper says so today); length / version / constant rules are the address parser's, not the helper's
    pobj = ps.parseable_str(text)
    for arg in (text, pobj):
        rec.ev("padshape.parse_bech32")
        st, t = observe(ps.parse_bech32, arg)
        has_prog = st == "ok" and isinstance(t, (tuple, list)) and len(t) >= 3 and t[2] is not None and len(t[2]) > 0
        if why.startswith("bad_padding"):
            rec.ev("padshape.parse_bech32.expected_reject." + why.split(".")[1])
            if has_prog:
                rec.violation("parseable.bech32_accepts_" + why, case, t, None)
                break
        elif not why:
            rec.ev("padshape.parse_bech32.valid")
            if not has_prog or t[0] != hrp or t[1] != vals[0] or bytes(t[2]) != e:
                rec.violation("parseable.bech32_mismatch", {"text": text}, t, [hrp, vals[0], e])
                break
        else:
            rec.ev("padshape.parse_bech32.not_judged")
    # the address parsers built on the helper
    net = nets.get(hrp)
    if net is not None and RB.decode_check(text) is None:
        arg = pobj if via_cache else text          # the object that went through parse_bech32 above, or a plain string
        if why:
            for name in PAD_PARSERS:
                rec.ev("padshape.address_parser.expected_reject")
                rec.ev("padshape.address_parser.expected_reject." + why.split(".")[0])
                st, c = observe(getattr(net.parse, name), arg)
                if st == "ok" and c is not None:
                    rec.violation("address_parser.accepts_invalid_segwit." + why, dict(case, parser=name), repr(c), None)
                    break
        elif (vals[0], len(e)) in ((0, 20), (0, 32), (1, 32)):
            # not judged (the statement does not say which programs an address parser knows): evidence that the refusals
            # above are refusals of the padding / length / constant and not of the whole family of strings
            st, c = observe(net.parse.address, arg)
            if st == "ok" and c is not None:
                rec.ev("padshape.address_parser.valid_sibling_accepted")
    return True


def _pad_streams(groups, pad, rng, full):
    """Every padding shape on top of the exact groups of a program (pad = number of padding bits in the last group)."""
    out = [("exact", list(groups))]
    if groups and pad:
        for j in range(pad):                                    # one non-zero padding bit, in every position
            out.append(("nonzero_bit", groups[:-1] + [groups[-1] | (1 << j)]))
        masks = [m for m in range(1, 1 << pad) if m & (m - 1)]  # two or more padding bits set
        for m in (masks if full else rng.sample(masks, min(2, len(masks)))):
            out.append(("nonzero_mask", groups[:-1] + [groups[-1] | m]))
    for k in (1, 2, 3):                                         # 5, 10, 15 more zero bits: pad + 5k in 5..19
        out.append(("extra_zero_groups", list(groups) + [0] * k))
    for g in ([1, 2, 4, 8, 16, 31] if full else [1 << rng.randrange(5), rng.randrange(1, 32)]):
        out.append(("extra_nonzero_group", list(groups) + [g]))
    out.append(("extra_zero_then_nonzero", list(groups) + [0, 1 << rng.randrange(5)]))
    return out


def run_padshape(spec, rec, M):
    """Program lengths 0..41 x version x both checksum constants x every padding shape (zero padding of 0..4 bits = valid,
    5..19 bits, non-zero padding in every bit position and every combination, extra groups), then random streams."""
    rng = shard_rng(spec["seed"], PROPERTY, spec["tier"], spec["shard"])
    nets = _pad_nets()
    part, parts = spec["part"], spec["parts"]
    full = spec["tier"] != "quick"
    net_hrps = [h for h, _ in PAD_NETS]
    idx = 0
    for L in range(0, 42):
        pad = (-8 * L) % 5
        key = L in (20, 32)
        vers = [0, 1, 2 + (L + spec["seed"]) % 15] if not full else [0, 1, 2 + L % 15, 16]
        for ver in vers:
            for variant in ("bech32", "bech32m"):
                idx += 1
                if idx % parts != part:
                    continue
                if full or (key and ver < 2):
                    hrps = net_hrps + ["x1y"]
                else:
                    hrps = [(net_hrps + ["x1y", "a"])[(L + ver + spec["seed"]) % 7]]
                for hi, hrp in enumerate(hrps):
                    fill = rng.random()
                    prog = b"\0" * L if fill < 0.08 else b"\xff" * L if fill < 0.16 else bytes(rng.randrange(256) for _ in range(L))
                    groups = R32.to5(prog)
                    for si, (shape, gs) in enumerate(_pad_streams(groups, pad, rng, full or (key and hi == 0))):
                        _check_pad_stream(hrp, [ver] + gs, variant, shape, rec, M, nets,
                                          upper=(si + hi + L) % 5 == 0, via_cache=(si + L) % 2 == 0)
    # random streams: any number of groups, the tail biased towards zeros / single bits
    done = 0
    while done < spec["n"]:
        hrp = rng.choice(net_hrps + net_hrps + HRPS)
        ng = rng.choice([rng.randrange(0, 70), rng.choice([32, 33, 34, 51, 52, 53, 54])])
        gs = [rng.randrange(32) for _ in range(ng)]
        for k in range(1, min(ng, rng.choice([0, 1, 1, 2, 3])) + 1):
            gs[-k] = rng.choice([0, 0, 1 << rng.randrange(5), gs[-k] & (31 << rng.randrange(5)) & 31])
        ver = rng.choice([0, 0, 1, 1, 2, 16, rng.randrange(17), rng.randrange(32)])
        variant = ("bech32" if ver == 0 else "bech32m") if rng.random() < 0.85 else ("bech32m" if ver == 0 else "bech32")
        if _check_pad_stream(hrp, [ver] + gs, variant, "random_stream", rec, M, nets, upper=rng.random() < 0.15,
                             via_cache=rng.random() < 0.5):
            done += 1
        if done == 1:
            rec.sample({"op": "padshape", "hrp": hrp, "vals": [ver] + gs, "variant": variant})
    rec.require("padshape.stream", "padshape.parse_bech32", "padshape.convertbits",
                "padshape.parse_bech32.expected_reject.excess_zero_bits", "padshape.parse_bech32.expected_reject.nonzero_bits",
                "padshape.parse_bech32.valid", "padshape.address_parser.expected_reject",
                "padshape.address_parser.expected_reject.bad_padding", "padshape.address_parser.valid_sibling_accepted",
                "padshape.verdict.bad_padding.excess_zero_bits", "padshape.verdict.bad_padding.nonzero_bits", "padshape.verdict.valid",
                *["padshape.shape." + s for s in PAD_SHAPES])


def replay_padshape(case, rec, M):
    _check_pad_stream(case["hrp"], [int(v) for v in case["vals"]], case["variant"], case["padshape"], rec, M, _pad_nets(),
                      upper=bool(case.get("upper")), via_cache=bool(case.get("via_cache")))



def _tc(o):
    """Witness strings made of digits only would be read back as integers by the replay loader: keep a byte copy."""
    if isinstance(o, dict):
        out = {k: _tc(v) for k, v in o.items()}
        for k, v in o.items():
            if isinstance(v, str) and len(v) > 15 and (v.isdigit() or (v[:1] == "-" and v[1:].isdigit())):
                out[k + "_utf8"] = v.encode("utf8")
        return out
    if isinstance(o, list):
        return [_tc(v) for v in o]
    return o


def _untc(o):
    if isinstance(o, dict):
        out = {k: _untc(v) for k, v in o.items() if not k.endswith("_utf8")}
        for k, v in o.items():
            if k.endswith("_utf8") and isinstance(v, bytes):
                out[k[:-5]] = v.decode("utf8")
        return out
    if isinstance(o, list):
        return [_untc(v) for v in o]
    return o


class _Rec(object):
    def __init__(self, rec):
        self._rec = rec

    def __getattr__(self, name):
        return getattr(self._rec, name)

    def violation(self, mech, case, *a, **kw):
        return self._rec.violation(mech, _tc(case), *a, **kw)


def run_shard(spec, rec):
    M = _imports()
    rec = _Rec(rec)
    kind = spec["kind"]
    rec.require({"b58": "a2b_base58", "b58check": "a2b_base58", "bech32": "bech32m.decode", "bech32_reject": "bech32m.decode",
                 "subst": "subst1", "caseless": "bech32m.decode", "hist": "hist.step", "errhist": "hist.step",
                 "longrun": "longrun.operation", "padshape": "padshape.stream"}[kind])
    {"b58": run_b58, "b58check": run_b58check, "bech32": run_bech32, "bech32_reject": run_bech32_reject,
     "subst": run_subst, "caseless": run_caseless, "hist": run_hist, "errhist": run_errhist, "longrun": run_longrun, "padshape": run_padshape}[kind](spec, rec, M)


def replay_case(case, rec):
    M = _imports()
    case = _untc(case)
    rec = _Rec(rec)
    if "history" in case:
        replay_history(case, rec, M)
    elif "longrun_upto" in case:
        run_longrun({}, rec, M, upto=int(case["longrun_upto"]))
    elif "padshape" in case:
        replay_padshape(case, rec, M)
    elif "corrupted" in case:
        hrp = case.get("hrp") or case["valid"][:case["valid"].rfind("1")]
        _check_decode_text(hrp, case["corrupted"], rec, M, must_reject=True, why="replay")
        r = M[2].decode(hrp, case["corrupted"])
        if tuple(r) != (None, None):
            rec.violation("bech32.accepts_corrupted", case, r, [None, None])
    elif "prog" in case:
        _check_segwit_triple(case["hrp"], case["ver"], case["prog"], rec, M)
    elif "hrp" in case and "text" in case:
        _check_decode_text(case["hrp"], case["text"], rec, M, why=case.get("why", ""))
    elif "vals" in case:
        e = R32.from5(case["vals"]); g = M[2].convertbits(case["vals"], 5, 8, False)
        if (e is None) != (g is None) or (e is not None and bytes(g) != e):
            rec.violation("bech32.convertbits_padding", case, g, e)
    elif "data" in case:
        _check_b58_bytes(case["data"], rec, M)
    elif "text" in case:
        _check_b58_text(case["text"], rec, M)
        t = R32.raw_decode(case["text"])
        rg = M[2].bech32_decode(case["text"])
        if t is None and tuple(rg) != (None, None, None):
            rec.violation("bech32.raw_accepts_invalid", case, rg, None)
