"""C11 — Base58, Base58Check, Bech32/Bech32m codecs are exact and detect corruption."""
import itertools

from vmon.probe import shard_rng, observe
from vmon.refs import b58 as RB, bech32 as R32

PROPERTY = "C11"
LEVEL = "exploration"
TECHNIQUE = "differential runtime monitor vs independent codec references; exhaustive substitution sweeps"
RULE = ("cases: byte strings of every length 0..80 x leading-zero counts, alphabet/non-alphabet strings, Base58Check "
        "checksum and single-character corruptions, (hrp, version, program) triples incl. every allowed and disallowed "
        "length, mixed case, wrong checksum constant, bad padding, and all single + all/sampled double + sampled "
        "triple/quadruple substitutions of valid addresses. A case is non-trivial when it is not the empty input; distinct "
        "by (operation, input).")
ASSUMPTIONS = [
    "reference codecs in vmon/refs/b58.py and vmon/refs/bech32.py are correct (self-tested on every run against the "
    "published Base58 vectors and the BIP173/BIP350 valid/invalid lists)",
    "'difference of up to four characters' is read as up to four substituted character positions (the BCH guarantee)",
]
EXPLANATION = "every pycoin codec call is compared with the reference codec's result; rejection classes must raise EncodingError / return (None, None)"


def exhaustive(tier):
    return False


def plan(tier, seed):
    n_addr = 1 if tier == "quick" else 10
    shards = [{"kind": "b58", "n": 6000 if tier == "quick" else 300000},
              {"kind": "b58check", "n": 1500 if tier == "quick" else 60000},
              {"kind": "bech32", "n": 8000 if tier == "quick" else 400000},
              {"kind": "bech32_reject", "n": 6000 if tier == "quick" else 300000}]
    # substitution sweeps: singles fully, doubles split over shards by first position
    parts = 12
    for a in range(n_addr):
        for p in range(parts):
            shards.append({"kind": "subst", "addr": a, "part": p, "parts": parts,
                           "double_budget": 9000 if tier == "quick" else None,
                           "multi": 3000 if tier == "quick" else 20000})
    return shards


def selftest(rec):
    return {"b58_vectors": RB.selftest(), "bech32_vectors": R32.selftest()}


# ---------------------------------------------------------------------------------------------

def _imports():
    from pycoin.encoding import b58
    from pycoin.encoding.exceptions import EncodingError
    from pycoin.contrib import bech32m
    from pycoin.networks import parseable_str as ps
    return b58, EncodingError, bech32m, ps


def _check_b58_bytes(data, rec, M):
    b58, EncodingError, _, ps = M
    exp = RB.encode(data)
    rec.ev("b2a_base58")
    st, got = observe(b58.b2a_base58, data)
    rec.case(("b58", data), nontrivial=len(data) > 0)
    if st != "ok" or got != exp:
        rec.violation("b58.encode_mismatch", {"data": data}, got, exp)
        return
    rec.ev("a2b_base58")
    st, back = observe(b58.a2b_base58, exp)
    if st != "ok" or back != data:
        rec.violation("b58.decode_not_inverse", {"text": exp}, back, data)
    # checksummed form
    expc = RB.encode_check(data)
    rec.ev("b2a_hashed_base58")
    st, gotc = observe(b58.b2a_hashed_base58, data)
    if st != "ok" or gotc != expc:
        rec.violation("b58check.encode_mismatch", {"data": data}, gotc, expc)
        return
    rec.ev("a2b_hashed_base58")
    st, backc = observe(b58.a2b_hashed_base58, expc)
    if st != "ok" or backc != data:
        rec.violation("b58check.decode_not_inverse", {"text": expc}, backc, data)
    rec.ev("is_hashed_base58_valid")
    if b58.is_hashed_base58_valid(expc) is not True:
        rec.violation("b58check.valid_reported_invalid", {"text": expc}, False, True)
    rec.ev("parse_b58_double_sha256")
    st, p = observe(ps.parse_b58_double_sha256, expc)
    # parse_b58_double_sha256 returns None for an empty payload by design of `if data:`; only non-empty judged
    if len(data) > 0 and (st != "ok" or p != data):
        rec.violation("parseable.b58check_mismatch", {"text": expc}, p, data)


def _check_b58_text(text, rec, M):
    """Arbitrary text through the decoders: compare with reference (None = reject)."""
    b58, EncodingError, _, ps = M
    exp = RB.decode(text)
    rec.ev("a2b_base58")
    rec.case(("b58text", text), nontrivial=len(text) > 0)
    st, got = observe(b58.a2b_base58, text)
    if exp is None:
        if st == "ok":
            rec.violation("b58.accepts_non_alphabet", {"text": text}, got, "EncodingError")
        elif not isinstance(got, EncodingError):
            rec.violation("b58.wrong_exception", {"text": text}, got, "EncodingError")
    else:
        if st != "ok" or got != exp:
            rec.violation("b58.decode_mismatch", {"text": text}, got, exp)
        else:
            st2, re = observe(b58.b2a_base58, got)
            if st2 != "ok" or re != text:
                rec.violation("b58.encode_not_inverse_of_decode", {"text": text}, re, text)
    expc = RB.decode_check(text)
    rec.ev("a2b_hashed_base58")
    st, got = observe(b58.a2b_hashed_base58, text)
    valid = b58.is_hashed_base58_valid(text) if (st == "ok" or isinstance(got, EncodingError)) else None
    rec.ev("is_hashed_base58_valid")
    if expc is None:
        if st == "ok":
            rec.violation("b58check.accepts_bad_checksum", {"text": text}, got, "EncodingError")
        elif not isinstance(got, EncodingError):
            rec.violation("b58check.wrong_exception", {"text": text}, got, "EncodingError")
        if valid is True:
            rec.violation("b58check.is_valid_true_on_bad", {"text": text}, True, False)
        st3, p = observe(ps.parse_b58_double_sha256, text)
        rec.ev("parse_b58_double_sha256")
        if st3 != "ok" or p is not None:
            rec.violation("parseable.accepts_bad_checksum", {"text": text}, p, None)
    else:
        if st != "ok" or got != expc:
            rec.violation("b58check.decode_mismatch", {"text": text}, got, expc)
        if valid is False:
            rec.violation("b58check.valid_reported_invalid", {"text": text}, False, True)


def run_b58(spec, rec, M):
    rng = shard_rng(spec["seed"], PROPERTY, spec["tier"], spec["shard"])
    n = spec["n"]
    done = 0
    # every length 0..80 x every leading-zero count, three fillers
    for L in range(0, 81):
        for z in range(0, L + 1):
            if z > 6 and z not in (L, L - 1) and rng.random() < 0.8:
                continue
            for fill in ("ff", "01", "rnd"):
                body = {"ff": b"\xff" * (L - z), "01": b"\x01" * (L - z),
                        "rnd": bytes(rng.randrange(1, 256) if i == 0 else rng.randrange(256) for i in range(L - z))}[fill]
                _check_b58_bytes(b"\0" * z + body, rec, M)
                done += 1
    while done < n:
        L = rng.choice([1, 2, 3, 4, 5, 20, 21, 25, 32, 33, 34, 37, 38, 74, 78, 82, rng.randrange(0, 130)])
        z = rng.choice([0, 0, 0, 1, 2, rng.randrange(0, L + 1)])
        data = b"\0" * z + bytes(rng.randrange(256) for _ in range(L - z))
        _check_b58_bytes(data, rec, M)
        done += 1
    # arbitrary text: alphabet-only, near-alphabet, non-ascii
    outside = "0OIl+/= _-\n\té€\U0001F600\x00"
    for i in range(n // 2):
        L = rng.choice([0, 1, 2, 3, 5, 6, 7, 10, 27, 34, 35, 51, 52, 111])
        chars = [rng.choice(RB.ALPHABET) for _ in range(L)]
        mode = rng.random()
        if mode < 0.35 and L:
            chars[rng.randrange(L)] = rng.choice(outside)
        elif mode < 0.45:
            chars = ["1"] * rng.randrange(0, 6) + chars
        elif mode < 0.5:
            chars = [chr(rng.randrange(1, 0x3000)) for _ in range(L)]
        _check_b58_text("".join(chars), rec, M)
    rec.sample({"op": "b2a_base58", "data": b"\0\0\x01\x02", "text": RB.encode(b"\0\0\x01\x02")})


def run_b58check(spec, rec, M):
    rng = shard_rng(spec["seed"], PROPERTY, spec["tier"], spec["shard"])
    for i in range(spec["n"]):
        L = rng.choice([0, 1, 20, 21, 33, 34, 37, 78, rng.randrange(0, 90)])
        payload = bytes(rng.randrange(256) for _ in range(L))
        if rng.random() < 0.3:
            payload = b"\0" * rng.randrange(1, 4) + payload
        good = RB.encode_check(payload)
        raw = payload + RB.dsha(payload)[:4]
        # each of the 4 checksum bytes altered
        k = rng.randrange(4)
        bad = bytearray(raw)
        bad[len(raw) - 4 + k] ^= 1 << rng.randrange(8)
        _check_b58_text(RB.encode(bytes(bad)), rec, M)
        # a payload byte altered
        if payload:
            bad = bytearray(raw)
            bad[rng.randrange(len(payload))] ^= 1 << rng.randrange(8)
            _check_b58_text(RB.encode(bytes(bad)), rec, M)
        # truncated checksum (3 bytes compared would pass this if only 3 were checked)
        bad = bytearray(raw)
        bad[-1] ^= 0xff
        _check_b58_text(RB.encode(bytes(bad)), rec, M)
        # single-character substitutions of the text (all positions for a few, sampled otherwise)
        positions = range(len(good)) if i % 40 == 0 else [rng.randrange(len(good))]
        for pos in positions:
            for ch in (RB.ALPHABET if i % 40 == 0 else [rng.choice(RB.ALPHABET)]):
                if ch != good[pos]:
                    _check_b58_text(good[:pos] + ch + good[pos + 1:], rec, M)
        if i < 2:
            rec.sample({"op": "a2b_hashed_base58", "valid": good, "corrupted": RB.encode(bytes(bad))})


HRPS = ["bc", "tb", "bcrt", "ltc", "a", "1", "11", "x1y", "tltc", "vtc", "abcdefghijklmnopqrst", "z9", "?", "~hrp~", "bc1"]


def _segwit_lengths(ver):
    return [20, 32] if ver == 0 else list(range(2, 41))


def _check_segwit_triple(hrp, ver, prog, rec, M):
    """encode/decode for any triple, allowed or not."""
    _, _, bm, ps = M
    exp = R32.segwit_encode(hrp, ver, prog)
    rec.ev("bech32m.encode")
    rec.case(("enc", hrp, ver, prog))
    st, got = observe(bm.encode, hrp, ver, prog)
    if exp is None:
        if st == "ok" and got is not None:
            rec.violation("bech32.encodes_disallowed", {"hrp": hrp, "ver": ver, "prog": prog}, got, None)
        return None
    if st != "ok" or got != exp:
        rec.violation("bech32.encode_mismatch", {"hrp": hrp, "ver": ver, "prog": prog}, got, exp)
        return None
    for text in (exp, exp.upper()):
        rec.ev("bech32m.decode")
        st, d = observe(bm.decode, hrp, text)
        if st != "ok" or d[0] != ver or d[1] is None or bytes(d[1]) != prog:
            rec.violation("bech32.decode_not_inverse", {"hrp": hrp, "text": text}, d, [ver, prog])
    rec.ev("parse_bech32")
    st, t = observe(ps.parse_bech32, exp)
    if st != "ok" or t is None or t[0] != hrp or t[1] != ver or t[2] != prog:
        rec.violation("parseable.bech32_mismatch", {"text": exp}, t, [hrp, ver, prog])
    return exp


def _check_decode_text(hrp, text, rec, M, must_reject=False, why=""):
    """bech32m.decode(hrp, text) and bech32_decode(text) against the reference."""
    _, _, bm, ps = M
    exp = R32.segwit_decode(hrp, text)
    rec.ev("bech32m.decode")
    rec.case(("dec", hrp, text))
    st, got = observe(bm.decode, hrp, text)
    if must_reject and exp is not None:
        rec.note("oracle disagreement with BIP guarantee on %r (%s)" % (text, why))
        rec.violation("oracle.bech32_reference_accepts_corruption", {"hrp": hrp, "text": text}, exp, None)
        return
    if exp is None:
        if st != "ok":
            rec.violation("bech32.decode_raises", {"hrp": hrp, "text": text, "why": why}, got, [None, None])
        elif tuple(got) != (None, None):
            rec.violation("bech32.accepts_invalid" + ("." + why if why else ""), {"hrp": hrp, "text": text}, got, [None, None])
    else:
        if st != "ok" or got[0] != exp[0] or got[1] is None or bytes(got[1]) != exp[1]:
            rec.violation("bech32.decode_mismatch", {"hrp": hrp, "text": text}, got, exp)
    rexp = R32.raw_decode(text)
    rec.ev("bech32m.bech32_decode")
    st, rg = observe(bm.bech32_decode, text)
    if rexp is None:
        if st != "ok":
            rec.violation("bech32.raw_decode_raises", {"text": text}, rg, None)
        elif tuple(rg) != (None, None, None):
            rec.violation("bech32.raw_accepts_invalid" + ("." + why if why else ""), {"text": text}, rg, None)
    else:
        want = (rexp[0], rexp[1], 1 if rexp[2] == "bech32" else 2)
        if st != "ok" or (rg[0], rg[1], rg[2]) != want:
            rec.violation("bech32.raw_decode_mismatch", {"text": text}, rg, want)


def run_bech32(spec, rec, M):
    rng = shard_rng(spec["seed"], PROPERTY, spec["tier"], spec["shard"])
    n = spec["n"]
    done = 0
    # every version x every program length 0..42 (allowed and not) for a few HRPs
    for hrp in HRPS[:4] if spec["tier"] == "quick" else HRPS:
        for ver in range(-1, 19):
            for L in range(0, 43):
                if len(hrp) + 1 + 1 + (L * 8 + 4) // 5 + 6 > 90:
                    continue
                prog = bytes(rng.randrange(256) for _ in range(L))
                if ver < 0:
                    continue
                _check_segwit_triple(hrp, ver, prog, rec, M)
                done += 1
    while done < n:
        hrp = rng.choice(HRPS)
        ver = rng.choice([0, 0, 1, 1, 2, 15, 16, rng.randrange(17)])
        L = rng.choice(_segwit_lengths(ver))
        fill = rng.random()
        prog = (b"\0" * L if fill < 0.1 else b"\xff" * L if fill < 0.2 else bytes(rng.randrange(256) for _ in range(L)))
        if len(hrp) + 2 + (L * 8 + 4) // 5 + 6 > 90:
            continue
        t = _check_segwit_triple(hrp, ver, prog, rec, M)
        if done % 1000 == 0 and t:
            rec.sample({"op": "bech32m.encode", "hrp": hrp, "ver": ver, "prog": prog, "text": t})
        done += 1
    # convertbits both ways
    _, _, bm, _ = M
    for L in range(0, 70):
        for _ in range(3):
            d = bytes(rng.randrange(256) for _ in range(L))
            rec.ev("convertbits")
            rec.case(("cb", d), nontrivial=L > 0)
            five = bm.convertbits(d, 8, 5)
            if five != R32.to5(d):
                rec.violation("bech32.convertbits_8to5", {"data": d}, five, R32.to5(d))
            back = bm.convertbits(five, 5, 8, False)
            if back is None or bytes(back) != d:
                rec.violation("bech32.convertbits_5to8", {"data": d}, back, d)
            # arbitrary 5-bit groups: strict padding rule
            vals = [rng.randrange(32) for _ in range(rng.randrange(0, 40))]
            if rng.random() < 0.5 and vals:
                vals[-1] = 0
            e = R32.from5(vals)
            g = bm.convertbits(vals, 5, 8, False)
            rec.case(("cb5", tuple(vals)), nontrivial=bool(vals))
            if (e is None) != (g is None) or (e is not None and bytes(g) != e):
                rec.violation("bech32.convertbits_padding", {"vals": vals}, g, e)


def run_bech32_reject(spec, rec, M):
    """Rejection classes named by the property: mixed case, wrong constant, bad length, bad padding."""
    rng = shard_rng(spec["seed"], PROPERTY, spec["tier"], spec["shard"])
    n = spec["n"]
    for i in range(n):
        hrp = rng.choice(HRPS[:6])
        ver = rng.choice([0, 0, 1, 2, 16, rng.randrange(17)])
        cls = i % 8
        if cls == 0:      # wrong checksum constant for the version
            L = rng.choice(_segwit_lengths(ver))
            prog = bytes(rng.randrange(256) for _ in range(L))
            text = R32.raw_encode(hrp, [ver] + R32.to5(prog), "bech32m" if ver == 0 else "bech32")
            _check_decode_text(hrp, text, rec, M, why="wrong_constant")
        elif cls == 1:    # mixed case
            L = rng.choice(_segwit_lengths(ver))
            good = R32.segwit_encode(hrp, ver, bytes(rng.randrange(256) for _ in range(L)))
            idx = [k for k, ch in enumerate(good) if ch.isalpha()]
            k = rng.choice(idx)
            _check_decode_text(hrp, good[:k] + good[k].upper() + good[k + 1:], rec, M, why="mixed_case")
            if i % 16 == 1:   # upper-case everything but one
                up = good.upper()
                _check_decode_text(hrp, up[:k] + up[k].lower() + up[k + 1:], rec, M, why="mixed_case")
        elif cls == 2:    # invalid program length (valid checksum)
            L = rng.choice([0, 1, 41, 42, 45] if ver else [0, 1, 2, 19, 21, 31, 33, 40, 41])
            prog = bytes(rng.randrange(256) for _ in range(L))
            text = R32.raw_encode(hrp, [ver] + R32.to5(prog), "bech32" if ver == 0 else "bech32m")
            _check_decode_text(hrp, text, rec, M, why="bad_length")
        elif cls == 3:    # non-zero padding / too many padding bits (valid checksum)
            L = rng.choice(_segwit_lengths(ver))
            five = R32.to5(bytes(rng.randrange(256) for _ in range(L)))
            mode = rng.random()
            pad = (-8 * L) % 5
            if mode < 0.5 and pad:
                five[-1] |= 1 << rng.randrange(pad)
            else:
                five = five + [0] * rng.choice([1, 2])     # 5+ padding bits (may equal a valid longer program)
            text = R32.raw_encode(hrp, [ver] + five, "bech32" if ver == 0 else "bech32m")
            _check_decode_text(hrp, text, rec, M, why="bad_padding")
        elif cls == 4:    # version > 16
            v = rng.randrange(17, 32)
            prog = bytes(rng.randrange(256) for _ in range(rng.choice([20, 32])))
            text = R32.raw_encode(hrp, [v] + R32.to5(prog), "bech32m")
            _check_decode_text(hrp, text, rec, M, why="bad_version")
        elif cls == 5:    # other hrp / empty data / no separator / overlong
            good = R32.segwit_encode(hrp, ver, bytes(rng.randrange(256) for _ in range(rng.choice(_segwit_lengths(ver)))))
            variants = [good.replace("1", "", 1), "1" + good, good + "q", good[:-1], hrp + "1", good[len(hrp) + 1:],
                        R32.raw_encode(hrp, [], "bech32"), R32.raw_encode(hrp, [], "bech32m"),
                        R32.raw_encode(hrp + "x" * 60, [ver] + R32.to5(b"\1" * 32), "bech32m"), "", " " + good, good + " ",
                        good[:3] + "é" + good[4:], good[:-3] + "b" + good[-2:]]
            _check_decode_text(hrp, rng.choice(variants), rec, M, why="malformed")
            _check_decode_text(rng.choice([h for h in HRPS if h != hrp]), good, rec, M, why="other_hrp")
        elif cls == 6:    # random raw-valid strings of either constant: decode must equal reference
            five = [rng.randrange(32) for _ in range(rng.randrange(0, 60))]
            if len(hrp) + 1 + len(five) + 6 > 92:
                five = five[:30]
            text = R32.raw_encode(hrp, five, rng.choice(["bech32", "bech32m"]))
            _check_decode_text(hrp, text, rec, M, why="random_valid_checksum")
        else:             # random strings over the charset
            text = hrp + "1" + "".join(rng.choice(R32.CHARSET) for _ in range(rng.randrange(0, 50)))
            _check_decode_text(hrp, text, rec, M, why="random_text")
        if i < 2:
            rec.sample({"op": "bech32m.decode", "class": cls, "hrp": hrp})


SUBST_ADDRS = [("bc", 0, 20), ("bc", 1, 32), ("tb", 0, 32), ("ltc", 0, 20), ("bc", 16, 2), ("bcrt", 1, 32), ("tb", 2, 40),
               ("a", 0, 20), ("vtc", 5, 11), ("bc", 0, 32)]


def run_subst(spec, rec, M):
    """All single substitutions, all (or budgeted) double substitutions with first position in this part,
    sampled triples/quadruples. Expected outcome for every one of them: rejected."""
    _, _, bm, _ = M
    hrp, ver, L = SUBST_ADDRS[spec["addr"] % len(SUBST_ADDRS)]
    rng0 = shard_rng(spec["seed"], PROPERTY, "addr", spec["addr"])
    prog = bytes(rng0.randrange(256) for _ in range(L))
    good = R32.segwit_encode(hrp, ver, prog)
    assert bm.decode(hrp, good)[0] == ver
    rng = shard_rng(spec["seed"], PROPERTY, spec["tier"], spec["shard"])
    sep = len(hrp)
    data_pos = list(range(sep + 1, len(good)))
    all_pos = list(range(len(good)))
    alphabet_for = lambda p: R32.CHARSET if p > sep else "abcdefghijklmnopqrstuvwxyz0123456789?"

    def apply(subs):
        s = list(good)
        for p, ch in subs:
            s[p] = ch
        return "".join(s)

    def judge(text, k):
        rec.ev("subst%d" % k)
        rec.case(("sub", text))
        r = bm.decode(hrp, text)
        if tuple(r) != (None, None):
            # the BCH guarantee makes this impossible for <= 4 substitutions; cross-check with the reference
            if R32.segwit_decode(hrp, text) is None:
                rec.violation("bech32.accepts_corrupted", {"hrp": hrp, "valid": good, "corrupted": text, "k": k}, r, [None, None])
            else:
                rec.violation("oracle.bech32_reference_accepts_corruption", {"valid": good, "corrupted": text}, r, None)
        if all(p > sep for p, _ in zip(range(0), ())) or True:
            pass

    def judge_raw(text, k):
        rec.ev("subst_raw%d" % k)
        r = bm.bech32_decode(text)
        if tuple(r) != (None, None, None):
            rec.violation("bech32.raw_accepts_corrupted", {"valid": good, "corrupted": text, "k": k}, r, None)

    part, parts = spec["part"], spec["parts"]
    mine = [p for i, p in enumerate(all_pos) if i % parts == part]
    # singles
    for p in mine:
        for ch in alphabet_for(p):
            if ch == good[p]:
                continue
            t = apply([(p, ch)])
            judge(t, 1)
            if p > sep:
                judge_raw(t, 1)
        if p != sep and good[p].isalpha():
            judge(apply([(p, good[p].upper())]), 1)
    # doubles with first position in `mine`, both in the data part (the code's domain) plus hrp mixes sampled
    budget = spec.get("double_budget")
    pairs = [(p, q) for p in mine if p > sep for q in data_pos if q > p]
    count = 0
    if budget is None:
        for p, q in pairs:
            for c1 in R32.CHARSET:
                if c1 == good[p]:
                    continue
                for c2 in R32.CHARSET:
                    if c2 == good[q]:
                        continue
                    t = apply([(p, c1), (q, c2)])
                    judge(t, 2)
                    judge_raw(t, 2)
    else:
        while count < budget and pairs:
            p, q = rng.choice(pairs)
            c1 = rng.choice([c for c in R32.CHARSET if c != good[p]])
            c2 = rng.choice([c for c in R32.CHARSET if c != good[q]])
            t = apply([(p, c1), (q, c2)])
            judge(t, 2)
            judge_raw(t, 2)
            count += 1
    # triples and quadruples sampled; burst errors (adjacent positions) emphasised
    for i in range(spec.get("multi", 0)):
        k = 3 + (i & 1)
        if i % 3 == 0:
            start = rng.randrange(sep + 1, len(good) - k + 1)
            pos = list(range(start, start + k))
        else:
            pos = rng.sample(data_pos, k)
        subs = [(p, rng.choice([c for c in R32.CHARSET if c != good[p]])) for p in pos]
        t = apply(subs)
        judge(t, k)
        judge_raw(t, k)
    if part == 0:
        rec.sample({"op": "substitution sweep", "valid": good, "example_corruption": apply([(sep + 2, "q" if good[sep + 2] != "q" else "p")])})


def run_shard(spec, rec):
    M = _imports()
    kind = spec["kind"]
    rec.require("a2b_base58" if kind.startswith("b58") else "bech32m.decode" if kind.startswith("bech32") else "subst1")
    {"b58": run_b58, "b58check": run_b58check, "bech32": run_bech32, "bech32_reject": run_bech32_reject,
     "subst": run_subst}[kind](spec, rec, M)


def replay_case(case, rec):
    M = _imports()
    if "corrupted" in case:
        hrp = case.get("hrp") or case["valid"][:case["valid"].rfind("1")]
        _check_decode_text(hrp, case["corrupted"], rec, M, must_reject=True, why="replay")
        r = M[2].decode(hrp, case["corrupted"])
        if tuple(r) != (None, None):
            rec.violation("bech32.accepts_corrupted", case, r, [None, None])
    elif "prog" in case:
        _check_segwit_triple(case["hrp"], case["ver"], case["prog"], rec, M)
    elif "hrp" in case and "text" in case:
        _check_decode_text(case["hrp"], case["text"], rec, M, why=case.get("why", ""))
    elif "vals" in case:
        e = R32.from5(case["vals"]); g = M[2].convertbits(case["vals"], 5, 8, False)
        if (e is None) != (g is None) or (e is not None and bytes(g) != e):
            rec.violation("bech32.convertbits_padding", case, g, e)
    elif "data" in case:
        _check_b58_bytes(case["data"], rec, M)
    elif "text" in case:
        _check_b58_text(case["text"], rec, M)
        t = R32.raw_decode(case["text"])
        rg = M[2].bech32_decode(case["text"])
        if t is None and tuple(rg) != (None, None, None):
            rec.violation("bech32.raw_accepts_invalid", case, rg, None)
