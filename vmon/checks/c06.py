"""C06 — validation is tamper-evident: signatures bind what their hash type commits."""
import io

from vmon.probe import shard_rng, observe
from vmon.refs import script as RS
from vmon.gen import scriptgen as G
from vmon.checks import c05

PROPERTY = "C06"
PRELOAD_NETWORK_ORDERS = [["btc", "xtn", "ltc", "bch", "grs", "doge", "dash", "btg"], ["btg", "grs", "bch", "doge", "ltc", "xtn", "btc"]]
LEVEL = "exploration"
TECHNIQUE = "offline checker over mutate/re-validate histories on live signed transactions: pycoin's per-input verdict vs the reference interpreter's re-verification of the mutated transaction, a digest-commitment consistency layer, and a fresh-object comparison after every step"
RULE = ("histories: a fully signed transaction (generator of C05: all standard puzzle kinds x hash types ALL/NONE/SINGLE x ANYONECANPAY, "
        "BTC/LTC/BCH/BTG/GRS and others) followed by a sequence of mutations applied to the live object - single-bit flips of version, lock "
        "time, every outpoint hash/index, every sequence, every output amount/script, every recorded spent amount/script; insertion, removal "
        "and reordering of inputs (with their spent outputs) and of outputs; swapping unlocking data between inputs; dropping a spent output "
        "- each followed by is_solution_ok for every input and bad_solution_count, with undo or accumulation. Distinct by (puzzle kind, "
        "signature version, hash type, mutated field class); both outcomes (stays valid / becomes invalid) must be seen for every hash type.")
ASSUMPTIONS = [
    "the expected verdict for a mutated transaction is the reference interpreter's verdict on the same bytes (vmon/refs/script.py + refs/sighash.py); "
    "'committed' is defined as: the reference digest of the input's signatures changes",
    "validation flags: pycoin's default (P2SH|WITNESS) and the standard set, alternating per history",
    "spent amounts are non-zero so that the appended-unspents serialisation used for the fresh-object comparison can represent them",
    "signed bytes re-loaded under another coin's class: on fork-id coins a legacy-path signature without the fork-id bit is refused "
    "(spend fails); witness-v0 checks on those coins use the BIP143 digest with the hash-type byte as given (BTG: fork id folded in) "
    "without a fork-id requirement, as the coins themselves have no segwit rule to compare with",
]
EXPLANATION = "per-input verdicts of the live object == reference verdicts == verdicts of a fresh object parsed from as_bin(include_unspents=True); inputs with missing spent output are never valid"
TIMEOUT = {"quick": 900, "thorough": 4 * 3600}

HT_NAMES = {None: "all", 1: "all", 2: "none", 3: "single", 0x81: "all+acp", 0x82: "none+acp", 0x83: "single+acp"}


def plan(tier, seed):
    q = tier == "quick"
    return [{"kind": "hist", "n": 10 if q else 160, "slot": i, "env": {"PYTHONHASHSEED": str(i % 5)}} for i in range(16 if q else 64)]


def selftest(rec):
    return c05.selftest(rec)


def flip(v, bit):
    return v ^ (1 << bit)


class Tamper(c05.History):
    def __init__(self, rec, net, netcode, rng, keys, std_flags):
        c05.History.__init__(self, rec, net, netcode, rng, keys)
        self.use_flags = self.flags if std_flags else None
        self.ref_flags = self.flags if std_flags else (RS.P2SH | RS.WITNESS)
        self.mlog = []

    # ----------------------------------------------------------------------------------------------
    def attach_sources(self):
        """give every input a real source transaction (so that spent outputs can also be looked up in a database)"""
        Tx = self.net.tx
        self.sources = {}
        for k, (ti, p) in enumerate(zip(self.tx.txs_in, self.puzzles)):
            idx = self.rng.randrange(3)
            outs = [Tx.TxOut(7 + j, b"\x51") for j in range(idx)] + [Tx.TxOut(p.amount, p.spk)]
            src = Tx(1, [Tx.TxIn(G.rand_prev(self.rng), k, b"\x51")], outs)
            ti.previous_hash, ti.previous_index = src.hash(), idx
            self.sources[src.hash()] = src

    def database_check(self):
        """spent outputs fetched from a transaction database: with an honest database every input validates; an entry filed
        under an outpoint's hash that is NOT that transaction leaves the spent output unknown - never reported valid"""
        rec, Tx = self.rec, self.net.tx
        plain = self.tx.as_bin()
        st, t2 = observe(Tx.from_bin, plain)
        if st != "ok":
            return
        st, _ = observe(t2.unspents_from_db, dict(self.sources))
        rec.ev("Tx.unspents_from_db")
        kw = {} if self.use_flags is None else {"flags": self.use_flags}
        if st != "ok" or [t2.is_solution_ok(i, **kw) for i in range(len(t2.txs_in))] != [True] * len(t2.txs_in):
            rec.violation("database.honest_db_not_valid", self.case(), st, "all inputs valid")
            return
        k = self.rng.randrange(len(self.tx.txs_in))
        ti = self.tx.txs_in[k]
        real = self.sources[ti.previous_hash]
        variant = self.rng.choice(["same_outputs_other_version", "amount_changed", "other_tx_same_script"])
        outs = [Tx.TxOut(o.coin_value, o.script) for o in real.txs_out]
        if variant == "amount_changed":
            outs[ti.previous_index] = Tx.TxOut(outs[ti.previous_index].coin_value + 1, outs[ti.previous_index].script)
        fake = Tx(2 if variant != "other_tx_same_script" else 1, [Tx.TxIn(G.rand_prev(self.rng), 9, b"\x52")], outs)
        db = dict(self.sources)
        db[ti.previous_hash] = fake
        t3 = Tx.from_bin(plain)
        st, r = observe(t3.unspents_from_db, db, ignore_missing=True)
        rec.ev("Tx.unspents_from_db(poisoned)")
        case = self.case({"poisoned_input": k, "variant": variant})
        if st != "ok":
            rec.violation("database.poisoned_db_raises_with_ignore_missing", case, r, "unknown spent output")
            return
        stv, v = observe(t3.is_solution_ok, k, **kw)
        if stv != "ok" or v is not False:
            rec.violation("database.unknown_spent_output_reported_valid." + variant, case, v, False)
        t4 = Tx.from_bin(plain)
        st, r = observe(t4.unspents_from_db, db)
        if st == "ok" and t4.is_solution_ok(k, **kw) is not False:
            rec.violation("database.unknown_spent_output_reported_valid.strict." + variant, case, True, False)

    def sign_all(self):
        self.build()
        self.attach_sources()
        keys = set()
        for p in self.puzzles:
            keys |= set(self.rng.sample(p.key_idx, p.m)) if p.m is not None else set(p.key_idx)
        if not self.sign_with(keys, "dict"):
            return False
        self.spks = [p.spk for p in self.puzzles]
        self.amounts = [p.amount for p in self.puzzles]
        self.kinds = [p.kind for p in self.puzzles]
        return True

    def live_verdicts(self, tx=None):
        tx = tx or self.tx
        out = []
        for i in range(len(tx.txs_in)):
            kw = {} if self.use_flags is None else {"flags": self.use_flags}
            st, ok = observe(tx.is_solution_ok, i, **kw)
            out.append(ok if st == "ok" else "EXC:%s" % type(ok).__name__)
        return out

    def ref_verdicts(self):
        t = self.tx
        ref_tx = {"version": t.version & 0xffffffff, "lock_time": t.lock_time,
                  "ins": [{"prev": i.previous_hash, "index": i.previous_index, "script": bytes(i.script), "sequence": i.sequence,
                           "witness": [bytes(w) for w in i.witness]} for i in t.txs_in],
                  "outs": [{"value": o.coin_value, "script": bytes(o.script)} for o in t.txs_out]}
        out, digests = [], []
        for i, ti in enumerate(ref_tx["ins"]):
            u = t.unspents[i] if i < len(t.unspents) else None
            if u is None:
                out.append(False)
                digests.append(None)
                continue
            log = []
            chk = c05.ForkChecker(ref_tx, i, u.coin_value, self.fork)
            chk.sighash_log = log
            r = RS.result_of(RS.verify_script, ti["script"], bytes(u.script), ti["witness"], self.ref_flags, chk)
            out.append(r == "OK")
            digests.append(frozenset(e[3] for e in log))
        return out, digests

    def fresh_verdicts(self):
        fresh = self.net.tx.from_bin(self.tx.as_bin(include_unspents=True))
        return self.live_verdicts(fresh)

    # ----------------------------------------------------------------------------------------------
    def mutations(self):
        """list of (field class, touches(i) -> bool for own-data, apply, undo)"""
        tx, rng = self.tx, self.rng
        n_in, n_out = len(tx.txs_in), len(tx.txs_out)
        M = []

        def setter(obj, attr, new):
            old = getattr(obj, attr)
            return (lambda: setattr(obj, attr, new)), (lambda: setattr(obj, attr, old))

        def flip_bytes(b, pos=None):
            b = bytearray(b)
            pos = rng.randrange(len(b)) if pos is None else pos
            b[pos] ^= 1 << rng.randrange(8)
            return bytes(b)

        for bit in rng.sample(range(32), 3):
            M.append(("version",) + setter(tx, "version", flip(tx.version, bit)))
            M.append(("lock_time",) + setter(tx, "lock_time", flip(tx.lock_time, bit)))
        for i, ti in enumerate(tx.txs_in):
            M.append(("outpoint_hash:%d" % i,) + setter(ti, "previous_hash", flip_bytes(ti.previous_hash)))
            M.append(("outpoint_index:%d" % i,) + setter(ti, "previous_index", flip(ti.previous_index, rng.randrange(32))))
            M.append(("sequence:%d" % i,) + setter(ti, "sequence", flip(ti.sequence, rng.randrange(32))))
        for j, to in enumerate(tx.txs_out):
            M.append(("out_amount:%d" % j,) + setter(to, "coin_value", flip(to.coin_value, rng.randrange(50))))
            if len(to.script):
                M.append(("out_script:%d" % j,) + setter(to, "script", flip_bytes(to.script)))
            M.append(("out_script_append:%d" % j,) + setter(to, "script", bytes(to.script) + b"\x61"))
        for i, u in enumerate(tx.unspents):
            M.append(("spent_amount:%d" % i,) + setter(u, "coin_value", max(1, flip(u.coin_value, rng.randrange(40)))))
            M.append(("spent_script:%d" % i,) + setter(u, "script", flip_bytes(u.script)))
        # structural mutations
        Tx = self.net.tx

        def list_op(name, fn):
            saved = {}

            def apply():
                saved["ins"], saved["outs"], saved["uns"] = list(tx.txs_in), list(tx.txs_out), list(tx.unspents)
                fn()

            def undo():
                tx.txs_in[:], tx.txs_out[:], tx.unspents[:] = saved["ins"], saved["outs"], saved["uns"]
            M.append((name, apply, undo))

        def add_output():
            tx.txs_out.insert(rng.randrange(n_out + 1), Tx.TxOut(rng.choice([1, 5000]), b"\x51"))

        def del_output():
            if len(tx.txs_out) > 0:
                del tx.txs_out[rng.randrange(len(tx.txs_out))]

        def swap_outputs():
            if len(tx.txs_out) > 1:
                a, b = rng.sample(range(len(tx.txs_out)), 2)
                tx.txs_out[a], tx.txs_out[b] = tx.txs_out[b], tx.txs_out[a]

        def add_input():
            k = rng.randrange(n_in + 1)
            tx.txs_in.insert(k, Tx.TxIn(G.rand_prev(rng), 0, b"\x51", 0xffffffff))
            tx.unspents.insert(k, Tx.TxOut(1000, b"\x51"))

        def del_input():
            if len(tx.txs_in) > 1:
                k = rng.randrange(len(tx.txs_in))
                del tx.txs_in[k]
                del tx.unspents[k]

        def swap_inputs():
            if len(tx.txs_in) > 1:
                a, b = rng.sample(range(len(tx.txs_in)), 2)
                tx.txs_in[a], tx.txs_in[b] = tx.txs_in[b], tx.txs_in[a]
                tx.unspents[a], tx.unspents[b] = tx.unspents[b], tx.unspents[a]

        def swap_unlock():
            if len(tx.txs_in) > 1:
                a, b = rng.sample(range(len(tx.txs_in)), 2)
                A, B = tx.txs_in[a], tx.txs_in[b]
                A.script, B.script = B.script, A.script
                A.witness, B.witness = B.witness, A.witness

        def drop_unspent():
            k = rng.randrange(len(tx.unspents))
            tx.unspents[k] = None

        def truncate_unspents():
            del tx.unspents[-1]

        for name, fn in (("add_output", add_output), ("del_output", del_output), ("swap_outputs", swap_outputs), ("add_input", add_input),
                         ("del_input", del_input), ("swap_inputs", swap_inputs), ("swap_unlock", swap_unlock), ("drop_unspent", drop_unspent),
                         ("truncate_unspents", truncate_unspents)):
            list_op(name, fn)
        # swap_unlock mutates TxIn objects in place: its undo must restore them too
        return M

    def snapshot_unlock(self):
        return [(ti, bytes(ti.script), tuple(ti.witness)) for ti in self.tx.txs_in]

    def restore_unlock(self, snap):
        for ti, s, w in snap:
            ti.script, ti.witness = s, list(w)

    def foreign_network_check(self, ht):
        """the same signed bytes loaded under another coin's transaction class: signatures made for one coin validate under
        another exactly when that coin's digest and hash-type rules say so (a BTC signature never validates on BCH/BTG/GRS)"""
        from pycoin.networks.registry import network_for_netcode
        rec = self.rec
        blob = self.tx.as_bin(include_unspents=True)
        for code in self.rng.sample(["BTC", "LTC", "BCH", "BTG", "GRS", "DOGE"], 2):
            if code == self.netcode:
                continue
            other = network_for_netcode(code)
            fork = c05.FORK.get(code, ("grs", 0) if code in c05.GRS_NETS else ("", 0))
            st, tx2 = observe(other.tx.from_bin, blob)
            if st != "ok":
                rec.violation("foreign_network.parse_raises", self.case({"other": code}), tx2, "transaction")
                continue
            flags = (self.flags & ~RS.STRICTENC) if fork[0] in ("bch", "btg") else self.flags
            rt = {"version": tx2.version & 0xffffffff, "lock_time": tx2.lock_time,
                  "ins": [{"prev": i.previous_hash, "index": i.previous_index, "script": bytes(i.script), "sequence": i.sequence,
                           "witness": [bytes(w) for w in i.witness]} for i in tx2.txs_in],
                  "outs": [{"value": o.coin_value, "script": bytes(o.script)} for o in tx2.txs_out]}
            for i, p in enumerate(self.puzzles):
                chk = c05.ForkChecker(rt, i, p.amount, fork)
                ref = RS.result_of(RS.verify_script, rt["ins"][i]["script"], p.spk, rt["ins"][i]["witness"], flags, chk) == "OK"
                stv, got = observe(tx2.is_solution_ok, i, flags=flags)
                rec.ev("foreign_network_validation")
                rec.ev("foreign_network.%s" % ("valid" if ref else "invalid"))
                if stv != "ok" or got is not ref:
                    rec.violation("foreign_network.%s_signature_%s_on_%s" % (
                        self.fork[0] or "btc", "accepted" if got is True else "rejected_or_raises", fork[0] or "btc"),
                        self.case({"other": code, "input": i, "hash_type_name": ht}), got, ref)

    # ----------------------------------------------------------------------------------------------
    def run(self):
        rec, rng = self.rec, self.rng
        if not self.sign_all():
            return
        base_live = self.live_verdicts()
        base_ref, base_dig = self.ref_verdicts()
        if not all(v is True for v in base_live) or not all(base_ref):
            rec.violation("setup.signed_tx_not_valid", self.case(), [base_live, base_ref], "all inputs valid")
            return
        ht = HT_NAMES.get(self.hash_type, "other")
        self.foreign_network_check(ht)
        self.database_check()
        muts = self.mutations()
        rng.shuffle(muts)
        budget = min(len(muts), 40)
        accumulate = rng.random() < 0.3
        for name, apply, undo in muts[:budget]:
            cls = name.split(":")[0]
            usnap = self.snapshot_unlock()
            try:
                apply()
            except (IndexError, ValueError):
                continue        # the shape changed under an accumulated history; this mutation no longer applies
            self.mlog.append(name)
            rec.ev("mutation:" + cls)
            live = self.live_verdicts()
            ref, dig = self.ref_verdicts()
            rec.ev("Tx.is_solution_ok", len(live))
            if len(live) > 1 and all(u is not None for u in self.tx.unspents) and len(self.tx.unspents) == len(self.tx.txs_in):
                order = list(range(len(live)))
                self.rng.shuffle(order)
                shared = self.shared_checker_verdicts(self.ref_flags if self.use_flags is None else self.use_flags, order)
                # shared_checker_verdicts returns verdicts indexed by input
                if shared != live:
                    rec.violation("shared_checker_instance_differs." + cls, self.case({"mutations": list(self.mlog), "order": order}), shared, live)
            case = self.case({"mutations": list(self.mlog), "hash_type_name": ht, "flags": "standard" if self.use_flags is not None else "default"})
            sv_kinds = sorted({k.split(":")[-1] for k in self.kinds})
            rec.case((self.netcode, tuple(sorted(self.kinds)), ht, cls, accumulate and len(self.mlog)), nontrivial=True)
            same_shape = len(live) == len(base_live)
            for i, (lv, rv) in enumerate(zip(live, ref)):
                u = self.tx.unspents[i] if i < len(self.tx.unspents) else None
                if u is None:
                    rec.ev("missing_unspent_checked")
                    if lv is not False:
                        rec.violation("missing_spent_output_reported_valid", case, lv, False)
                    continue
                rec.ev("outcome:%s:%s" % (ht, "valid" if rv else "invalid"))
                if lv is not rv:
                    direction = "accepts_tampered" if lv is True else ("rejects_untouched" if lv is False else "raises")
                    rec.violation("%s.%s.%s" % (direction, cls, ht), case, {"input": i, "pycoin": lv}, {"reference": rv})
            # digest-commitment consistency of the oracle itself (same shape only): unchanged digests + untouched own data => still valid
            if same_shape and not accumulate and cls not in ("swap_unlock", "swap_inputs", "add_input", "del_input"):
                for i in range(len(live)):
                    own = name in ("spent_script:%d" % i, "spent_amount:%d" % i) or cls in ("drop_unspent", "truncate_unspents")
                    if base_dig[i] is not None and dig[i] is not None and not own:
                        if dig[i] == base_dig[i] and base_ref[i] and not ref[i]:
                            rec.violation("oracle.commitment_inconsistent.unchanged_digest_but_invalid", case, name, i)
                        if dig[i] and base_dig[i] and not (dig[i] & base_dig[i]) and ref[i]:
                            rec.violation("oracle.commitment_inconsistent.changed_digest_but_valid", case, name, i)
            # statelessness: a fresh object gives the same verdicts
            if all(u is not None for u in self.tx.unspents) and len(self.tx.unspents) == len(self.tx.txs_in) and len(self.tx.txs_in) > 0:
                st, fresh = observe(self.fresh_verdicts)
                rec.ev("fresh_object_compared")
                if st != "ok":
                    rec.violation("fresh_object.raises.%s" % type(fresh).__name__, case, fresh, live)
                elif fresh != live:
                    rec.violation("fresh_object.verdict_differs.%s" % cls, case, {"live": live}, {"fresh": fresh})
            st, bad = observe(self.tx.bad_solution_count, **({} if self.use_flags is None else {"flags": self.use_flags}))
            rec.ev("Tx.bad_solution_count")
            want = sum(1 for v in live if v is not True)
            if st == "ok" and bad != want:
                rec.violation("bad_solution_count_inconsistent", case, bad, want)
            if not accumulate:
                undo()
                self.restore_unlock(usnap)
                self.mlog.pop()
        # after undoing everything the live object must be valid again (repeating validation gives the fresh verdict)
        if not accumulate:
            again = self.live_verdicts()
            rec.ev("revalidated_after_undo")
            if again != base_live:
                rec.violation("stateful.verdict_after_undo_differs", self.case(), again, base_live)
        rec.ev("net:" + self.netcode)


def run_shard(spec, rec):
    from pycoin.networks.registry import network_for_netcode
    rec.require("Tx.is_solution_ok", "fresh_object_compared", "missing_unspent_checked", "foreign_network_validation", "Tx.unspents_from_db(poisoned)")
    for ht in ("all", "none", "single", "all+acp", "none+acp", "single+acp"):
        pass
    keys = G.Keys(24)
    core, o1, o2 = c05.networks_for_slot(spec["slot"] + spec["seed"])
    nets = [core] * 5 + [o1]
    for k in range(spec["n"]):
        code = nets[k % len(nets)]
        net = network_for_netcode(code)
        rng = shard_rng(spec["seed"], PROPERTY, spec["tier"], spec["shard"], salt=k)
        h = Tamper(rec, net, code, rng, keys, std_flags=(k % 2 == 0))
        h.coord = [spec["seed"], spec["tier"], spec["shard"], k]
        try:
            h.run()
        except Exception as e:
            import traceback
            rec.violation("history.crash.%s" % type(e).__name__, h.case({"tb": traceback.format_exc()[-1500:], "mutations": h.mlog}), repr(e), "no exception")
        if k < 1:
            rec.sample({"net": code, "puzzles": [p.brief() for p in getattr(h, "puzzles", [])], "hash_type": h.hash_type, "mutations_applied": h.mlog[:8]})


def post_merge_requirements():
    """both outcomes must have been observed for each hash type (checked by the runner through rec.require in shard 0)"""
    return ["outcome:%s:%s" % (ht, o) for ht in ("all", "none", "single", "all+acp", "none+acp", "single+acp") for o in ("valid", "invalid")]


def replay_case(case, rec):
    """re-run exactly the stored history: its generator is a function of (seed, tier, shard, k)"""
    from pycoin.networks.registry import network_for_netcode
    keys = G.Keys(24)
    net = network_for_netcode(case["net"])
    seed, tier, shard, k = case["coord"]
    h = Tamper(rec, net, case["net"], shard_rng(seed, PROPERTY, tier, shard, salt=k), keys, std_flags=(k % 2 == 0))
    h.coord = case["coord"]
    try:
        h.run()
    except Exception as e:
        rec.violation("history.crash.%s" % type(e).__name__, h.case(), repr(e), "no exception")
    rec.note("mutations replayed: %d" % len(h.mlog))
